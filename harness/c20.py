# -*- coding: utf-8 -*-
"""
C20 - Searches over exported RDF return exactly the matching objects.

Tie between lean/OdmlModel/Model/Query.lean (+ Model/Rdf.lean for the export) and /repo:
  * the combinations FuzzyFinder executes (order, omissions) == `subsets`
  * the rows of every combination on the exported graph == `queryRows (exportRdf docs)`,
    and == `directEval docs` wherever the theorem `query_sound_complete` applies
  * `evalBGP` / `filtered` == rdflib `graph.query` on random small graphs x patterns (incl. by-text object
    positions) x FILTERs of the three kinds the queries use (library contract of the evaluator)
Oracle: the property restated over the public API: an independent evaluation of every
non-empty combination of the given pairs on the odML objects themselves.

Streams: match / fuzzy (one search per case, model-tied), reuse (histories over the caller's
dictionary, finder and graph; every search model-tied), sets and creator (oracle only: special
document sets; QueryCreator.get_query), bgp and subsets (model pieces against rdflib / the finder).
In every stream the export itself is varied (round 3): how sub-classing is switched off (keyword,
positional, the attribute set on an existing writer, a writer that exported with sub-classing before),
a custom Section type table that has no meaning while sub-classing is off, Section types of the
default table, one document instead of a list, the graph / a text / a file of the writer read back.
Round 5: stream whist (model-tied histories over the WRITER: several exports of one writer by any way out, the
documents edited in between, every searched export judged against the documents of that moment); earlier
exports on the writer of any stream; dates / uncertainties / values at their boundaries and repositories asked
about like texts; documents whose names and texts are words of the query notations; the list of searched values
in the string form; Python objects as dictionary values; compare also demands library rows == directEval'
(Model/QuerySpec.lean, the specification of C20.query_sound_complete_full) inside its hypotheses.
Round 6: stream pedit (model-tied histories in which the caller CHANGES the parameter dictionary it keeps between two
searches of one finder - in the inner collections, by rebinding keys, by emptying and refilling - and hands it over
again as it is / inside a new outer dictionary / as a copy / as a string; calls that fail while the queries are built,
the graph left out or set on the finder, the graph object added to in between); creator: one dictionary object emptied
and refilled for query after query. Model/Finder.lean: the finder object (C20.search_answers_the_call ...).
"""
import itertools
import os
import re
import shutil
import sys
import tempfile

import framework as fw
import c10

NS = c10.NS
KEYS = ["Doc", "Sec", "Prop"]
LABEL = {"Document": 0, "Section": 1, "Property": 2, "Bag URI": 3, "Value": 4}
STR_ATTRS = {"Doc": ["author", "version"],
             "Sec": ["name", "type", "definition", "reference"],
             "Prop": ["name", "definition", "dtype", "unit", "reference", "value_origin"]}
NAMES = ["a", "b", "ab"]
# strengthening round 3: Section types that are keys of the writer's default sub-class table
# (odml/resources/section_subclasses.yaml). "Exported without Section sub-classing" only says something
# for such Sections (and for types named in a caller's custom table): they are odml:Section like the rest.
TABLE_TYPES = ["analysis", "stimulus/grating", "recording", "datacite/creator"]
TYPES = ["t1", "t2", "t1", "t2"] + TABLE_TYPES
# RDF class names a caller's custom table may give (no blanks: the writer refuses those); the names of the
# three classes of the model among them
CLASS_NAMES = ["Custom", "Grating", "Section", "Property", "Document", u"Klasseä", "A1"]
# how the writer comes to export without sub-classing: constructor keyword / positional arguments, the
# public attribute set on a writer that was constructed with sub-classing, the same after that writer has
# already exported once with sub-classing, a writer without sub-classing that was switched on in between
WRITER_HOWS = ["kw", "kw", "pos", "toggle", "toggle", "used", "flip"]
# round 5: the ways a writer exports (each of them converts the documents as they are at that moment)
WRITER_EXPORTS = ["graph", "graph", "turtle", "nt", "str", "file"]
TEXTS = ["d1", "x y", "a\\b", "it's", u"é", "100%", "a\\qb", "tab\tx", "-", "D. N. Adams", "a;b", "[x]", "?s", "{y}"]
# strengthening round 2: line breaks of every flavour, texts that differ from a name only by case or by
# surrounding blanks, the text of Python's None, a multi-digit number, a character outside the BMP
TEXTS += ["line\nbreak", "cr\rx", u"ls\u2028x", u"nel\x85x", "None", "A", "T1", " a", "b ", "10",
          u"\U0001F600 x", "a  b"]
# strengthening round 3: characters that mean something in SPARQL / turtle text outside a string (comment,
# language tag, datatype, IRI, variable, prefixed name), a backslash at the very end and before a letter
# that makes an escape, quotes of the other kinds, control characters with and without a SPARQL escape,
# the ends of Latin-1 / the BMP, a zero-width character, a combining mark, a long text
TEXTS += ["a#b", "x@en", "1^^xsd:int", "<u>", "$x", "odml:Section", "a\\", "\\n", "'''", "`",
          "ff\x0cx", "bs\x08x", "vt\x0bx", "del\x7fx", u"\u00ffz", u"\u0100z", u"\uffffz", u"\u200bz",
          u"e\u0301", "long " + "x" * 300]
# Values that contain a code point escape of SPARQL (backslash, u or U, four or eight hex digits): the
# query text is run through the escape expansion before it is parsed, whatever the string escaping did
# (open finding codepoint_escape_in_value). Oracle-only streams (sets, creator) only: the Lean model does
# not render query text.
ESCAPE_TEXTS = ["\\u0041", "x\\U0001F600", "\\u005cn"]
ESCAPE_RE = re.compile(r"\\[uU][0-9A-Fa-f]{4}")
# strengthening round 5: the words of the two query notations themselves (a value may contain them: they are
# no syntax characters), of the parameter dictionary and of SPARQL, as whole values and inside values
FUZZY_WORDS = ["HAVING", "BEHAVING", "SHAVING x", "x HAVING", "HAVING y", "FIND", "FINDER", "a FIND b HAVING c",
               "having", "find x", "FIND sec", "BEHAVING RATS", "HAVINGS"]
MATCH_WORDS = ["doc", "sec", "prop", "document", "section", "property", "name", "type", "value", "id", "Doc",
               "Sec", "Prop", "Search", "prop name", "sec type", "docx", "value origin", "a section", "doc sec prop"]
# (not the five words "SELECT * WHERE {" with the brace: find() hands out one text with the queries in it and
# this harness takes that text apart at these words - a limitation of the harness, not of the search)
SPARQL_WORDS = ["SELECT", "WHERE", "FILTER", "?d", "?s ?p", "odml", "rdf", "UNION", "OPTIONAL x", "}", "{", ".",
                "SELECT * WHERE", "a odml", "true", "[]"]
WORD_FAMILIES = {"fuzzy": FUZZY_WORDS, "match": MATCH_WORDS, "sparql": SPARQL_WORDS}
# round 5: boundary values of the attributes that are not texts. Dates before the year 1000 (the text of a
# date has a four digit year), the first and the last day a date can be, a leap day; uncertainties and values
# whose text has an exponent, a sign, many digits, no fraction. (All of them read the same in Python and in
# the export; the spellings a search has to use for booleans, datetimes and tuples are not demanded.)
DATES = ["2020-01-02", "2020-01-02", "0999-03-04", "0001-01-01", "9999-12-31", "2000-02-29", "1000-01-01",
         "0987-12-31", "1979-10-12", "0099-10-10"]
NEAR_DATES = ["999-03-04", "2020-1-2", "2020-01-03", "0999-03-05", "99-10-10", "1-01-01"]
UNCERTAINTIES = [{"f": "0.5"}, {"f": "0.5"}, {"f": "1e-07"}, {"f": "1e+20"}, {"f": "0.30000000000000004"},
                 {"f": "2.0"}, {"f": "-0.1"}, {"f": "100.0"}, {"i": "5"}, {"f": "12345678.0"}]
NEAR_UNCERTAINTIES = ["0.50", "0.7", "1e-7", "1E-07", "5.0", "100", "2", "0.3"]
VALUE_KINDS = {"int": ("int", [{"i": "20"}, {"i": "25"}]), "string": ("string", ["x", "y z"]),
               "float": ("float", [{"f": "1.5"}]), "none": (None, []),
               "int2": ("int", [{"i": "-3"}, {"i": "0"}, {"i": "1000000000000000000000000000000"}, {"i": "20"}]),
               "float2": ("float", [{"f": "1e-07"}, {"f": "-0.1"}, {"f": "100.0"}, {"f": "1e+20"}]),
               "date": ("date", [{"d": "0999-03-04"}, {"d": "2020-01-02"}, {"d": "0001-01-01"}]),
               "words": ("string", ["HAVING", "doc", "value", "[x]"]),
               # ten and more values: members rdf:_10, rdf:_11, ... of the value node
               "many": ("int", [{"i": str(n)} for n in range(1, 13)])}
REPOS = ["http://x.org/t.xml", "http://x.org/s.xml"]
UNITS = ["mV", "s"]
ORIGINS = ["f.xml", "my file.odml"]
LONG_WORDS = {"doc": "document", "sec": "section", "prop": "property"}
SHAPES = ["tuples", "tuples", "lists", "tuple_outer"]
VIAS = ["graph", "graph", "graph", "turtle", "xml", "n3", "twice"]
# round 3: the other ways out of the writer: write_file (turtle / RDF-XML / n-triples file read back),
# str(writer), further text formats
VIAS += ["file", "file_xml", "file_nt", "str", "nt", "json-ld"]
GPASS = ["kw", "kw", "ctor", "pos", "nomode"]      # nomode (round 3): `mode` left to its default (fuzzy searches)


# ----------------------------------------------------------------------------- helpers
def pick(rng, pool, p=0.6):
    return rng.choice(pool) if rng.random() < p else None


def gen_docs(rng):
    docs = []
    for _ in range(rng.choice([1, 1, 2, 3])):
        secs = []
        for si in range(rng.choice([0, 1, 2, 3])):
            subs = []
            for ti in range(rng.choice([0, 0, 1, 2])):
                # a third level now and then: a Section is related to what directly contains it
                # (rarely: the model's nested-loop evaluation is slow on larger graphs; long chains of
                # sub-sections are the business of the oracle-only stream `sets`)
                third = [gen_sec(rng, NAMES[ui], []) for ui in range(rng.choice([0] * 11 + [1]))]
                subs.append(gen_sec(rng, NAMES[ti], third))
            secs.append(gen_sec(rng, NAMES[si], subs))
        docs.append({"author": pick(rng, ["me", "D. N. Adams", "a\\b"]), "version": pick(rng, ["1", "v2"]),
                     "date": pick(rng, DATES, 0.3), "repository": pick(rng, ["http://x.org/t.xml"], 0.15),
                     # round 3: now and then a document that came from a file (the export then says so in
                     # a hasFileName triple the searches do not ask about)
                     "origin": pick(rng, ORIGINS, 0.15), "secs": secs})
    return docs


def types_of(specs):
    out = set()

    def sec(s):
        if s.get("type"):
            out.add(s["type"])
        for c in s["subs"]:
            sec(c)
    for d in specs:
        for s in d["secs"]:
            sec(s)
    return sorted(out)


def gen_writer(rng, specs, force_custom=False):
    """How the documents are exported "without Section sub-classing" (none of it changes what has to be
    found): the way the switch is set, a custom Section type -> RDF class table (for types of the documents,
    for other types, overriding default entries, empty) that has no meaning while the switch is off, a single
    document handed over as such, another writer that exports the documents with sub-classing before."""
    custom = None
    r = 0.0 if force_custom else rng.random()
    if r < 0.5:
        types = types_of(specs)
        keys = rng.sample(types, min(len(types), rng.choice([1, 1, 2])))
        if rng.random() < 0.3 or not keys:
            keys.append(rng.choice(TABLE_TYPES + ["other/type", "t1"]))
        custom = [[k, rng.choice(CLASS_NAMES)] for k in sorted(set(keys))]
    elif r < 0.6:
        custom = []
    # round 5: what the same writer object was used for before the export that is searched - conversions and
    # the other ways out (text, str, file), in any mix; the documents are as they are now all the time
    hist = [rng.choice(WRITER_EXPORTS) for _ in range(rng.choice([1, 1, 2, 3]))] if rng.random() < 0.35 else []
    return {"how": rng.choice(WRITER_HOWS), "custom": custom, "single": rng.random() < 0.3,
            "pre": rng.random() < 0.15, "hist": hist}


def gen_sec(rng, name, subs):
    props = []
    for pi in range(rng.choice([0, 1, 2, 3])):
        kind = rng.choice(["int", "string", "float", "none", "int", "string", "float", "none",
                           "int2", "float2", "date", "words", "many"])
        dtype, vals = VALUE_KINDS[kind]
        if kind in ("int", "string", "float", "none"):
            vals = vals[:rng.randrange(0, len(vals) + 1)] if vals else []
        elif kind == "many":
            vals = vals[:rng.choice([10, 11, 12])]
        else:
            vals = rng.sample(vals, rng.randrange(1, len(vals) + 1))
        props.append({"name": NAMES[pi], "dtype": dtype, "values": vals,
                      "unit": pick(rng, UNITS, 0.5), "uncertainty": pick(rng, UNCERTAINTIES, 0.25),
                      "definition": pick(rng, TEXTS, 0.4), "reference": pick(rng, TEXTS, 0.3),
                      "value_origin": pick(rng, TEXTS, 0.3)})
    # now and then one text in two attributes of one object (a combination asking for both has a hit)
    for p in props:
        if p["definition"] is not None and rng.random() < 0.3:
            p[rng.choice(["reference", "value_origin"])] = p["definition"]
    out = {"name": name, "type": rng.choice(TYPES), "definition": pick(rng, TEXTS, 0.4),
           "reference": pick(rng, TEXTS, 0.3),
           # now and then a Section with a repository of its own (the URL of the Document's one, or another)
           "repository": pick(rng, ["http://x.org/t.xml", "http://x.org/s.xml"], 0.12), "props": props, "subs": subs}
    if out["definition"] is not None and rng.random() < 0.3:
        out["reference"] = out["definition"]
    return out


def values_in_docs(docs):
    """(kind, attr, value) triples that occur, for generating hits."""
    out = []

    def sec(s):
        for a in STR_ATTRS["Sec"]:
            if s.get(a):
                out.append(("Sec", a, s[a]))
        for p in s["props"]:
            for a in STR_ATTRS["Prop"]:
                if p.get(a):
                    out.append(("Prop", a, p[a]))
        for c in s["subs"]:
            sec(c)
    for d in docs:
        for a in STR_ATTRS["Doc"]:
            if d.get(a):
                out.append(("Doc", a, d[a]))
        for s in d["secs"]:
            sec(s)
    return out


def text_of(v):
    """the text of a value of a document spec, as Python says it (u"%s" % value)"""
    if isinstance(v, dict):
        if "f" in v:
            return repr(float(v["f"]))
        return v.get("i") or v.get("d") or v.get("t") or v.get("dt")
    return v if isinstance(v, str) else None


def typed_in_docs(docs):
    """what the documents carry in the attributes that are not plain texts:
    {"date": [...], "uncertainty": [...], "doc_repo": [...], "sec_repo": [...], "values": [[texts of one Property]]}"""
    out = {"date": [], "uncertainty": [], "doc_repo": [], "sec_repo": [], "values": []}

    def sec(s):
        if s.get("repository"):
            out["sec_repo"].append(s["repository"])
        for p in s["props"]:
            if p.get("uncertainty") is not None:
                out["uncertainty"].append(text_of(p["uncertainty"]))
            texts = [text_of(v) for v in p.get("values") or []]
            if texts and all(t is not None for t in texts):
                out["values"].append(texts)
        for c in s["subs"]:
            sec(c)
    for d in docs:
        if d.get("date"):
            out["date"].append(d["date"])
        if d.get("repository"):
            out["doc_repo"].append(d["repository"])
        for s in d["secs"]:
            sec(s)
    return out


def typed_triples(docs):
    """(kind, attribute, text) for the carried dates, uncertainties and repositories (round 5: asked about
    like the texts, in every stream)"""
    have = typed_in_docs(docs)
    return [("Doc", "date", v) for v in have["date"]] + [("Prop", "uncertainty", v) for v in have["uncertainty"]] + \
        [("Doc", "repository", v) for v in have["doc_repo"]] + [("Sec", "repository", v) for v in have["sec_repo"]]


def spec_secs(docs):
    out = []

    def sec(s):
        out.append(s)
        for c in s["subs"]:
            sec(c)
    for d in docs:
        for s in d["secs"]:
            sec(s)
    return out


def wordify(rng, docs, family):
    """Round 5: the texts and names of the documents are words of the query notations / the parameter
    dictionary / SPARQL (mostly of one family, so that several objects carry related words). Names stay
    unique among siblings."""
    pool = list(WORD_FAMILIES[family]) * 3 + FUZZY_WORDS + MATCH_WORDS + SPARQL_WORDS

    def rename(objs):
        seen = set()
        for o in objs:
            if rng.random() < 0.6:
                cand = [w for w in pool if w not in seen and "/" not in w]
                o["name"] = rng.choice(cand)
            while o["name"] in seen:
                o["name"] += "x"
            seen.add(o["name"])

    def sec(s):
        for a in ("definition", "reference"):
            if rng.random() < 0.45:
                s[a] = rng.choice(pool)
        if rng.random() < 0.35:
            s["type"] = rng.choice(pool)
        for pr in s["props"]:
            for a in ("definition", "reference", "value_origin", "unit"):
                if rng.random() < 0.3:
                    pr[a] = rng.choice(pool)
        rename(s["props"])
        rename(s["subs"])
        for c in s["subs"]:
            sec(c)
    for d in docs:
        for a in ("author", "version"):
            if rng.random() < 0.6:
                d[a] = rng.choice(pool)
        rename(d["secs"])
        for s in d["secs"]:
            sec(s)
    return docs


def part_order(opts):
    """the order in which the kinds are written in the string form (any order is documented usage)"""
    order = [k for k in (opts or {}).get("sorder", []) if k in KEYS]
    return order + [k for k in KEYS if k not in order]


def word_of(key, opts):
    word = {"Doc": "doc", "Sec": "sec", "Prop": "prop"}[key]
    return LONG_WORDS[word] if (opts or {}).get("words") == "long" else word


def twins_in_docs(docs):
    """(kind, attribute, other attribute, text): one object carries the text in both attributes"""
    out = []

    def obj(kind, o):
        have = [(a, o[a]) for a in STR_ATTRS[kind] if o.get(a)]
        for i, (a, v) in enumerate(have):
            for b, w in have[i + 1:]:
                if v == w:
                    out.append((kind, a, b, v))

    def sec(s):
        obj("Sec", s)
        for p in s["props"]:
            obj("Prop", p)
        for c in s["subs"]:
            sec(c)
    for d in docs:
        obj("Doc", d)
        for s in d["secs"]:
            sec(s)
    return out


def render_match(pairs, opts=None):
    """dictionary form -> the documented string form `doc(a:v, b:w) sec(...) prop(...)`
    (opts: the long words document/section/property, the kinds in another order)"""
    parts = []
    for key in part_order(opts):
        mine = [p for p in pairs if p["k"] == key]
        if mine:
            # the list of searched values is written value:[v1, v2] (round 5)
            parts.append("%s(%s)" % (word_of(key, opts), ", ".join(
                "value:[%s]" % ", ".join(p["vs"]) if p["a"] == "value" and key == "Prop" else "%s:%s" % (p["a"], p["v"])
                for p in mine)))
    return " ".join(parts)


def render_fuzzy(attrs, search, opts=None):
    return "FIND %s HAVING %s" % (" ".join("%s(%s)" % (word_of(k, opts), ", ".join(attrs[k]))
                                           for k in part_order(opts) if k in attrs), ", ".join(search))


def to_params(pairs, opts=None):
    out = {}
    for p in pairs:
        val = list(p["vs"]) if p["a"] == "value" and p["k"] == "Prop" else p["v"]
        if isinstance(val, list) and (opts or {}).get("ints"):
            # the documented example passes numbers: ('value', [20, 25])
            val = [int(v) if re.match(r"-?[0-9]+$", v) else v for v in val]
        if (opts or {}).get("objs") and [(q["k"], q["a"]) for q in pairs].count((p["k"], p["a"])) == 1:
            # (two values for one attribute - a combination the finder never builds, but it sorts all pairs -
            # stay texts: a date and a text cannot be ordered, a dictionary that mixes them is not demanded)
            val = as_object(p, val)
        out.setdefault(p["k"], []).append((p["a"], val))
    return shape_params(out, "match", opts)


def as_object(p, val):
    """Round 5: the value as the Python object the document carries instead of its text (a date, a float,
    an int) - only where the text of that object is the text asked for, so that the search is the same."""
    import datetime
    try:
        if (p["k"], p["a"]) == ("Doc", "date"):
            obj = datetime.date.fromisoformat(val)
            return obj if u"%s" % obj == val else val
        if (p["k"], p["a"]) == ("Prop", "uncertainty"):
            obj = int(val) if re.match(r"-?[0-9]+$", val) else float(val)
            return obj if u"%s" % obj == val else val
    except (ValueError, TypeError):
        pass
    return val


def shape_params(params, mode, opts=None):
    """The caller's dictionary in one of the shapes a caller may use: pairs as tuples (documented) or
    lists, the collection of pairs / attribute names / search terms a list or a tuple, the keys inserted
    in any order. Always new objects (outer dictionary and every inner collection)."""
    opts = opts or {}
    shape = opts.get("shape", "tuples")
    order = opts.get("korder") or []
    keys = sorted(params, key=lambda k: order.index(k) if k in order else len(order))
    out = {}
    for k in keys:
        v = params[k]
        if mode == "match":
            inner = list if shape == "lists" else tuple
            items = [inner(list(x) if isinstance(x, list) else x for x in p) for p in v]
            out[k] = tuple(items) if shape == "tuple_outer" else items
        else:
            out[k] = tuple(v) if shape == "tuple_outer" else list(v)
    if opts.get("empty_kinds"):
        # a kind that is not asked about may be there with nothing in it
        for k in KEYS:
            if k not in out:
                out[k] = () if shape == "tuple_outer" else []
    return out


def gen_opts(rng, specs=()):
    """dimensions of one search that do not change what has to be found"""
    korder = KEYS + ["Search"]
    rng.shuffle(korder)
    sorder = list(KEYS)
    rng.shuffle(sorder)
    return {"shape": rng.choice(SHAPES), "korder": korder, "sorder": sorder,
            "words": rng.choice(["short", "short", "long"]), "via": rng.choice(VIAS),
            "gpass": rng.choice(GPASS), "ints": rng.random() < 0.5, "objs": rng.random() < 0.3,
            # round 3: the writer's options, keys of kinds that are not asked about present with no entry
            "writer": gen_writer(rng, specs), "empty_kinds": rng.random() < 0.2}


def xml_safe(specs):
    """XML 1.0 cannot carry most control characters nor U+FFFE/U+FFFF and normalises line ends: only texts without them go
    through the RDF/XML file form (a limitation of the file format, not of the search)"""
    def texts(x):
        if isinstance(x, str):
            yield x
        elif isinstance(x, dict):
            for v in x.values():
                for t in texts(v):
                    yield t
        elif isinstance(x, (list, tuple)):
            for v in x:
                for t in texts(v):
                    yield t
    return not any(re.search(u"[\x00-\x1f\x7f-\x9f\u2028\u2029\ufffe\uffff]", t) for t in texts(specs))


def bracket_after_values(pairs):
    """the shape of the repaired finding value_list_swallows_bracket (ae1f0aa): in the Property part a list of
    searched values is followed by a pair whose text contains a closing square bracket"""
    seen = False
    for p in pairs:
        if p["k"] != "Prop":
            continue
        if p["a"] == "value":
            seen = True
        elif seen and "]" in p["v"]:
            return True
    return False


BRACKET_TEXTS = ["[x]", "a]", "]", "x] y", "[a] [b]", "[20]"]


def bracket_shape(rng, docs):
    """The shape of the repaired finding value_list_swallows_bracket for the model-tied streams: a list of
    searched values followed by one or two pairs of the Property whose text contains a closing square
    bracket (`bracket_after_values`), every text sayable in the string form. The document specs are completed
    so that Properties carry the text (the one that holds the values more often than not); the values are
    those of one Property of the documents, now and then with one that has a bracket or is foreign."""
    ok = lambda v: v and not re.search(r"[,():\"]", v) and v == v.strip()
    props = [p for x in spec_secs(docs) for p in x["props"]]
    cands = []
    for p in props:
        texts = [text_of(v) for v in p.get("values") or []]
        if texts and all(t is not None and ok(t) for t in texts):
            cands.append((p, texts))
    attrs = ["definition", "reference", "unit", "value_origin"]
    rng.shuffle(attrs)
    text = rng.choice(BRACKET_TEXTS)
    if cands:
        holder, texts = rng.choice(cands)
        vs = rng.sample(texts, min(len(texts), rng.choice([1, 1, 2])))
        carriers = [p for p in props if (p is holder and rng.random() < 0.8) or (p is not holder and rng.random() < 0.3)]
    else:
        vs = [rng.choice(["20", "x"])]
        carriers = [p for p in props if rng.random() < 0.5]
    for p in carriers:
        p[attrs[0]] = text
    if rng.random() < 0.15:
        vs[-1] = rng.choice(["21", "[x", "x]", "[20]"])
    pairs = [{"k": "Prop", "a": "value", "v": "", "vs": vs},
             {"k": "Prop", "a": attrs[0], "v": text if rng.random() < 0.85 else "other]", "vs": []}]
    if rng.random() < 0.35:
        text2 = rng.choice(BRACKET_TEXTS + ["[", "x"])
        for p in carriers:
            if rng.random() < 0.7:
                p[attrs[1]] = text2
        pairs.append({"k": "Prop", "a": attrs[1], "v": text2, "vs": []})
    return pairs


def with_bracket_shape(shape, pairs, limit):
    """the shape first (value list before the bracket texts), then up to `limit` of the other pairs that do
    not ask for an attribute of the shape again"""
    taken = [(q["k"], q["a"]) for q in shape]
    return shape + [q for q in pairs if (q["k"], q["a"]) not in taken][:limit]


def turtle_safe(x):
    """rdflib writes a double into turtle / n3 text with seven significant digits (0.30000000000000004 comes
    back as 0.3): floats with more digits go through the n-triples text instead (a limitation of that
    serialiser, not of the search; the graph the writer hands out carries them in full)"""
    if isinstance(x, dict):
        if "f" in x and len(x) == 1:
            return float("%e" % float(x["f"])) == float(x["f"])
        return all(turtle_safe(v) for v in x.values())
    if isinstance(x, (list, tuple)):
        return all(turtle_safe(v) for v in x)
    return True


def string_safe(pairs, with_finding=False):
    """Can the string form say these pairs? Values free of the query syntax characters, not blank at the
    ends. A line feed inside a value is no syntax character: since the repair of
    string_form_line_feed (a288f96) such a value goes through the string form in every stream.
    Round 5: the list of searched values has a string form too, value:[v1, v2] (the only notation the parser
    reads; the `value:20` of one docstring example is not read as a value pair and is not demanded). Since the
    repair of value_list_swallows_bracket (ae1f0aa) a value list followed by a pair whose text contains a
    closing square bracket (`bracket_after_values`) takes the string form in every stream, the model-tied ones
    included (`with_finding` is kept for the callers and has no effect any more)."""
    ok = lambda v: not re.search(r"[,():\"]", v) and v == v.strip() and v
    for p in pairs:
        if p["a"] == "value" and p["k"] == "Prop":
            if not p["vs"] or not all(ok(v) for v in p["vs"]):
                return False
        elif p["a"] == "value" or not ok(p["v"]):
            return False
    return True


def parse_output(text):
    """the string find() returns -> [(query text, [row, ...])]; a row is [d, s, p] of IRIs/None"""
    blocks = []
    for chunk in text.split("SELECT * WHERE {")[1:]:
        head, _, rest = chunk.partition("}\n")
        query = "SELECT * WHERE {" + head + "}\n"
        rows, cur, last = [], None, 99
        for line in rest.split("\n"):
            m = re.match(r"(Document|Section|Property|Bag URI|Value): (.*)$", line)
            if not m:
                continue
            idx = LABEL[m.group(1)]
            if cur is None or idx <= last:
                cur = [None, None, None]
                rows.append(cur)
            if idx < 3:
                cur[idx] = m.group(2)
            last = idx
        blocks.append((query, rows))
    return blocks


def row_key(r):
    return [x if x is None else str(x) for x in r]


# ----------------------------------------------------------------------------- the check
class C20(fw.Check):
    prop = "C20"
    lean_targets = ["OdmlModel.Props.C20"]
    obligations = ["C20." + t for t in [
        "query_vocabulary_matches_writer", "query_never_fails", "evalBGP_sound", "evalBGP_complete",
        "combinations_exact", "combinations_most_specific_first", "hitless_omitted",
        "filtered_exact", "filter_strEq_exact", "filter_member_exact", "filter_typedBy_exact", "id_pair_exact",
        "fuzzy_equals_match_on_pairs", "query_tables_ok", "query_sound_complete", "value_pair_exact",
        "typed_literal_query_matches", "value_query_matches", "id_query_matches",
        "repository_query_matches",
        "query_tables_ok2", "direct_spec_extends", "query_sound_complete_ids",
        "query_sound_complete_values", "query_sound_complete_full", "match_search_sound_complete",
        "match_search_reports_exact", "fuzzy_search_reports_exact",
        # round 6 (Model/Finder.lean: the finder object over histories of calls)
        "search_answers_the_call", "graph_kept_by_any_call", "search_without_graph_uses_last_passed",
        "search_reports_exact_after_any_history"]]
    trusted_base = [
        "Lean 4.33.0 kernel; axioms propext, Classical.choice, Quot.sound only (audited per theorem)",
        "hand-written models lean/OdmlModel/Model/Query.lean, Model/QuerySpec.lean and Model/Rdf.lean, tied to /repo by this run",
        "Model/Finder.lean (the finder object): its answer is findRows of the call by C20.search_answers_the_call; the "
        "library's answers over histories are tied to findRows per search (stream pedit), the kept state is not driven",
        "harness/extract_tables.py (format._rdf_map tables regenerated into Lean on every run)",
        "Driver/C20.lean, Driver/RdfCodec.lean JSON glue; harness/framework.py, harness/c20.py, harness/c10.py",
        "rdflib SPARQL engine: basic graph pattern matching with RDF term equality, FILTER with STR / STRSTARTS / EXISTS "
        "(evalBGP and Flt.holds are validated against it per run)",
    ]
    assumptions = [
        "the regex front ends (QueryParser, QueryParserFuzzy) are not modelled; string form == dictionary form is checked per case",
        "documents are exported without Section sub-classing; repository URLs are not RDF class IRIs",
        "search values are free of , ( ) : and double quotes in the string form",
    ]
    rule = ("random small document sets x match/fuzzy x dictionary/string parameters; 1-3 pairs per kind "
            "with values drawn from the documents (hits) or not (misses); every non-empty combination is "
            "evaluated independently on the odML objects. Plus random small graphs x random basic graph "
            "patterns (evalBGP vs rdflib) and pure combination cases. Per search also: shape and key order of "
            "the dictionary, long/short words and order of the kinds in the string, the graph as handed out / "
            "exported text read back / writer asked twice, graph passed as keyword / positionally / to the "
            "constructor. Histories (reuse): the caller's dictionary, its inner collections, the finder and the "
            "graph used for several searches, after refused calls too. Oracle-only: special document sets (none, "
            "one twice, keep_id clone, long chains, many, unnamed objects, linked Sections, numbers as names) "
            "and QueryCreator.get_query from dictionary / string / a parser used again. The export itself (every "
            "stream): sub-classing switched off by keyword / positionally / by the attribute of an existing "
            "writer (also after it exported with sub-classing), custom Section type tables, Section types of the "
            "default table, one document instead of a list, an earlier sub-classing export of the same documents, "
            "write_file / str(writer) / nt / json-ld read back; oracle-only sets: Sections typed from the tables, "
            "documents edited between two conversions of one writer, documents loaded from files, ten and more "
            "children, all dtypes, values with SPARQL code point escapes. Round 5: histories over one writer "
            "(several exports by any way out, typed attributes and repositories edited in between, every searched "
            "export tied to the model), earlier exports on every writer, dates from year 1 to 9999, uncertainties "
            "and values with exponents / signs / many digits / ten and more values, names and texts that are words "
            "of the query notations, value lists in the string form, Python objects in the dictionary, lone "
            "surrogates (oracle-only). Round 6: histories in which the caller edits the dictionary it keeps (pairs / terms / "
            "names / kinds / searched values replaced, added, removed, reordered; in place, rebound, refilled) between "
            "searches of one finder, failed calls in between, graph left out / set on the finder / added to. "
            "Non-trivial = at least "
            "one combination with a hit; distinct = distinct canonical JSON of the case.")
    quick_n = 128
    case_timeout = 90
    thorough_n = 2500

    # -- generation ----------------------------------------------------------
    def gen_pairs(self, rng, docs, risky):
        present = values_in_docs(docs) + typed_triples(docs) * 2
        pairs = []
        for key in KEYS:
            if rng.random() < 0.55:
                for _ in range(rng.choice([1, 1, 2, 3])):
                    mine = [t for t in present if t[0] == key]
                    twins = [t for t in mine if any(p["k"] == key and p["v"] == t[2] and p["a"] != t[1]
                                                    for p in pairs)]
                    if twins and rng.random() < 0.6:
                        _k, a, v = rng.choice(twins)      # the text of an earlier pair, in another attribute
                    elif mine and rng.random() < 0.75:
                        _k, a, v = rng.choice(mine)
                    else:
                        a = rng.choice(STR_ATTRS[key])
                        v = rng.choice(NAMES + TYPES + TEXTS + UNITS + ORIGINS + [""])      # "": no object carries it
                    pairs.append({"k": key, "a": a, "v": v, "vs": []})
        if risky:
            r = rng.choice(["uncertainty", "uncertainty", "date", "date", "id", "id", "value", "value", "value", "value",
                            "repository", "repository", "sections", "doc_sections", "properties", "sec_repository",
                            "sec_repository"])
            # (since the repair of the three query shapes - eb38590, 573e2b8, 57076b7 - these pairs have hits:
            # texts that are carried, texts that are not, texts that differ from a carried one in spelling only)
            # Round 5: more often than not some object carries the attribute that is asked about (the document
            # specs are completed here, before they are used), and the text asked for is taken from the documents.
            secs = spec_secs(docs)
            if rng.random() < 0.7:
                if r == "date" and not any(d.get("date") for d in docs):
                    rng.choice(docs)["date"] = rng.choice(DATES)
                elif r == "repository" and not any(d.get("repository") for d in docs):
                    rng.choice(docs)["repository"] = rng.choice(REPOS)
                elif r == "sec_repository" and secs and not any(x.get("repository") for x in secs):
                    rng.choice(secs)["repository"] = rng.choice(REPOS)
                elif r == "uncertainty" and not any(p.get("uncertainty") for x in secs for p in x["props"]):
                    props = [p for x in secs for p in x["props"]]
                    if props:
                        rng.choice(props)["uncertainty"] = rng.choice(UNCERTAINTIES)
            have = typed_in_docs(docs)
            if r == "uncertainty":
                pool = have["uncertainty"] if have["uncertainty"] and rng.random() < 0.65 else \
                    ["0.5", "0.5"] + NEAR_UNCERTAINTIES + [text_of(u) for u in UNCERTAINTIES]
                pairs.append({"k": "Prop", "a": "uncertainty", "v": rng.choice(pool), "vs": []})
            elif r == "date":
                pool = have["date"] if have["date"] and rng.random() < 0.65 else DATES + NEAR_DATES
                pairs.append({"k": "Doc", "a": "date", "v": rng.choice(pool), "vs": []})
            elif r == "id":
                pairs.append({"k": rng.choice(KEYS), "a": "id", "v": rng.choice(["@first", "@first", "nobody"]), "vs": []})
            elif r == "value":
                if have["values"] and rng.random() < 0.55:
                    # the values of one Property (all / some of them, in any order), now and then with a value
                    # of another Property among them
                    mine = rng.choice(have["values"])
                    if len(mine) >= 10 and rng.random() < 0.6:
                        mine = mine[9:] + mine[:1]          # the tenth and later ones
                    vs = rng.sample(mine, rng.randrange(1, min(len(mine), 3) + 1))
                    if rng.random() < 0.25:
                        vs.insert(rng.randrange(len(vs) + 1), rng.choice(rng.choice(have["values"])))
                else:
                    vs = rng.choice([["20"], ["x"], ["20", "25"], ["25", "20"], ["y z"], ["1.5"],
                                     ["20", "x"], ["21"], ["x", "y z"], ["20", "21"], ["x", "y"],
                                     ["-3"], ["0999-03-04"], ["999-03-04"], ["1e-07"], ["1e-7"], ["100.0"], ["100"],
                                     ["1000000000000000000000000000000"], ["0", "-3"], ["HAVING"], ["doc", "value"],
                                     # what the value node says about itself is no value
                                     [c10.RDFNS + "Seq"]])
                pairs.append({"k": "Prop", "a": "value", "v": "", "vs": list(vs)})
            elif r == "repository":
                pool = have["doc_repo"] if have["doc_repo"] and rng.random() < 0.65 else REPOS + have["sec_repo"]
                pairs.append({"k": "Doc", "a": "repository", "v": rng.choice(pool), "vs": []})
            elif r == "doc_sections":
                pairs.append({"k": "Doc", "a": "sections", "v": "a", "vs": []})
            elif r == "properties":
                pairs.append({"k": "Sec", "a": "properties", "v": "a", "vs": []})
            elif r == "sec_repository":
                pool = have["sec_repo"] if have["sec_repo"] and rng.random() < 0.65 else REPOS + have["doc_repo"]
                pairs.append({"k": "Sec", "a": "repository", "v": rng.choice(pool), "vs": []})
            else:
                pairs.append({"k": "Sec", "a": "sections", "v": "x", "vs": []})
        if len(pairs) > 4:
            pairs = rng.sample(pairs, 4)
        if not pairs:
            pairs.append({"k": "Sec", "a": "name", "v": "a", "vs": []})
        return pairs

    # attribute names of the RDF model that are not plain texts (fuzzy mode: building and running never fails)
    OTHER_ATTRS = {"Doc": ["id", "date", "repository", "sections"],
                   "Sec": ["id", "repository", "sections", "properties"],
                   "Prop": ["id", "uncertainty"]}

    def gen_fuzzy(self, rng, docs, risky=False, limit=3, words=None):
        attrs, search = self.gen_fuzzy0(rng, docs, risky, limit)
        # round 5 (words: a family of words of the query notations): more often than not one of the terms is
        # such a word that an object carries, asked of the attribute that carries it
        fam = [t for t in values_in_docs(docs) if t[2] in words] if words else []
        if fam and rng.random() < 0.8:
            key, attr, val = rng.choice(fam)
            if attr not in attrs.get(key, []):
                attrs[key] = (attrs.get(key, []) + [attr])[-2:]
                while sum(len(v) for v in attrs.values()) > limit:
                    other = rng.choice([k for k in sorted(attrs) if k != key] or [key])
                    attrs[other] = attrs[other][1:]
                    if not attrs[other]:
                        del attrs[other]
            if val not in search:
                search[rng.randrange(len(search))] = val
        return attrs, search

    def gen_fuzzy0(self, rng, docs, risky=False, limit=3):
        attrs = {}
        for key in KEYS:
            if rng.random() < 0.6:
                attrs[key] = rng.sample(STR_ATTRS[key], rng.choice([1, 1, 2]))
        if not attrs:
            attrs["Sec"] = ["name"]
        risky_term = None
        if risky:
            key = rng.choice(KEYS)
            attrs.setdefault(key, []).insert(0, rng.choice(self.OTHER_ATTRS[key]))
            # a term such an attribute can carry
            have = typed_in_docs(docs)
            carried = {"date": have["date"], "uncertainty": have["uncertainty"],
                       "repository": have["doc_repo"] if key == "Doc" else have["sec_repo"]}.get(attrs[key][0])
            risky_term = rng.choice(carried) if carried and rng.random() < 0.7 else \
                {"date": rng.choice(DATES), "uncertainty": "0.5", "repository": "http://x.org/t.xml"}.get(attrs[key][0])
        # the finder runs one query per combination: keep the number of pairs small
        while sum(len(v) for v in attrs.values()) > limit:
            k = rng.choice(sorted(attrs))
            attrs[k] = attrs[k][:-1]
            if not attrs[k]:
                del attrs[k]
        present = [t[2] for t in values_in_docs(docs)]
        search = [rng.choice(present) if present and rng.random() < 0.7 else rng.choice(NAMES + TEXTS + [""])
                  for _ in range(rng.choice([1, 2]))]
        if risky_term and rng.random() < 0.7:
            search[-1] = risky_term
        # one term asked of two attributes of an object that carries it in both
        twins = twins_in_docs(docs)
        if twins and not risky and rng.random() < 0.5:
            key, a, b, val = rng.choice(twins)
            others = [(k, v[:1]) for k, v in sorted(attrs.items()) if k != key]
            attrs = dict(others[:max(0, limit - 2)])
            attrs[key] = [a, b]
            search[0] = val
            return attrs, search
        # more often than not one attribute / term pair is taken from an object of the documents (a hit)
        anchors = [t for t in values_in_docs(docs) + typed_triples(docs) * 2 if t[0] in attrs]
        if anchors and rng.random() < 0.7:
            key, attr, val = rng.choice(anchors)
            if attr not in attrs[key]:
                attrs[key][-1] = attr
            if val not in search:
                search[0] = val
        return attrs, search

    def small_pairs(self, rng, docs, limit=3):
        pairs = self.gen_pairs(rng, docs, False)
        rng.shuffle(pairs)
        return pairs[:limit]

    def gen_reuse(self, rng, n):
        """Operation histories: what the caller holds - the parameter dictionary, the collections inside it,
        the finder, the graph - is used for more than one search (a repeat, another document set, another
        finder), with copies and the string form in between and after calls that were refused."""
        cases = []
        for i in range(n):
            sets = [gen_docs(rng) for _ in range(rng.choice([1, 2, 2]))]
            if i % 6 in (4, 5):
                for specs in sets:
                    wordify(rng, specs, "fuzzy" if i % 2 == 0 else "match")
            both = [d for s in sets for d in s]
            opts = gen_opts(rng)
            case = {"stream": "reuse", "sets": sets,
                    "opts": {"shape": opts["shape"], "korder": opts["korder"], "sorder": opts["sorder"],
                             "words": opts["words"], "empty_kinds": opts["empty_kinds"]},
                    # round 3: every document set has its own writer, each with its own options
                    "writers": [gen_writer(rng, specs) for specs in sets]}
            if i % 2 == 0:
                case["mode"] = "fuzzy"
                case["attrs"], case["search"] = self.gen_fuzzy(rng, both, limit=2,
                                                               words=FUZZY_WORDS if i % 6 in (4, 5) else None)
            else:
                case["mode"] = "match"
                case["pairs"] = self.small_pairs(rng, both, 3)
                if i % 6 == 3:
                    case["pairs"] = with_bracket_shape(bracket_shape(rng, both), case["pairs"], 1)
            steps = []
            for _s in range(rng.choice([2, 2, 3])):
                steps.append({"g": rng.randrange(len(sets)),
                              "finder": rng.choice(["new", "new", "same", "same", "ctor"]),
                              "params": rng.choice(["same", "same", "same", "inner", "copy", "str"]),
                              # round 3 ("other"): a search in the other mode, with parameters of its
                              # own, on the same finder before
                              "pre": rng.choice([None, None, None, "mode", "both", "neither", "other", "other"])})
            # the caller's dictionary is used at least twice
            steps[0]["params"] = "same"
            steps[-1]["params"] = rng.choice(["same", "same", "inner"])
            if case["mode"] == "match" and i % 6 == 3:
                # the bracket shape goes through the string form between two uses of the caller's dictionary
                steps.insert(1, dict(steps[0], params="str", pre=None))
            case["steps"] = steps
            cases.append(case)
        return cases

    # round 6: how the caller changes the dictionary it keeps (all of them leave the outer dictionary the object
    # it was): the collections inside are changed where they are (items assigned, appended, deleted; the list of
    # searched values of a value pair too), the keys are bound to new collections, the dictionary is emptied
    # and filled again
    EDIT_TECHS = ["deep", "deep", "deep", "rebind", "rebind", "clear"]
    # ... and what is handed to the search afterwards: the dictionary itself, a new dictionary around the same
    # inner collections, a copy, the string form of what the dictionary says now
    EDIT_PASS = ["same", "same", "same", "same", "inner", "copy", "str"]

    def edit_match(self, rng, pairs, present):
        """one change of the match-mode content -> (new pairs, what was done); `present`: (kind, attribute,
        text) carried by the documents"""
        pairs = [dict(p, vs=list(p["vs"])) for p in pairs]
        carried = lambda k, a: sorted(set(t[2] for t in present if t[0] == k and t[1] == a))
        ops = ["next", "next", "next", "value", "attr", "append", "append", "remove", "remove", "swap", "none"]
        for _try in range(8):
            op = rng.choice(ops)
            i = rng.randrange(len(pairs))
            p = pairs[i]
            is_vals = p["a"] == "value" and p["k"] == "Prop"
            if is_vals and op in ("next", "value", "attr"):
                # the list of searched values: one more, one less, another one
                vs = p["vs"]
                how = rng.choice(["more", "less", "other"])
                if how == "less" and len(vs) > 1:
                    del vs[rng.randrange(len(vs))]
                elif how == "other" and vs:
                    vs[rng.randrange(len(vs))] = rng.choice(["20", "25", "x", "y z", "21", "1.5"])
                else:
                    vs.insert(rng.randrange(len(vs) + 1), rng.choice(["20", "25", "x", "y z", "21"]))
                return pairs, "values"
            if op == "next":
                # the same question about the next name: another text that the attribute carries somewhere
                others = [v for v in carried(p["k"], p["a"]) if v != p["v"]]
                if not others:
                    continue
                p["v"] = rng.choice(others)
                return pairs, op
            if op == "value":
                p["v"] = rng.choice(NAMES + TYPES + TEXTS[:12] + UNITS)
                return pairs, op
            if op == "attr":
                mine = [t for t in present if t[0] == p["k"]]
                if mine and rng.random() < 0.7:
                    _k, p["a"], p["v"] = rng.choice(mine)
                else:
                    p["a"] = rng.choice(STR_ATTRS[p["k"]])
                return pairs, op
            if op == "append" and len(pairs) < 4:
                if present and rng.random() < 0.8:
                    k, a, v = rng.choice(present)
                else:
                    k = rng.choice(KEYS)
                    a, v = rng.choice(STR_ATTRS[k]), rng.choice(NAMES + TYPES)
                pairs.insert(rng.randrange(len(pairs) + 1), {"k": k, "a": a, "v": v, "vs": []})
                return pairs, op
            if op == "remove" and len(pairs) > 1:
                del pairs[i]
                return pairs, op
            if op == "swap" and len(pairs) > 1:
                # the same pairs in another order: the same question
                j = rng.randrange(len(pairs))
                pairs[i], pairs[j] = pairs[j], pairs[i]
                return pairs, op
            if op == "none":
                return pairs, op
        return pairs, "none"

    def edit_fuzzy(self, rng, attrs, search, present):
        """one change of the fuzzy-mode content (attribute names per kind, search terms)"""
        attrs = dict((k, list(v)) for k, v in attrs.items())
        search = list(search)
        count = lambda: sum(len(v) for v in attrs.values())
        texts = sorted(set(t[2] for t in present if t[0] in attrs)) or NAMES
        ops = ["term+", "term+", "term=", "term=", "term-", "attr+", "attr-", "attr=", "kind-", "swap", "none"]
        for _try in range(8):
            op = rng.choice(ops)
            if op == "term+" and len(search) < 3 and count() <= 2:
                search.insert(rng.randrange(len(search) + 1),
                              rng.choice(texts) if rng.random() < 0.75 else rng.choice(NAMES + TEXTS[:12]))
                return attrs, search, op
            if op == "term=":
                search[rng.randrange(len(search))] = rng.choice(texts) if rng.random() < 0.75 else rng.choice(NAMES + TYPES)
                return attrs, search, op
            if op == "term-" and len(search) > 1:
                del search[rng.randrange(len(search))]
                return attrs, search, op
            if op == "attr+" and count() < (3 if len(search) < 3 else 2):
                k = rng.choice(KEYS)
                cand = [a for a in STR_ATTRS[k] if a not in attrs.get(k, [])]
                if not cand:
                    continue
                attrs.setdefault(k, []).append(rng.choice(cand))
                return attrs, search, op
            if op == "attr-" and count() > 1:
                k = rng.choice(sorted(attrs))
                del attrs[k][rng.randrange(len(attrs[k]))]
                if not attrs[k]:
                    del attrs[k]
                return attrs, search, op
            if op == "attr=":
                k = rng.choice(sorted(attrs))
                cand = [a for a in STR_ATTRS[k] if a not in attrs[k]]
                if not cand:
                    continue
                attrs[k][rng.randrange(len(attrs[k]))] = rng.choice(cand)
                return attrs, search, op
            if op == "kind-" and len(attrs) > 1:
                del attrs[rng.choice(sorted(attrs))]
                return attrs, search, op
            if op == "swap" and len(search) > 1:
                search.reverse()
                return attrs, search, op
            if op == "none":
                return attrs, search, op
        return attrs, search, "none"

    def gen_pedit(self, rng, n):
        """Round 6 - histories in which the caller CHANGES what it keeps between two searches (model-tied: every
        search is one `find` of the model for what the dictionary says and the graph holds at that moment).
        One parameter dictionary: pairs replaced ("the same question about the next name"), removed, added,
        reordered, a value appended to the list of searched values, a term / an attribute name / a kind added
        or taken away - done to the inner collections where they are, by binding a key to a new collection,
        by emptying and refilling the dictionary; handed over again as it is, inside a new outer dictionary,
        as a copy, in the string form. One finder for all searches (mostly), with another search / a refused
        call / a call that fails while the queries are built in between, the graph passed again, left out
        (the graph of the previous call) or set on the finder. One graph object: the export of another
        document set is added to it between two searches."""
        cases = []
        for i in range(n):
            sets = [gen_docs(rng) for _ in range(rng.choice([1, 1, 2]))]
            if i % 7 == 5:
                for specs in sets:
                    wordify(rng, specs, "fuzzy" if i % 3 == 2 else "match")
            both = [d for s in sets for d in s]
            present = values_in_docs(both)
            opts = gen_opts(rng)
            case = {"stream": "pedit", "sets": sets, "mode": "fuzzy" if i % 3 == 2 else "match",
                    "opts": {"shape": rng.choice(["tuples", "lists", "lists", "tuple_outer"]), "korder": opts["korder"],
                             "sorder": opts["sorder"], "words": opts["words"], "empty_kinds": opts["empty_kinds"],
                             "ints": opts["ints"]},
                    "writers": [gen_writer(rng, specs) for specs in sets]}
            if case["mode"] == "fuzzy":
                attrs, search = self.gen_fuzzy(rng, both, limit=2)
                content = {"attrs": attrs, "search": search}
            else:
                pairs = self.small_pairs(rng, both, 3)
                if i % 6 == 1:
                    pairs = with_bracket_shape(bracket_shape(rng, both), pairs, 1)
                elif i % 6 == 4:
                    have = typed_in_docs(both)["values"]
                    vs = rng.sample(have[0], min(len(have[0]), 2)) if have else ["20"]
                    pairs = [{"k": "Prop", "a": "value", "v": "", "vs": vs}] + pairs[:2]
                content = {"pairs": pairs}
            steps, edited = [], False
            for si in range(rng.choice([2, 3, 3, 4])):
                what = None
                if si:
                    if case["mode"] == "fuzzy":
                        a, s, what = self.edit_fuzzy(rng, content["attrs"], content["search"], present)
                        content = {"attrs": a, "search": s}
                    else:
                        p, what = self.edit_match(rng, content["pairs"], present)
                        content = {"pairs": p}
                    edited = edited or what != "none"
                step = dict(content, g=rng.randrange(len(sets)), what=what,
                            finder=rng.choice(["same", "same", "same", "same", "new", "ctor"]),
                            tech=rng.choice(self.EDIT_TECHS), keep_empty=rng.random() < 0.3,
                            graph=rng.choice(["pass", "pass", "pass", "omit", "attr"]),
                            pre=rng.choice([None, None, None, None, "mode", "both", "neither", "other", "failed"]))
                step["pass"] = rng.choice(self.EDIT_PASS) if si else "same"
                # the graph object itself changes: the export of the other set is added to it
                step["gadd"] = (step["g"] + 1) % len(sets) if si and len(sets) > 1 and rng.random() < 0.2 else None
                steps.append(step)
            # the dictionary the caller keeps is handed over at least twice, after a change
            steps[-1]["pass"] = rng.choice(["same", "same", "inner"])
            steps[-1]["finder"] = steps[0]["finder"] = "same"
            case["steps"] = steps
            cases.append(case)
        return cases

    def gen_whist(self, rng, n):
        """Round 5 - histories over the WRITER (model-tied: every search is one `find` of the model on the
        documents as they are at that moment). One writer object exports several times, by any of its ways
        out, the caller edits the documents in between (texts, names, Sections added and removed, and the
        attributes that are not texts: repositories set / changed / taken away, the date, an uncertainty);
        the export of the moment is searched - for what was edited (new and old text) and for what the
        documents carry in repositories, dates, uncertainties, values, ids."""
        cases = []
        for i in range(n):
            docs = gen_docs(rng)
            secs = spec_secs(docs)
            # repositories on Documents and Sections more often than elsewhere (several objects share a URL)
            for d in docs:
                if rng.random() < 0.6:
                    d["repository"] = rng.choice(REPOS)
                if rng.random() < 0.4:
                    d["date"] = rng.choice(DATES)
            for x in secs:
                if rng.random() < 0.4:
                    x["repository"] = rng.choice(REPOS)
            if i % 5 == 4:
                wordify(rng, docs, rng.choice(sorted(WORD_FAMILIES)))
            shape = bracket_shape(rng, docs) if i % 6 == 1 else None
            opts = gen_opts(rng, docs)
            steps, asked = [], []
            for si in range(rng.choice([2, 2, 3])):
                edits, touched = self.gen_edits(rng, docs) if si and rng.random() < 0.7 else ([], [])
                asked += touched
                steps.append({"via": rng.choice(WRITER_EXPORTS), "edits": edits, "search": rng.random() < 0.5})
            steps[-1]["search"] = True
            have = typed_in_docs(docs)
            cand = [("Doc", "repository", v) for v in have["doc_repo"]] + \
                [("Sec", "repository", v) for v in have["sec_repo"]] + [("Doc", "date", v) for v in have["date"]] + \
                [("Prop", "uncertainty", v) for v in have["uncertainty"]]
            rng.shuffle(asked)
            rng.shuffle(cand)
            pairs = []
            for k, a, v in asked[:2] + cand[:2] + [("Doc", "repository", rng.choice(REPOS))]:
                if (k, a) not in [(q["k"], q["a"]) for q in pairs] and len(pairs) < 2:
                    pairs.append({"k": k, "a": a, "v": v, "vs": []})
            more = self.gen_pairs(rng, docs, rng.random() < 0.4)
            rng.shuffle(more)
            pairs += [q for q in more if (q["k"], q["a"]) not in [(x["k"], x["a"]) for x in pairs]][:1]
            case = {"stream": "whist", "docs": docs, "steps": steps, "how": rng.choice(["dict", "dict", "str"]),
                    "opts": {"shape": opts["shape"], "korder": opts["korder"], "sorder": opts["sorder"],
                             "words": opts["words"], "empty_kinds": opts["empty_kinds"], "objs": opts["objs"],
                             "gpass": opts["gpass"]},
                    "writer": dict(gen_writer(rng, docs), pre=False)}
            if i % 3 == 2:
                case["mode"] = "fuzzy"
                k, a, v = (pairs[0]["k"], pairs[0]["a"], pairs[0]["v"])
                attrs = {k: [a]}
                other = rng.choice([x for x in KEYS if x != k])
                attrs[other] = [rng.choice(STR_ATTRS[other])]
                present = [t[2] for t in values_in_docs(docs) if t[0] == other]
                case["attrs"] = attrs
                case["search"] = [v] + ([rng.choice(present)] if present and rng.random() < 0.6 else [])
            else:
                case["mode"] = "match"
                case["pairs"] = pairs
                if shape:
                    case["pairs"] = with_bracket_shape(shape, pairs, 1)
                    case["how"] = "str"
            cases.append(case)
        return cases

    SET_KINDS = ["empty", "twice", "clone", "deep", "many", "unnamed", "link", "numeric", "plain", "plain",
                 # round 3
                 "typed", "edited", "loaded", "escape", "wide", "dtypes",
                 # round 5
                 "valuestr", "surrogate", "valuestr", "wordy"]

    @staticmethod
    def all_secs(specs):
        out = []

        def sec(s):
            out.append(s)
            for c in s["subs"]:
                sec(c)
        for d in specs:
            for s in d["secs"]:
                sec(s)
        return out

    def gen_edits(self, rng, docs, typed=True):
        """what the caller does to the documents between two conversions of one writer
        -> (edits, [(kind, attribute, new text)])"""
        edits, touched = [], []
        attr_of = {"retype": "type", "rename": "name", "redefine": "definition", "del_sec": "name",
                   "sec_repo": "repository"}
        for _ in range(rng.choice([1, 2, 3])):
            di = rng.randrange(len(docs))
            op = rng.choice(["retype", "retype", "rename", "redefine", "add_sec", "del_sec", "del_prop", "author"] +
                            # round 5: repositories set / changed / taken away, the date, an uncertainty
                            (["repo", "repo", "sec_repo", "sec_repo", "date", "unc"] if typed else []))
            e = {"op": op, "doc": di, "sec": rng.randrange(3)}
            secs = docs[di]["secs"]
            if op in attr_of and secs:
                # what the Section said before the edit (the first export said so; the export that is
                # searched does not any more, unless another Section says the same)
                before = secs[e["sec"] % len(secs)].get(attr_of[op])
                if before:
                    touched.append(("Sec", attr_of[op], before))
            if op == "retype":
                e["v"] = rng.choice(TYPES + ["my/type"])
                touched.append(("Sec", "type", e["v"]))
            elif op == "rename":
                e["v"] = rng.choice(NAMES + ["c", "10"])
                touched.append(("Sec", "name", e["v"]))
            elif op == "redefine":
                e["v"] = rng.choice(TEXTS)
                touched.append(("Sec", "definition", e["v"]))
            elif op == "author":
                e["v"] = rng.choice(["me", "you", "D. N. Adams"])
                if docs[di].get("author"):
                    touched.append(("Doc", "author", docs[di]["author"]))
                touched.append(("Doc", "author", e["v"]))
            elif op == "add_sec":
                e["spec"] = gen_sec(rng, rng.choice(["new", "c"]), [])
                touched.append(("Sec", "name", e["spec"]["name"]))
                if e["spec"].get("repository"):
                    touched.append(("Sec", "repository", e["spec"]["repository"]))
            elif op == "repo":
                e["v"] = rng.choice(REPOS + [None])
                touched += [("Doc", "repository", v) for v in (docs[di].get("repository"), e["v"]) if v]
            elif op == "sec_repo":
                e["v"] = rng.choice(REPOS + [None])
                if e["v"]:
                    touched.append(("Sec", "repository", e["v"]))
            elif op == "date":
                e["v"] = rng.choice(DATES)
                touched += [("Doc", "date", v) for v in (docs[di].get("date"), e["v"]) if v]
            elif op == "unc":
                e["v"] = rng.choice(UNCERTAINTIES)
                touched.append(("Prop", "uncertainty", text_of(e["v"])))
            edits.append(e)
        rng.shuffle(touched)
        return edits, touched

    def gen_sets(self, rng, n):
        """Document sets the Lean model is not asked about (oracle only): no document at all, one document
        twice, a keep_id clone next to its original, long chains of sub-sections, many documents, objects
        without a name (the id serves as name), linked Sections (merged view), names that are numbers.
        Round 3: every Section of a type that the default / a custom sub-class table names (typed); the
        documents edited between two conversions of the same writer (edited); documents that were saved to a
        file and loaded again (loaded); a value with a SPARQL code point escape in it (escape)."""
        cases = []
        for i in range(n):
            kind = self.SET_KINDS[i % len(self.SET_KINDS)]
            docs = gen_docs(rng)
            post = []
            extra = []
            edits = None
            wanted = []        # (kind, attribute, text): ask for it, more often than not
            force_custom = False
            if kind == "empty":
                docs = []
            elif kind == "twice":
                post.append({"op": "twice", "doc": rng.randrange(len(docs))})
            elif kind == "clone":
                post.append({"op": "clone", "doc": rng.randrange(len(docs))})
            elif kind == "deep":
                chain = []
                for lvl in range(rng.choice([4, 5, 7])):
                    chain = [gen_sec(rng, NAMES[lvl % 3], chain)]
                docs[0]["secs"] = chain
            elif kind == "many":
                while len(docs) < 5:
                    docs += gen_docs(rng)
            elif kind == "unnamed":
                if not docs[0]["secs"]:
                    docs[0]["secs"].append(gen_sec(rng, "a", []))
                first = docs[0]["secs"][0]
                if not first["props"]:
                    first["props"].append({"name": "a", "dtype": None, "values": [], "unit": "mV",
                                           "uncertainty": None, "definition": None, "reference": None,
                                           "value_origin": None})
                first["name"] = None
                first["props"][0]["name"] = None
                extra = [{"k": "Sec", "a": "name", "v": "@first", "vs": []},
                         {"k": "Prop", "a": "name", "v": "@first", "vs": []}]
            elif kind == "link":
                for di, d in enumerate(docs):
                    if len(d["secs"]) >= 2:
                        j, k = rng.sample(range(len(d["secs"])), 2)
                        post.append({"op": "link", "doc": di, "sec": j, "to": "/" + d["secs"][k]["name"]})
            elif kind == "numeric":
                number = {"a": "1", "b": "10", "ab": "2"}

                def renumber(s):
                    s["name"] = number[s["name"]]
                    s["type"] = rng.choice(["1", "10"])
                    for p in s["props"]:
                        p["name"] = number[p["name"]]
                    for c in s["subs"]:
                        renumber(c)
                for d in docs:
                    d["version"] = rng.choice(["1", "10", "1.0"])
                    for s in d["secs"]:
                        renumber(s)
            elif kind == "typed":
                if not self.all_secs(docs):
                    docs[0]["secs"].append(gen_sec(rng, "a", []))
                # (None: a Section without a type - it carries none, the tables have nothing to say about it)
                pool = rng.sample(TABLE_TYPES + ["my/type", "t1", None], 3)
                for s in self.all_secs(docs):
                    s["type"] = rng.choice(pool)
                force_custom = rng.random() < 0.7
                s = rng.choice(self.all_secs(docs))
                wanted.append(("Sec", "type" if s["type"] and rng.random() < 0.7 else "name", None, s))
            elif kind == "wide":
                # ten and more children: the tenth and later ones, names that differ in the second digit
                many = rng.choice([10, 11, 12])
                docs = docs[:1]
                docs[0]["secs"] = [gen_sec(rng, "s%d" % (n + 1), []) for n in range(many)]
                first = docs[0]["secs"][rng.randrange(many)]
                first["props"] = [{"name": "p%d" % (n + 1), "dtype": None, "values": [], "unit": pick(rng, UNITS, 0.5),
                                   "uncertainty": None, "definition": None, "reference": None,
                                   "value_origin": None} for n in range(rng.choice([10, 11]))]
                wanted.append(("Sec", "name", rng.choice(["s1", "s10", "s%d" % many, "s13"])))
                wanted.append(("Prop", "name", rng.choice(["p1", "p10", "p11", "p12"])))
                # round 5: ten and more values of one Property (members rdf:_10, rdf:_11, ...), some of them twice
                nvals = rng.choice([10, 11, 12])
                first["props"][0].update({"dtype": "int", "values": [{"i": str(n + 1)} for n in range(nvals)] +
                                          [{"i": "1"}, {"i": "10"}][:rng.randrange(3)]})
                many_values = rng.choice([["10"], ["%d" % nvals], ["1", "%d" % nvals], ["13"], ["10", "1"], ["1", "1"],
                                          ["10", "%d" % nvals], ["9", "10"]])
            elif kind == "dtypes":
                if not self.all_secs(docs):
                    docs[0]["secs"].append(gen_sec(rng, "a", []))
                kinds = {"boolean": [True, False], "date": [{"d": "2020-01-02"}], "time": [{"t": "12:00:00"}],
                         "datetime": [{"dt": "2020-01-02T12:00:00"}], "text": ["x\ny"], "url": ["http://a.b/c"],
                         "person": ["D. N. Adams"], "2-tuple": ["(1;2)"], "string": []}
                for n, sec in enumerate(self.all_secs(docs)):
                    dtype = rng.choice(sorted(kinds))
                    sec["props"] = sec["props"][:2] + [
                        {"name": "q%d" % n, "dtype": dtype, "values": kinds[dtype], "unit": None, "uncertainty": None,
                         "definition": None, "reference": None, "value_origin": None}]
                    if rng.random() < 0.5:
                        wanted.append(("Prop", "dtype", dtype))
                if not wanted:
                    wanted.append(("Prop", "dtype", rng.choice(sorted(kinds))))
            elif kind == "valuestr":
                # the list of searched values in the string form, beside other pairs of the same Property
                # (before and after it), texts with square brackets among them
                if not self.all_secs(docs):
                    docs[0]["secs"].append(gen_sec(rng, "a", []))
                sec = rng.choice(self.all_secs(docs))
                dtype, vals = VALUE_KINDS[rng.choice(["int", "string", "int2", "float2", "date", "words", "many"])]
                text = rng.choice(["[x]", "a]", "]", "x", "HAVING", "value", "[", "y z"])
                attr = rng.choice(["definition", "reference", "unit", "value_origin"])
                spec = {"name": "vs", "dtype": dtype, "values": vals, "unit": None, "uncertainty": None,
                        "definition": None, "reference": None, "value_origin": None}
                spec[attr] = text
                sec["props"] = sec["props"][:2] + [spec]
                texts = [text_of(v) for v in vals]
                vs = rng.sample(texts, rng.choice([1, 1, 2]))
                if rng.random() < 0.2:
                    vs[-1] = rng.choice(["21", "z", "[x"])
                valuestr = [{"k": "Prop", "a": "value", "v": "", "vs": vs},
                            {"k": "Prop", "a": attr, "v": text if rng.random() < 0.85 else "other", "vs": []}]
                if rng.random() < 0.5:
                    valuestr.reverse()
            elif kind == "wordy":
                wordify(rng, docs, ("fuzzy" if i % 3 == 2 else "match") if rng.random() < 0.75
                        else rng.choice(sorted(WORD_FAMILIES)))
            elif kind == "surrogate":
                # a text with a lone surrogate in it (Python reads such texts from file names and broken
                # input): no text form of the export can carry it, the graph the writer hands out can
                if not self.all_secs(docs):
                    docs[0]["secs"].append(gen_sec(rng, "a", []))
                s = rng.choice(self.all_secs(docs))
                text = rng.choice([u"lone\ud800x", u"\udfff", u"a\udc80"])
                s["definition"] = text
                wanted.append(("Sec", "definition", text))
            elif kind == "edited":
                edits, touched = self.gen_edits(rng, docs)
                wanted += [t for t in touched if rng.random() < 0.8]
            elif kind == "loaded":
                post.append({"op": "load", "fmt": rng.choice(["XML", "XML", "JSON", "YAML"])})
            elif kind == "escape":
                if not self.all_secs(docs):
                    docs[0]["secs"].append(gen_sec(rng, "a", []))
                s = rng.choice(self.all_secs(docs))
                text = rng.choice(ESCAPE_TEXTS)
                where = rng.choice(["sec", "sec", "prop", "doc"])
                if where == "prop" and s["props"]:
                    s["props"][0]["reference"] = text
                    wanted.append(("Prop", "reference", text))
                elif where == "doc":
                    docs[0]["author"] = text
                    wanted.append(("Doc", "author", text))
                else:
                    s["definition"] = text
                    wanted.append(("Sec", "definition", text))
            wanted = [(w[0], w[1], w[3][w[1]]) if len(w) == 4 else w for w in wanted]
            opts = gen_opts(rng, docs)
            if force_custom:
                opts["writer"] = gen_writer(rng, docs, force_custom=True)
            if kind == "surrogate":
                opts["via"] = rng.choice(["graph", "twice"])
                opts["writer"]["hist"] = [v for v in opts["writer"].get("hist", []) if v == "graph"]
            case = {"stream": "sets", "kind": kind, "docs": docs, "post": post, "opts": opts,
                    "how": rng.choice(["dict", "str"])}
            if kind in ("valuestr", "wordy"):
                case["how"] = "str"
            value_pair = None
            if kind == "wide" and rng.random() < 0.85:
                value_pair = {"k": "Prop", "a": "value", "v": "", "vs": many_values}
            if kind == "dtypes" and rng.random() < 0.6:
                # a value searched by its text, for the dtypes whose Python text is the text of the export
                # (a boolean reads True / true, a datetime has a blank / a T, a tuple is a list: which of the
                # two spellings a search has to use is not demanded - such values are not asked for)
                texts = {"date": "2020-01-02", "time": "12:00:00", "text": "x\ny", "url": "http://a.b/c",
                         "person": "D. N. Adams"}
                value_pair = {"k": "Prop", "a": "value", "v": "", "vs": [texts[rng.choice(sorted(texts))]]}
            if edits:
                case["edits"] = edits
            if i % 3 == 2 and kind != "valuestr":
                case["mode"] = "fuzzy"
                case["attrs"], case["search"] = self.gen_fuzzy(rng, docs, words=FUZZY_WORDS if kind == "wordy" else None)
                if wanted:
                    k, a, v = wanted[0]
                    case["attrs"] = {k: [a]} if kind == "escape" else dict(case["attrs"], **{k: [a]})
                    while sum(len(x) for x in case["attrs"].values()) > 3:
                        other = [x for x in sorted(case["attrs"]) if x != k][0]
                        del case["attrs"][other]
                    case["search"][0] = v
            else:
                case["mode"] = "match"
                pairs = self.small_pairs(rng, docs, 3)
                if extra:
                    pairs = extra[:rng.choice([1, 2])] + pairs[:2]
                if wanted:
                    pairs = [{"k": k, "a": a, "v": v, "vs": []} for k, a, v in wanted[:2]] + \
                        [p for p in pairs if (p["k"], p["a"]) not in [(w[0], w[1]) for w in wanted[:2]]][:2]
                if value_pair:
                    pairs = [value_pair] + pairs[:2]
                if kind == "valuestr":
                    pairs = valuestr + [q for q in pairs if q["k"] != "Prop"][:1]
                case["pairs"] = pairs
            cases.append(case)
        return cases

    def gen_creator(self, rng, n):
        """The other entry point, QueryCreator.get_query: one query from all pairs, from the dictionary or
        from the string through a parser; several queries one after the other, a parser object used again."""
        cases = []
        for _i in range(n):
            docs = gen_docs(rng)
            if _i % 5 == 4:
                wordify(rng, docs, rng.choice(sorted(WORD_FAMILIES)))
            steps = []
            for _s in range(rng.choice([1, 2, 3])):
                opts = gen_opts(rng)
                steps.append({"pairs": self.small_pairs(rng, docs, 3), "entry": rng.choice(["dict", "str", "str"]),
                              "parser": rng.choice(["new", "new", "same"]), "repeat": rng.random() < 0.3,
                              "opts": {"shape": opts["shape"], "korder": opts["korder"], "sorder": opts["sorder"],
                                       "words": opts["words"]},
                              # round 6: the dictionary is the one the caller used for the queries before, emptied
                              # and filled with the pairs of this query (a new creator every time)
                              "shared": rng.random() < 0.4})
            if _i % 8 == 3:
                steps[-1]["pairs"] = with_bracket_shape(bracket_shape(rng, docs), steps[-1]["pairs"], 1)
                steps[-1]["entry"] = "str"
            case = {"stream": "creator", "docs": docs, "steps": steps, "writer": gen_writer(rng, docs)}
            if rng.random() < 0.08 and self.all_secs(docs):
                # a value with a SPARQL code point escape (open finding codepoint_escape_in_value)
                text = rng.choice(ESCAPE_TEXTS)
                rng.choice(self.all_secs(docs))["definition"] = text
                steps[-1]["pairs"] = [{"k": "Sec", "a": "definition", "v": text, "vs": []}] + \
                    [p for p in steps[-1]["pairs"] if (p["k"], p["a"]) != ("Sec", "definition")][:2]
            cases.append(case)
        return cases

    def generate(self, tier, rng):
        n = self.quick_n if tier == "quick" else self.thorough_n
        cases = []
        for i in range(n):
            docs = gen_docs(rng)
            # round 5: every 8th search of each mode is about documents whose texts and names are words of
            # the query notations (mostly those of its own notation), and takes the string form where it can
            wordy = i % 8 in (2, 3)
            if wordy:
                own = "fuzzy" if i % 4 == 3 else "match"
                wordify(rng, docs, own if rng.random() < 0.75 else rng.choice(sorted(WORD_FAMILIES)))
            how = "str" if wordy and rng.random() < 0.8 else rng.choice(["dict", "str"])
            if i % 4 == 3:
                attrs, search = self.gen_fuzzy(rng, docs, risky=(i % 16 == 7), words=FUZZY_WORDS if wordy else None)
                cases.append({"stream": "fuzzy", "docs": docs, "attrs": attrs, "search": search,
                              "how": how, "opts": gen_opts(rng, docs)})
            else:
                pairs = self.gen_pairs(rng, docs, i % 4 == 1)
                rng.shuffle(pairs)
                if i % 16 == 5:
                    # since the repair of value_list_swallows_bracket (ae1f0aa): a value list followed by
                    # pairs with a closing bracket in their text, model-tied, the string form preferred
                    # (the other form is compared in any case)
                    pairs = with_bracket_shape(bracket_shape(rng, docs), pairs, 2)
                    if rng.random() < 0.25:
                        rng.shuffle(pairs)
                    how = "str" if rng.random() < 0.75 else how
                cases.append({"stream": "match", "docs": docs, "pairs": pairs,
                              "how": how, "opts": gen_opts(rng, docs)})
        cases += self.gen_reuse(rng, 44 if tier == "quick" else 400)
        cases += self.gen_whist(rng, 30 if tier == "quick" else 400)
        cases += self.gen_pedit(rng, 30 if tier == "quick" else 450)
        cases += self.gen_sets(rng, 80 if tier == "quick" else 1000)
        cases += self.gen_creator(rng, 40 if tier == "quick" else 500)
        m = 150 if tier == "quick" else 3000
        terms = [["i", "ex:a"], ["i", "ex:b"], ["i", "ex:c"], ["l", "x", ""], ["l", "y", ""],
                 ["l", "1", c10.XSD + "integer"], ["l", "x", c10.XSD + "string"]]
        preds = [["i", "ex:p"], ["i", "ex:q"], ["i", c10.RDFNS + "type"]]
        # the shapes of the repaired queries (typed literals, values, id, repository): a helper variable
        # compared by its text (["str", text]) in a pattern, FILTERs on the variables of the rows; graphs
        # with membership predicates rdf:_n and with nodes typed by a node
        members = [["i", c10.RDFNS + "_1"], ["i", c10.RDFNS + "_2"], ["i", c10.RDFNS + "_x"], ["i", c10.RDFNS + "li"]]
        texts = ["x", "y", "1", "ex:a", "ex:c"]
        for i in range(m):
            rich = i % 2 == 1
            triples = []
            for _t in range(rng.randrange(1, 9)):
                pool = preds + members if rich else preds
                triples.append([rng.choice(terms[:3]), rng.choice(pool), rng.choice(terms)])
            pats = []
            for _p in range(rng.randrange(1, 4)):
                s = rng.choice(["?d", "?s", "?p", rng.choice(terms[:3])])
                p = rng.choice(preds + preds + ["?v"])
                o = rng.choice(["?d", "?s", "?p", "?v", rng.choice(terms), rng.choice(terms)])
                if rich and rng.random() < 0.35:
                    o = ["str", rng.choice(texts)]
                pats.append([s, p, o])
            if not any(isinstance(x, str) for pat in pats for x in pat):
                pats[0][0] = "?d"         # SELECT * needs a variable
            case = {"stream": "bgp", "triples": triples, "pats": pats}
            if rich:
                used = sorted(set(x for pat in pats for x in pat if isinstance(x, str))) or ["?d"]
                filters = []
                for _f in range(rng.choice([0, 1, 1, 2])):
                    # mostly on a variable of the patterns (as in the generated queries), now and then on
                    # one that stays unbound
                    var = rng.choice(used) if rng.random() < 0.85 else rng.choice(["?d", "?s", "?p", "?v"])
                    kind = rng.choice(["strEq", "member", "typedBy"])
                    if kind == "typedBy":
                        filters.append([kind, var, rng.choice(preds[:2]), rng.choice(texts)])
                    else:
                        filters.append([kind, var, rng.choice(texts)])
                case["filters"] = filters
            cases.append(case)
        for _ in range(60 if tier == "quick" else 600):
            pairs = []
            for _p in range(rng.randrange(1, 6)):
                key = rng.choice(KEYS)
                pairs.append({"k": key, "a": rng.choice(["name", "type", "definition"]),
                              "v": rng.choice(["a", "b", "B", u"é", "ab", ""]), "vs": []})
            cases.append({"stream": "subsets", "pairs": pairs})
        return cases

    # -- implementation ------------------------------------------------------
    def impl(self, case):
        c10._quiet_terminology()
        st = case["stream"]
        if st == "bgp":
            return self.impl_bgp(case)
        if st == "subsets":
            return self.impl_subsets(case)
        if st == "reuse":
            return self.impl_reuse(case)
        if st == "creator":
            return self.impl_creator(case)
        if st == "whist":
            return self.impl_whist(case)
        if st == "pedit":
            return self.impl_pedit(case)
        return self.impl_find(case)

    @staticmethod
    def rdf_term(t):
        from rdflib import URIRef, Literal
        if t[0] == "i":
            return URIRef(t[1])
        return Literal(t[1], datatype=URIRef(t[2])) if t[2] else Literal(t[1])

    def impl_bgp(self, case):
        import rdflib
        g = rdflib.Graph()
        for s, p, o in case["triples"]:
            g.add((self.rdf_term(s), self.rdf_term(p), self.rdf_term(o)))

        helpers = []
        lines = []

        def fresh():
            helpers.append("?t%d" % (len(helpers) + 1))
            return helpers[-1]

        def txt(x):
            if isinstance(x, str):
                return x
            if x[0] == "str":
                # a helper variable that occurs once, compared by its text (the shape of the typed
                # literal queries)
                var = fresh()
                lines.append('FILTER (STR(%s) = "%s") .\n' % (var, x[1]))
                return var
            return self.rdf_term(x).n3()
        for s, p, o in case["pats"]:
            lines.append("%s %s %s .\n" % (txt(s), txt(p), txt(o)))
        for f in case.get("filters") or []:
            if f[0] == "strEq":            # the shape of an id pair
                lines.append('FILTER (STR(%s) = "%s") .\n' % (f[1], f[2]))
            elif f[0] == "member":         # the shape of a searched value
                a, b = fresh(), fresh()
                lines.append('FILTER EXISTS { %s %s %s . FILTER (STRSTARTS(STR(%s), "%s_") && STR(%s) = "%s") } .\n'
                             % (f[1], a, b, a, c10.RDFNS, b, f[2]))
            else:                          # the shape of a repository pair
                a, b = fresh(), fresh()
                lines.append('FILTER EXISTS { %s %s %s . %s <%stype> %s . FILTER (STR(%s) = "%s") } .\n'
                             % (f[1], self.rdf_term(f[2]).n3(), a, a, c10.RDFNS, b, b, f[3]))
        query = "SELECT * WHERE {\n%s}" % "".join(lines)
        rows = []
        for row in g.query(query):
            d = row.asdict()
            rows.append([self.term_json(d.get(v)) for v in ("d", "s", "p", "v")])
        return {"rows": sorted(fw.canon(r) for r in rows),
                "triples": [list(t) for t in set(tuple(map(tuple, t)) for t in case["triples"])]}

    @staticmethod
    def term_json(x):
        from rdflib import Literal
        if x is None:
            return None
        if isinstance(x, Literal):
            return ["l", str(x), str(x.datatype) if x.datatype is not None else ""]
        return ["i", str(x)]

    def impl_subsets(self, case):
        from odml.rdf.fuzzy_finder import FuzzyFinder
        ff = FuzzyFinder()
        attrs = [(p["k"], (p["a"], p["v"])) for p in case["pairs"]]
        try:
            ff._generate_parameters_subsets(attrs)
            return {"subsets": [[{"k": a[0], "a": a[1][0], "v": a[1][1], "vs": []} for a in s] for s in ff._subsets]}
        except AttributeError:
            return {"skipped": "no _generate_parameters_subsets"}

    def resolve_pairs(self, case, docs_built):
        """replace the placeholder value by the id (attribute id) or the name (attribute name: an object
        created without a name is named by its id) of the first object of the kind"""
        pairs = []
        for p in case["pairs"]:
            p = dict(p)
            if p["v"] == "@first" and p["a"] in ("id", "name"):
                obj = None
                d = docs_built[0] if docs_built else None
                if d is None:
                    obj = None
                elif p["k"] == "Doc":
                    obj = d
                elif d.sections:
                    obj = d.sections[0] if p["k"] == "Sec" else (d.sections[0].properties[0]
                                                                  if d.sections[0].properties else None)
                p["v"] = str(getattr(obj, p["a"])) if obj is not None else "none"
            pairs.append(p)
        return pairs

    # -- pieces of one search ------------------------------------------------
    @staticmethod
    def build_set(specs, post=()):
        """the document set of a case: the documents of the specs, then the post operations"""
        docs = [c10.build_doc(d) for d in specs]
        for op in post or ():
            if op["op"] == "twice":
                docs.append(docs[op["doc"]])
            elif op["op"] == "clone":
                docs.append(docs[op["doc"]].clone(keep_id=True))
            elif op["op"] == "link":
                # the merge behind a link refuses some pairs of Sections (clashing children, values of
                # another type): that is set-up, not the search - such a document stays without the link
                try:
                    docs[op["doc"]].sections[op["sec"]].link = op["to"]
                except Exception:
                    docs[op["doc"]] = c10.build_doc(specs[op["doc"]])
            elif op["op"] == "load":
                # the documents as they come back from a file. (What a file format cannot carry or refuses
                # is the business of the file properties: such a document stays the object it was.)
                import odml
                tmp = tempfile.mkdtemp(prefix="c20_")
                try:
                    for i, doc in enumerate(list(docs)):
                        try:
                            path = os.path.join(tmp, "d%d.%s" % (i, op["fmt"].lower()))
                            odml.save(doc, path, op["fmt"])
                            docs[i] = odml.load(path, op["fmt"])
                        except Exception:
                            docs[i] = doc
                finally:
                    shutil.rmtree(tmp, ignore_errors=True)
        return docs

    @staticmethod
    def apply_edits(docs, edits):
        """the caller changes the documents (between two conversions of one writer); an edit the library
        refuses (a sibling of that name exists, ...) just does not happen"""
        for e in edits or ():
            try:
                doc = docs[e["doc"] % len(docs)]
                if e["op"] == "add_sec":
                    c10.build_sec(e["spec"], doc)
                    continue
                if e["op"] == "author":
                    doc.author = e["v"]
                    continue
                if e["op"] == "repo":
                    doc.repository = e["v"]
                    continue
                if e["op"] == "date":
                    doc.date = e["v"]
                    continue
                if not doc.sections:
                    continue
                sec = doc.sections[e["sec"] % len(doc.sections)]
                if e["op"] == "retype":
                    sec.type = e["v"]
                elif e["op"] == "rename":
                    sec.name = e["v"]
                elif e["op"] == "redefine":
                    sec.definition = e["v"]
                elif e["op"] == "del_sec":
                    doc.remove(sec)
                elif e["op"] == "del_prop" and sec.properties:
                    sec.remove(sec.properties[0])
                elif e["op"] == "sec_repo":
                    sec.repository = e["v"]
                elif e["op"] == "unc" and sec.properties:
                    sec.properties[0].uncertainty = c10.dec_val(e["v"])
            except Exception:
                pass

    @staticmethod
    def build_writer(docs, wspec=None, linked=False):
        """A writer that exports the documents WITHOUT Section sub-classing, set up in one of the ways a
        caller has (see gen_writer). Nothing of it changes what the export has to say about Sections: with
        sub-classing off every Section is an odml:Section, whatever its type and whatever tables exist.
        (Earlier conversions are left out for documents with linked Sections, see make_graph.)"""
        from odml.tools.rdf_converter import RDFWriter
        w = wspec or {}
        custom = None if w.get("custom") is None else dict((k, v) for k, v in w["custom"])
        arg = docs[0] if w.get("single") and len(docs) == 1 else docs
        how = w.get("how", "kw")
        if linked and how in ("used", "flip"):
            how = "toggle"
        if w.get("pre") and not linked:
            # someone else exports the same documents with sub-classing (and a table for their types) before
            table = dict(custom or {})
            table.setdefault("t1", "Custom")
            RDFWriter(arg, custom_subclasses=table).convert_to_rdf()
        if how == "pos":
            writer = RDFWriter(arg, False, custom)
        elif how == "toggle":
            writer = RDFWriter(arg, custom_subclasses=custom)
            writer.rdf_subclassing = False
        elif how == "used":
            writer = RDFWriter(arg, custom_subclasses=custom)
            writer.convert_to_rdf()
            writer.rdf_subclassing = False
        elif how == "flip":
            writer = RDFWriter(arg, rdf_subclassing=False, custom_subclasses=custom)
            writer.rdf_subclassing = True
            writer.convert_to_rdf()
            writer.rdf_subclassing = False
        elif custom is None:
            writer = RDFWriter(arg, rdf_subclassing=False)
        else:
            writer = RDFWriter(arg, rdf_subclassing=False, custom_subclasses=custom)
        if not linked:
            for via in w.get("hist") or ():
                C20.export(writer, via)
        return writer

    @staticmethod
    def export(writer, via):
        """one export of the writer, read back into a graph where it is a text / a file"""
        import rdflib
        if via in ("turtle", "nt", "n3", "xml", "json-ld"):
            text = writer.get_rdf_str(via)
            if isinstance(text, bytes):
                text = text.decode("utf-8")
            graph = rdflib.Graph()
            graph.parse(data=text, format=via)
            return graph
        if via == "str":
            graph = rdflib.Graph()
            graph.parse(data=str(writer), format="turtle")
            return graph
        if via == "file":
            tmp = tempfile.mkdtemp(prefix="c20_")
            try:
                writer.write_file(os.path.join(tmp, "export"), "turtle")
                graph = rdflib.Graph()
                for name in sorted(os.listdir(tmp)):        # the writer appends the extension of the format
                    graph.parse(os.path.join(tmp, name), format="turtle")
                return graph
            finally:
                shutil.rmtree(tmp, ignore_errors=True)
        return writer.convert_to_rdf()

    @classmethod
    def make_graph(cls, docs, specs, via="graph", linked=False, wspec=None, edits=None):
        """the RDF export of the set: the graph the writer hands out, the graph of a writer that is asked
        twice, or the exported text (turtle, RDF/XML, n3) read back.
        (A writer asked twice keeps the triples of its first conversion; with linked Sections every
        conversion resolves the links anew, under new ids, so that graph describes objects the documents no
        longer have. What the export contains is property C10's business: no second conversion there.)"""
        import rdflib
        writer = cls.build_writer(docs, wspec, linked)
        if via in ("turtle", "n3", "str", "file") and not turtle_safe([specs, edits]):
            via = "file_nt" if via == "file" else "nt"
        if edits:
            # one writer, two conversions, the documents edited in between: the second export is the export
            # of the documents as they are now
            writer.convert_to_rdf()
            cls.apply_edits(docs, edits)
        if via == "twice" and not linked:
            writer.convert_to_rdf()
            return writer.convert_to_rdf()
        if via in ("turtle", "n3", "nt", "json-ld") or (via == "xml" and xml_safe(specs)):
            text = writer.get_rdf_str(via)
            if isinstance(text, bytes):
                text = text.decode("utf-8")
            graph = rdflib.Graph()
            graph.parse(data=text, format=via)
            return graph
        if via == "str":
            graph = rdflib.Graph()
            graph.parse(data=str(writer), format="turtle")
            return graph
        if via in ("file", "file_xml", "file_nt"):
            fmt = {"file": "turtle", "file_nt": "nt",
                   "file_xml": "xml" if xml_safe(specs) else "turtle" if turtle_safe([specs, edits]) else "nt"}[via]
            tmp = tempfile.mkdtemp(prefix="c20_")
            try:
                writer.write_file(os.path.join(tmp, "export"), fmt)
                graph = rdflib.Graph()
                for name in sorted(os.listdir(tmp)):        # the writer appends the extension of the format
                    graph.parse(os.path.join(tmp, name), format=fmt)
                return graph
            finally:
                shutil.rmtree(tmp, ignore_errors=True)
        return writer.convert_to_rdf()

    @staticmethod
    def call_find(mode, graph, gpass="kw", q_str=None, q_params=None, finder=None):
        """-> (finder, text); the graph is handed over as keyword, positionally or to the constructor"""
        from odml.rdf.fuzzy_finder import FuzzyFinder
        if finder is not None:
            return finder, finder.find(mode=mode, graph=graph, q_str=q_str, q_params=q_params)
        if gpass == "nomode" and mode == "fuzzy":
            # fuzzy is the documented default of `mode`
            ff = FuzzyFinder()
            return ff, ff.find(graph=graph, q_str=q_str, q_params=q_params)
        if gpass == "ctor":
            ff = FuzzyFinder(graph=graph)
            return ff, ff.find(mode=mode, q_str=q_str, q_params=q_params)
        ff = FuzzyFinder()
        if gpass == "pos":
            return ff, ff.find(mode, graph, q_str, q_params)
        return ff, ff.find(mode=mode, graph=graph, q_str=q_str, q_params=q_params)

    @staticmethod
    def blocks_of(text):
        return [[q, sorted(row_key(r) for r in rows)] for q, rows in parse_output(text)]

    @staticmethod
    def executed_of(ff):
        """which combination does a block belong to (opportunistic use of the finder's own list)"""
        from odml.rdf.fuzzy_finder import FuzzyFinder
        try:
            executed = []
            for sub in ff._subsets:
                creator = FuzzyFinder._prepare_query(sub)
                creator._prepare_query()
                executed.append([[{"k": a[0], "a": a[1][0], "v": "" if isinstance(a[1][1], (list, tuple)) else u"%s" % (a[1][1],),
                                   "vs": [u"%s" % x for x in a[1][1]] if isinstance(a[1][1], (list, tuple)) else []}
                                  for a in sub], creator.query])
            return executed
        except Exception:
            return None

    def query_of(self, case, docs):
        """-> (mode, pairs, parameter dictionary as plain data, string form, string form usable)"""
        opts = case.get("opts")
        mode = case.get("mode") or case["stream"]
        if mode == "fuzzy":
            pairs = [{"k": k, "a": a, "v": v, "vs": []} for k in KEYS if k in case["attrs"]
                     for a in case["attrs"][k] for v in case["search"]]
            plain = dict((k, list(v)) for k, v in case["attrs"].items())
            plain["Search"] = list(case["search"])
            q_str = render_fuzzy(case["attrs"], case["search"], opts)
            str_ok = all(not re.search(r"[,():\"]", v) and v == v.strip() and v for v in case["search"])
            return mode, pairs, plain, q_str, str_ok
        pairs = self.resolve_pairs(case, docs)
        return "match", pairs, None, render_match(pairs, opts), string_safe(pairs, case.get("stream") == "sets")

    def params_of(self, mode, pairs, plain, opts):
        """a new parameter dictionary (new outer and inner objects) for the query"""
        return shape_params(plain, "fuzzy", opts) if mode == "fuzzy" else to_params(pairs, opts)

    def impl_find(self, case):
        import warnings
        from odml.rdf.fuzzy_finder import FuzzyFinder
        warnings.simplefilter("ignore")
        opts = case.get("opts") or {}
        docs = self.build_set(case["docs"], case.get("post"))
        snap = [c10.snap_doc(d) for d in docs]
        graph = self.make_graph(docs, case["docs"], opts.get("via", "graph"),
                                linked=any(op["op"] == "link" for op in case.get("post") or ()),
                                wspec=opts.get("writer"), edits=case.get("edits"))
        obs = {"docs": snap}
        mode, pairs, plain, q_str, str_ok = self.query_of(case, docs)
        params = self.params_of(mode, pairs, plain, opts)
        obs["pairs"] = pairs
        obs["mode"] = mode
        use_str = case["how"] == "str" and str_ok
        obs["used"] = "str" if use_str else "dict"
        try:
            if use_str:
                ff, text = self.call_find(mode, graph, opts.get("gpass", "kw"), q_str=q_str)
            else:
                ff, text = self.call_find(mode, graph, opts.get("gpass", "kw"), q_params=params)
            obs["blocks"] = self.blocks_of(text)
        except Exception as exc:
            obs["raised"] = fw.exc_name(exc)
            return obs
        obs["executed"] = self.executed_of(ff)
        # the other way of passing the same parameters must give the same answer
        if str_ok:
            try:
                other = FuzzyFinder().find(mode=mode, graph=graph, q_params=self.params_of(mode, pairs, plain, opts)) \
                    if use_str else FuzzyFinder().find(mode=mode, graph=graph, q_str=q_str)
                obs["other_blocks"] = self.blocks_of(other)
            except Exception as exc:
                obs["other_raised"] = fw.exc_name(exc)
        if mode == "fuzzy":
            try:
                text2 = FuzzyFinder().find(mode="match", graph=graph, q_params=to_params(pairs))
                obs["as_match_blocks"] = self.blocks_of(text2)
            except Exception as exc:
                obs["as_match_raised"] = fw.exc_name(exc)
        obs["expected"] = self.expected(docs, pairs)
        return obs

    def impl_reuse(self, case):
        """several searches with the objects of one caller; every search is observed on its own"""
        import warnings
        from odml.rdf.fuzzy_finder import FuzzyFinder
        from odml.tools.rdf_converter import RDFWriter
        warnings.simplefilter("ignore")
        opts = case.get("opts") or {}
        docsets = [self.build_set(specs) for specs in case["sets"]]
        writers = case.get("writers") or [None] * len(docsets)
        graphs = [self.build_writer(ds, w).convert_to_rdf() for ds, w in zip(docsets, writers)]
        mode, pairs, plain, q_str, str_ok = self.query_of(case, docsets[0])
        shared = self.params_of(mode, pairs, plain, opts)       # the dictionary the caller keeps
        obs = {"sets": [[c10.snap_doc(d) for d in ds] for ds in docsets], "pairs": pairs, "steps": []}
        expected = [self.expected(ds, pairs) for ds in docsets]
        kept = {"finder": None, "first": None}
        for step in case["steps"]:
            gi = step["g"] % len(graphs)
            graph = graphs[gi]
            o = {"g": gi}
            how = step["params"]
            if how == "str" and not str_ok:
                how = "copy"
            if how == "same":
                obj = shared
            elif how == "inner":
                obj = dict(shared)            # another dictionary, the same collections inside
            else:
                obj = self.params_of(mode, pairs, plain, opts)
            kw = {"q_str": q_str} if how == "str" else {"q_params": obj}
            o["params"] = how
            if step["finder"] == "same":
                if kept["finder"] is None:
                    kept["finder"], kept["first"] = FuzzyFinder(), gi
                ff = kept["finder"]
            elif step["finder"] == "ctor":
                ff = FuzzyFinder(graph=graph)
            else:
                ff = FuzzyFinder()
            o["finder"] = step["finder"]
            # a call that is refused (unknown mode; string and dictionary at once; neither of them) before
            try:
                if step.get("pre") == "mode":
                    ff.find(mode="exact", graph=graph, **kw)
                elif step.get("pre") == "both":
                    ff.find(mode=mode, graph=graph, q_str=q_str or "x", q_params=obj)
                elif step.get("pre") == "neither":
                    ff.find(mode=mode, graph=graph)
                elif step.get("pre") == "other" and mode == "match":
                    ff.find(mode="fuzzy", graph=graph, q_params={"Doc": ["author"], "Sec": ["name", "type"],
                                                                   "Search": ["a", "me"]})
                elif step.get("pre") == "other":
                    ff.find(mode="match", graph=graph, q_str="doc(author:me) sec(name:a) prop(name:b)")
            except Exception:
                pass
            try:
                if step["finder"] == "ctor":
                    text = ff.find(mode=mode, **kw)
                else:
                    text = ff.find(mode=mode, graph=graph, **kw)
                o["blocks"] = self.blocks_of(text)
                o["executed"] = self.executed_of(ff)
            except Exception as exc:
                o["raised"] = fw.exc_name(exc)
            o["expected"] = expected[gi]
            obs["steps"].append(o)
        return obs

    @staticmethod
    def change_in_place(d, new, tech, keep_empty=False):
        """The caller makes the dictionary `d` say what the new dictionary `new` says; `d` stays the object it
        is. deep: the lists inside are changed where they are (a pair that is a list gets its new text, the
        list of searched values of a value pair its new members, the list of pairs / names / terms its new
        items); rebind: the keys are bound to the new collections; clear: emptied and filled again. A kind
        that is not asked about any more goes away or stays with nothing in it."""
        if tech == "clear":
            d.clear()
            d.update(new)
            return
        for k in [k for k in d if k not in new]:
            if keep_empty and isinstance(d[k], list) and k != "Search":
                del d[k][:]
            elif keep_empty and k != "Search":
                d[k] = ()
            else:
                del d[k]
        for k, v in new.items():
            old = d.get(k)
            if tech != "deep" or not isinstance(old, list):
                d[k] = v
                continue
            items = []
            for j, item in enumerate(v):
                mine = old[j] if j < len(old) else None
                if isinstance(mine, (list, tuple)) and isinstance(item, (list, tuple)) and mine[0] == item[0]:
                    if isinstance(mine[1], list) and isinstance(item[1], (list, tuple)):
                        mine[1][:] = list(item[1])          # the list of searched values, where it is
                        items.append(mine)
                        continue
                    if isinstance(mine, list):
                        mine[1] = item[1]                   # the pair, where it is
                        items.append(mine)
                        continue
                items.append(item)
            old[:] = items

    def content_of(self, case, step, docs):
        """what the dictionary has to say at a step -> (mode, pairs, plain fuzzy dictionary, string, string usable)"""
        sub = dict(case, **dict((k, step[k]) for k in ("pairs", "attrs", "search") if k in step))
        return self.query_of(sub, docs)

    def impl_pedit(self, case):
        """searches of one caller who changes the dictionary (and the graph) it keeps in between; every search
        is observed on its own and judged against what the dictionary says and the graph holds at that moment"""
        import warnings
        from odml.rdf.fuzzy_finder import FuzzyFinder
        from odml.tools.rdf_converter import RDFWriter
        warnings.simplefilter("ignore")
        opts = case.get("opts") or {}
        docsets = [self.build_set(specs) for specs in case["sets"]]
        writers = case.get("writers") or [None] * len(docsets)
        graphs = [self.build_writer(ds, w).convert_to_rdf() for ds, w in zip(docsets, writers)]
        held = [[i] for i in range(len(docsets))]          # the document sets a graph holds the export of
        snaps = [[c10.snap_doc(d) for d in ds] for ds in docsets]
        obs = {"steps": []}
        shared = None
        kept = {"finder": None, "g": None}
        for step in case["steps"]:
            gi = step["g"] % len(graphs)
            if step.get("gadd") is not None and step["gadd"] % len(graphs) != gi:
                oj = step["gadd"] % len(graphs)
                for triple in RDFWriter(docsets[oj], rdf_subclassing=False).convert_to_rdf():
                    graphs[gi].add(triple)
                if oj not in held[gi]:
                    held[gi].append(oj)
            mode, pairs, plain, q_str, str_ok = self.content_of(case, step, docsets[0])
            new = self.params_of(mode, pairs, plain, opts)
            if shared is None:
                shared = new
            else:
                self.change_in_place(shared, new, step.get("tech", "deep"), step.get("keep_empty"))
            how = step.get("pass", "same")
            if how == "str" and not str_ok:
                how = "copy"
            obj = shared if how == "same" else dict(shared) if how == "inner" else self.params_of(mode, pairs, plain, opts)
            kw = {"q_str": q_str} if how == "str" else {"q_params": obj}
            if step["finder"] == "same":
                if kept["finder"] is None:
                    kept["finder"] = FuzzyFinder()
                ff = kept["finder"]
            elif step["finder"] == "ctor":
                ff = FuzzyFinder(graph=graphs[gi])
            else:
                ff = FuzzyFinder()
            # the graph: passed, set on the finder, or left out - then it is the graph of the finder's
            # previous call (only a finder that has been given one can be asked that way)
            gpass = step.get("graph", "pass")
            if step["finder"] == "ctor":
                gkw = {}
            elif gpass == "omit" and step["finder"] == "same" and kept["g"] is not None:
                gi = kept["g"]
                gkw = {}
            elif gpass == "attr":
                ff.graph = graphs[gi]
                gkw = {}
            else:
                gkw = {"graph": graphs[gi]}
            if step["finder"] == "same":
                kept["g"] = gi
            o = {"g": gi, "pass": how, "finder": step["finder"], "pairs": pairs, "mode": mode,
                 "docs": [s for j in held[gi] for s in snaps[j]]}
            try:
                pre = step.get("pre")
                if pre == "mode":
                    ff.find(mode="exact", **dict(kw, **gkw))
                elif pre == "both":
                    ff.find(mode=mode, q_str=q_str or "x", q_params=obj, **gkw)
                elif pre == "neither":
                    ff.find(mode=mode, **gkw)
                elif pre == "failed":
                    # a call that fails while its queries are built (a pair with three members)
                    ff.find(mode="match", q_params={"Sec": [("name", "a", "b"), ("type", "t1")]}, **gkw)
                elif pre == "other" and mode == "match":
                    ff.find(mode="fuzzy", q_params={"Doc": ["author"], "Sec": ["name", "type"], "Search": ["a", "me"]}, **gkw)
                elif pre == "other":
                    ff.find(mode="match", q_str="doc(author:me) sec(name:a) prop(name:b)", **gkw)
            except Exception:
                pass
            try:
                text = ff.find(mode=mode, **dict(kw, **gkw))
                o["blocks"] = self.blocks_of(text)
                o["executed"] = self.executed_of(ff)
            except Exception as exc:
                o["raised"] = fw.exc_name(exc)
            o["expected"] = self.expected([d for j in held[gi] for d in docsets[j]], pairs)
            obs["steps"].append(o)
        return obs

    def impl_whist(self, case):
        """one writer, several exports, the documents edited in between; the export of the moment is searched
        and judged against the documents of that moment"""
        import warnings
        warnings.simplefilter("ignore")
        opts = case.get("opts") or {}
        docs = self.build_set(case["docs"])
        writer = self.build_writer(docs, case.get("writer"))
        obs = {"steps": []}
        safe = turtle_safe(case)
        for step in case["steps"]:
            self.apply_edits(docs, step.get("edits"))
            graph = self.export(writer, step["via"] if safe or not step.get("search") or step["via"] == "graph" else "nt")
            if not step.get("search"):
                continue
            mode, pairs, plain, q_str, str_ok = self.query_of(case, docs)
            o = {"docs": [c10.snap_doc(d) for d in docs], "pairs": pairs, "mode": mode}
            use_str = case.get("how") == "str" and str_ok
            o["used"] = "str" if use_str else "dict"
            try:
                if use_str:
                    ff, text = self.call_find(mode, graph, opts.get("gpass", "kw"), q_str=q_str)
                else:
                    ff, text = self.call_find(mode, graph, opts.get("gpass", "kw"),
                                              q_params=self.params_of(mode, pairs, plain, opts))
                o["blocks"] = self.blocks_of(text)
                o["executed"] = self.executed_of(ff)
            except Exception as exc:
                o["raised"] = fw.exc_name(exc)
            o["expected"] = self.expected(docs, pairs)
            obs["steps"].append(o)
        return obs

    def impl_creator(self, case):
        """QueryCreator.get_query: the query of all pairs at once, run on the exported graph"""
        import warnings
        from odml.rdf.query_creator import QueryCreator, QueryParser
        from odml.tools.rdf_converter import RDFWriter
        warnings.simplefilter("ignore")
        docs = self.build_set(case["docs"])
        graph = self.build_writer(docs, case.get("writer")).convert_to_rdf()
        obs = {"steps": []}
        shared_parser = None
        shared_dict = {}

        def rows_of(prepared):
            rows = []
            for row in graph.query(prepared):
                d = row.asdict()
                rows.append(row_key([d.get("d"), d.get("s"), d.get("p")]))
            return sorted(set(map(tuple, rows)))
        for step in case["steps"]:
            pairs = step["pairs"]
            opts = step.get("opts")
            entry = step["entry"] if string_safe(pairs) else "dict"
            o = {"pairs": pairs, "entry": entry, "parser": step["parser"] if entry == "str" else None}
            try:
                if entry == "dict" and step.get("shared"):
                    shared_dict.clear()
                    shared_dict.update(to_params(pairs, opts))
                    creator = QueryCreator(shared_dict)
                    args = ()
                elif entry == "dict":
                    creator = QueryCreator(to_params(pairs, opts))
                    args = ()
                else:
                    if step["parser"] == "same":
                        if shared_parser is None:
                            shared_parser = QueryParser()
                        parser = shared_parser
                    else:
                        parser = QueryParser()
                    creator = QueryCreator()
                    args = (render_match(pairs, opts), parser)
                o["rows"] = [list(r) for r in rows_of(creator.get_query(*args))]
                if step.get("repeat"):
                    o["again"] = [list(r) for r in rows_of(creator.get_query(*args))]
            except Exception as exc:
                o["raised"] = fw.exc_name(exc)
            o["expected"] = sorted(set(map(tuple, (row_key(r) for r in self.direct(docs, pairs)))))
            o["expected"] = [list(r) for r in o["expected"]]
            obs["steps"].append(o)
        return obs

    # independent evaluation of every non-empty combination on the odML objects
    def expected(self, docs, pairs):
        uniq = []
        for p in sorted(pairs, key=lambda p: (p["k"], p["a"], p["v"], p["vs"])):
            uniq.append(p)
        combos = []
        for r in range(len(uniq), 0, -1):
            for combo in itertools.combinations(range(len(uniq)), r):
                sel = [uniq[i] for i in combo]
                keys = [(p["k"], p["a"]) for p in sel]
                if len(set(keys)) != len(keys):
                    continue          # two values for one attribute of one object: no object can carry both
                combos.append(sel)
        out = []
        for sel in combos:
            out.append({"pairs": sel, "rows": sorted(row_key(r) for r in self.direct(docs, sel))})
        return out

    @staticmethod
    def carries(obj, p):
        if p["a"] == "value":
            vals = [u"%s" % v for v in getattr(obj, "values", [])]
            return all(v in vals for v in p["vs"])
        got = getattr(obj, p["a"], None)
        if got is None:
            return False
        return (u"%s" % got) == p["v"]

    def direct(self, docs, sel):
        dq = [p for p in sel if p["k"] == "Doc"]
        sq = [p for p in sel if p["k"] == "Sec"]
        pq = [p for p in sel if p["k"] == "Prop"]
        node = lambda o: NS + str(o.id)
        all_secs = []          # (parent, section)

        def walk(parent, secs):
            for s in secs:
                all_secs.append((parent, s))
                walk(s, s.sections)
        for d in docs:
            walk(d, d.sections)
        mdocs = [d for d in docs if all(self.carries(d, p) for p in dq)]
        rows = []
        if sq:
            if dq:
                cand = [(d, s) for d in mdocs for s in d.sections]
            else:
                cand = all_secs
            for par, s in cand:
                if not all(self.carries(s, p) for p in sq):
                    continue
                if pq:
                    for pr in s.properties:
                        if all(self.carries(pr, p) for p in pq):
                            rows.append([node(par), node(s), node(pr)])
                else:
                    rows.append([node(par), node(s), None])
        else:
            dcol = [node(d) for d in mdocs] if dq else [None]
            spcol = [[None, None]]
            if pq:
                spcol = [[node(s), node(pr)] for _par, s in all_secs for pr in s.properties
                         if all(self.carries(pr, p) for p in pq)]
            rows = [[d, sp[0], sp[1]] for d in dcol for sp in spcol]
        return rows

    # -- model ---------------------------------------------------------------
    def model_requests(self, case, obs):
        st = case["stream"]
        if st == "bgp":
            return [{"op": "bgp", "triples": obs["triples"], "pats": case["pats"],
                     "filters": case.get("filters") or []}]
        if st == "subsets":
            return [] if "skipped" in obs else [{"op": "subsets", "pairs": case["pairs"]}]
        if st in ("sets", "creator"):
            return []              # oracle only: document sets / an entry point the model is not asked about
        if st == "reuse":
            # the model has no caller objects: every search of the history is one `find` of the model
            return [{"op": "find", "docs": docs, "pairs": obs["pairs"]} for docs in obs["sets"]]
        if st == "pedit":
            # the model is asked about what the caller's dictionary says and the graph holds at the moment of
            # each call (a question that comes again in one history is asked once)
            return [{"op": "find", "docs": docs, "pairs": pairs} for docs, pairs in self.pedit_questions(obs)[0]]
        if st == "whist":
            # ... and no writer object: the export that is searched is the export of the documents as they
            # are at that moment
            return [{"op": "find", "docs": o["docs"], "pairs": o["pairs"]} for o in obs["steps"]]
        reqs = [{"op": "find", "docs": obs["docs"], "pairs": obs["pairs"]}]
        if st == "fuzzy":
            reqs.append({"op": "fuzzy", "doc": case["attrs"].get("Doc", []), "sec": case["attrs"].get("Sec", []),
                         "prop": case["attrs"].get("Prop", []), "search": case["search"]})
        return reqs

    @staticmethod
    def pedit_questions(obs):
        """-> ([(docs, pairs)] without repetitions, [index of the question of every step])"""
        questions, keys, which = [], [], []
        for o in obs["steps"]:
            k = fw.canon([o["docs"], o["pairs"]])
            if k not in keys:
                keys.append(k)
                questions.append((o["docs"], o["pairs"]))
            which.append(keys.index(k))
        return questions, which

    @staticmethod
    def mrow(r):
        return [None if x is None else x[1] for x in r]

    @staticmethod
    def pkey(pairs):
        return sorted((p["k"], p["a"], p["v"], tuple(p.get("vs", []))) for p in pairs)

    def compare(self, case, obs, answers):
        st = case["stream"]
        out = []
        if st == "bgp":
            m = sorted(fw.canon(r) for r in answers[0])
            if m != obs["rows"]:
                out.append("evalBGP gives %s, rdflib gives %s" % (m[:4], obs["rows"][:4]))
            return out
        if st == "subsets":
            if answers and [self.pkey(s) for s in answers[0]] != [self.pkey(s) for s in obs["subsets"]]:
                out.append("combinations differ: model %s, implementation %s"
                           % ([self.pkey(s) for s in answers[0]][:4], [self.pkey(s) for s in obs["subsets"]][:4]))
            return out
        if st in ("sets", "creator"):
            return out
        if st == "reuse":
            for i, o in enumerate(obs["steps"]):
                out += ["step %d: %s" % (i, d) for d in self.compare_find(answers[o["g"]], o)]
            return out
        if st == "pedit":
            which = self.pedit_questions(obs)[1]
            for i, o in enumerate(obs["steps"]):
                out += ["search %d: %s" % (i, d) for d in self.compare_find(answers[which[i]], o)]
            return out
        if st == "whist":
            for i, o in enumerate(obs["steps"]):
                out += ["search %d: %s" % (i, d) for d in self.compare_find(answers[i], o)]
            return out
        out = self.compare_find(answers[0], obs)
        if st == "fuzzy" and len(answers) > 1 and "raised" not in obs and answers[0]["found"] != "parse-error":
            f = answers[1]
            if self.pkey(f["pairs"]) != self.pkey(obs["pairs"]) or self.pkey(f["as_match"]) != self.pkey(obs["pairs"]):
                out.append("fuzzy pairs differ: model %s, implementation %s" % (self.pkey(f["pairs"]), self.pkey(obs["pairs"])))
        return out

    def compare_find(self, ans, obs):
        """one search of the implementation (blocks, executed) against one `find` of the model"""
        out = []
        if "raised" in obs:
            if ans["found"] != "parse-error":
                out.append("implementation raised %s, model finds %d blocks" % (obs["raised"], len(ans["found"])))
            return out
        if ans["found"] == "parse-error":
            return ["model: query text is refused, implementation returned"]
        if obs.get("executed") is not None:
            mk = [self.pkey(e["q"]) for e in ans["all"]]
            ik = [self.pkey(e[0]) for e in obs["executed"]]
            if [len(k) for k in mk] != [len(k) for k in ik] or sorted(mk) != sorted(ik):
                out.append("executed combinations differ: model %s, implementation %s" % (mk[:5], ik[:5]))
            text_of = dict((fw.canon(self.pkey(e[0])), e[1]) for e in obs["executed"])
            blocks = dict((q, rows) for q, rows in obs["blocks"])
            for e in ans["all"]:
                text = text_of.get(fw.canon(self.pkey(e["q"])))
                if text is None:
                    continue
                irows = blocks.get(text, [])
                mrows = sorted(row_key(self.mrow(r)) for r in e["rows"])
                mrows = sorted(set(map(tuple, mrows)))
                if [list(r) for r in mrows] != [list(r) for r in sorted(set(map(tuple, irows)))]:
                    out.append("rows of %s differ: model %s, implementation %s" % (self.pkey(e["q"]), mrows[:3], irows[:3]))
            inside = ans.get("wf") and ans.get("repr") and ans.get("norepo")
            for e in ans["all"]:
                if inside and e.get("safe") and e["rows"] != "parse-error" and e.get("direct") is not None:
                    a = sorted(set(fw.canon(x) for x in e["rows"]))
                    b = sorted(set(fw.canon(x) for x in e["direct"]))
                    if a != b:
                        out.append("inside the hypotheses of query_sound_complete the model's query rows %s differ "
                                   "from its direct evaluation %s" % (a[:3], b[:3]))
            # Round 5 - the specification of C20.query_sound_complete_full / match_search_reports_exact /
            # fuzzy_search_reports_exact tied to the implementation: inside their hypotheses (well-formed,
            # representable documents, RepoOK; every pair of the combination asks for a searchable attribute,
            # id / value / repository included: QueryFull) the rows the library reports for a combination
            # are the rows of directEval', and so are the model's queryRows.
            inside2 = ans.get("wf") and ans.get("repr") and ans.get("repook")
            for e in ans["all"]:
                if not (inside2 and e.get("full") and e["rows"] != "parse-error" and e.get("direct2") is not None):
                    continue
                spec = sorted(set(fw.canon(x) for x in e["direct2"]))
                if sorted(set(fw.canon(x) for x in e["rows"])) != spec:
                    out.append("inside the hypotheses of query_sound_complete_full the model's query rows of %s "
                               "differ from directEval' %s" % (self.pkey(e["q"]), spec[:3]))
                text = text_of.get(fw.canon(self.pkey(e["q"])))
                if text is None:
                    continue
                irows = sorted(set(map(tuple, blocks.get(text, []))))
                srows = sorted(set(tuple(row_key(self.mrow(r))) for r in e["direct2"]))
                if [list(r) for r in irows] != [list(r) for r in srows]:
                    out.append("inside the hypotheses of query_sound_complete_full the rows the library reports for "
                               "%s differ from directEval': library %s, specification %s"
                               % (self.pkey(e["q"]), irows[:3], srows[:3]))
            if len(ans["found"]) != len(obs["blocks"]):
                out.append("model reports %d combinations with hits, implementation %d"
                           % (len(ans["found"]), len(obs["blocks"])))
        return out

    # -- oracle --------------------------------------------------------------
    MODEL_NAMES = {"Doc": ["id", "author", "date", "version", "repository", "sections"],
                   "Sec": ["id", "name", "definition", "type", "repository", "reference", "sections", "properties"],
                   "Prop": ["id", "name", "definition", "dtype", "unit", "uncertainty", "reference", "value",
                            "value_origin"]}

    def oracle(self, case, obs):
        if "harness_exception" in obs or case["stream"] in ("bgp", "subsets"):
            return []
        if case["stream"] == "reuse":
            # Every search of a history is judged on its own, against what the caller wrote into the
            # parameters. (Weaker reading: that the library leaves the caller's dictionary untouched is not
            # demanded as such - only that a later search with it still reports what its contents ask for.)
            out = []
            for i, o in enumerate(obs["steps"]):
                out += ["step %d: %s" % (i, f) for f in self.judge(obs["pairs"], o)]
            return out
        if case["stream"] in ("whist", "pedit"):
            # (pedit: every search is judged against the pairs the dictionary holds when it is called)
            out = []
            for i, o in enumerate(obs["steps"]):
                out += ["search %d: %s" % (i, f) for f in self.judge(o["pairs"], o)]
            return out
        if case["stream"] == "creator":
            return self.oracle_creator(case, obs)
        if "raised" in obs:
            return self.judge(obs["pairs"], obs)
        out = []
        if "other_raised" in obs:
            out.append("string/dictionary form raised %s" % obs["other_raised"])
        elif "other_blocks" in obs and obs["other_blocks"] != obs["blocks"]:
            out.append("string and dictionary form of the query give different answers")
        if "as_match_raised" in obs:
            out.append("match search on the fuzzy pairs raised %s" % obs["as_match_raised"])
        elif "as_match_blocks" in obs and obs["as_match_blocks"] != obs["blocks"]:
            out.append("fuzzy search differs from the match search on the attribute=term pairs")
        return out + self.judge(obs["pairs"], obs)

    def judge(self, pairs, obs):
        """one search: never fails for names of the RDF model; every non-empty combination, most specific
        first, hit-less omitted, exactly the rows of the independent evaluation"""
        out = []
        in_model = all(p["a"] in self.MODEL_NAMES[p["k"]] for p in pairs)
        if "raised" in obs:
            if in_model:
                out.append("find raised %s for attribute names of the RDF model: %s" % (obs["raised"], self.pkey(pairs)))
            return out
        want = [e for e in obs["expected"] if e["rows"]]
        got = obs["blocks"]
        if any(not rows for _q, rows in got):
            out.append("a combination without a hit is reported")
        want_rows = sorted(fw.canon(sorted(set(map(tuple, e["rows"])))) for e in want)
        got_rows = sorted(fw.canon(sorted(set(map(tuple, rows)))) for _q, rows in got)
        if obs.get("executed") is not None:
            text_of = dict((fw.canon(self.pkey(e[0])), e[1]) for e in obs["executed"])
            blocks = dict((q, rows) for q, rows in got)
            sizes = []
            for e in obs["expected"]:
                text = text_of.get(fw.canon(self.pkey(e["pairs"])))
                rows = blocks.get(text, []) if text is not None else []
                a = sorted(set(map(tuple, e["rows"])))
                b = sorted(set(map(tuple, rows)))
                if a != b:
                    missing = [r for r in a if r not in b]
                    extra = [r for r in b if r not in a]
                    out.append("combination %s: missing %d rows, %d rows that do not carry the values"
                               % (fw.canon(self.pkey(e["pairs"])), len(missing), len(extra)))
            # a reported block has to belong to a combination of the given pairs
            asked = set(fw.canon(self.pkey(e["pairs"])) for e in obs["expected"])
            texts = dict((e[1], fw.canon(self.pkey(e[0]))) for e in obs["executed"])
            for q, rows in got:
                if rows and texts.get(q) not in asked:
                    out.append("a block is reported that belongs to no combination of the given pairs")
                    break
            # ... and is reported once per combination (the same pair given twice makes two combinations)
            wanted = [fw.canon(self.pkey(e["pairs"])) for e in obs["expected"]]
            for q in set(q for q, _rows in got):
                if texts.get(q) in asked and [g[0] for g in got].count(q) > wanted.count(texts[q]):
                    out.append("a combination is reported more than once")
                    break
            pos = dict((q, i) for i, (q, _r) in enumerate(got))
            order = []
            for e in obs["executed"]:
                if e[1] in pos:
                    order.append((pos[e[1]], len(e[0])))
            sizes = [n for _i, n in sorted(order)]
            if sizes != sorted(sizes, reverse=True):
                out.append("combinations are not reported most specific first: sizes %s" % sizes)
        elif want_rows != got_rows:
            out.append("reported row sets differ from the independent evaluation (%d vs %d combinations with hits)"
                       % (len(got_rows), len(want_rows)))
        return out

    def oracle_creator(self, case, obs):
        out = []
        for i, o in enumerate(obs["steps"]):
            in_model = all(p["a"] in self.MODEL_NAMES[p["k"]] for p in o["pairs"])
            if "raised" in o:
                if in_model:
                    out.append("query %d: get_query raised %s for attribute names of the RDF model: %s"
                               % (i, o["raised"], self.pkey(o["pairs"])))
                continue
            a = sorted(map(tuple, o["expected"]))
            b = sorted(map(tuple, o["rows"]))
            if a != b:
                out.append("query %d (%s): missing %d rows, %d rows that do not carry the values"
                           % (i, o["entry"], len([r for r in a if r not in b]), len([r for r in b if r not in a])))
            # Asking the same creator for the same query again gives the same query. (Weaker reading: what
            # a creator that already holds parameters does with *another* string is not demanded.)
            if "again" in o and o["again"] != o["rows"]:
                out.append("query %d: the same creator asked again for the same query gives other rows" % i)
        return out

    def finding_key(self, case, obs, failure):
        # No open finding. The repaired ones have no branch, so a regression is a VIOLATION:
        # finder_keeps_first_graph, empty_graph_refused, parser_keeps_earlier_kinds, string_form_line_feed
        # (work-fixC20), codepoint_escape_in_value (6c1fc7c), the three queries that needed another shape:
        # typed_literal_never_matches (eb38590), value_query_bag_vs_seq (573e2b8), id_repository_never_match
        # (57076b7), and value_list_swallows_bracket (ae1f0aa, work-fixC20c).
        return None

    @staticmethod
    def escape_key(case, obs, failure):
        """codepoint_escape_in_value, narrowly: only a failure of a search / a combination / a query that
        asks for a value with a SPARQL code point escape (backslash, u or U, hex digits) in it - the search
        raised, or its rows are not those of the value that was given"""
        import json
        has = lambda pairs: any(ESCAPE_RE.search(p["v"] if isinstance(p, dict) else p[2]) for p in pairs)
        try:
            if case.get("stream") == "sets":
                if failure.startswith("find raised "):
                    return "codepoint_escape_in_value" if has(obs.get("pairs") or []) else None
                m = re.match(r"combination (.*): missing (\d+) rows, (\d+) rows that do not carry the values$",
                             failure, re.S)
                if m and has(json.loads(m.group(1))):
                    return "codepoint_escape_in_value"
                return None
            m = re.match(r"query (\d+)( \(\w+\))?: (get_query raised |missing \d+ rows, )", failure)
            if m and has(obs["steps"][int(m.group(1))]["pairs"]):
                return "codepoint_escape_in_value"
        except Exception:
            pass
        return None

    def tag(self, case, obs):
        st = case["stream"]
        if st in ("bgp", "subsets"):
            return (st, bool(obs.get("rows") or obs.get("subsets")))
        if st == "reuse":
            hit = any(o.get("blocks") for o in obs.get("steps", []))
            return ("reuse:%s:%s" % (case.get("mode"), "hit" if hit else "miss"), hit)
        if st in ("whist", "pedit"):
            hit = any(o.get("blocks") for o in obs.get("steps", []))
            return ("%s:%s:%s" % (st, case.get("mode"), "hit" if hit else "miss"), hit)
        if st == "creator":
            hit = any(o.get("rows") for o in obs.get("steps", []))
            return ("creator:%s" % ("hit" if hit else "miss"), hit)
        hit = bool(obs.get("blocks"))
        if st == "sets":
            return ("sets:%s:%s" % (case.get("kind"), "hit" if hit else "miss"), hit)
        return ("%s:%s:%s" % (st, obs.get("used"), "hit" if hit else "miss"), hit)


if __name__ == "__main__":
    sys.exit(fw.main(C20(), sys.argv[1:]))
