# -*- coding: utf-8 -*-
"""
C17 - Batch conversion tools never touch their inputs and isolate bad files.

Tie between lean/OdmlModel/Model/Batch.lean and the repository.  Every case builds a directory
tree in a private temporary directory (outside the repository and /verif, removed afterwards)
from the ten file kinds of the property, runs odmlconvert / odmltordf (their `main` with an argv
list) or FormatConverter.convert_dir / convert in-process, hashes the inputs before and after
and inspects everything that appeared.  What converting one file *alone* does (nothing / which
outputs with which content) is observed by running the same tool on a directory holding only
that file; these per-file behaviours are handed to the compiled model, which replays the loop
(try/except structure, output naming, directory mapping) over the whole list; the two resulting
file systems must agree.  The oracle restates the property over the observation alone.
"""
import hashlib
import io
import json
import os
import pathlib
import shutil
import subprocess
import sys
import tempfile

import framework as fw

# ----------------------------------------------------------------------------- file kinds
V10_XML = u"""<?xml version="1.0" encoding="UTF-8"?>
<odML version="1">
  <date>2008-07-07</date>
  <section>
    <name>sec_%(tag)s</name>
    <type>mainsec</type>
    <property>
      <name>prop_%(tag)s</name>
      <value>1<type>int</type></value>
    </property>
  </section>
  <author>author_%(tag)s</author>
</odML>
"""
V10_JSON = u"""{"Document": {"version": "v1.13", "author": "author_%(tag)s", "sections": [
 {"name": "sec_%(tag)s", "type": "mainsec", "properties": [
   {"name": "prop_%(tag)s", "values": [{"value": "1", "dtype": "int"}]}]}]},
 "odml-version": "1"}
"""
V10_YAML = u"""Document:
  version: v1.13
  author: author_%(tag)s
  sections:
  - name: sec_%(tag)s
    type: mainsec
    properties:
    - name: prop_%(tag)s
      values:
      - dtype: int
        value: '1'
odml-version: '1'
"""
V10_XML_WIDE = V10_XML.replace(u"<value>1<type>int</type></value>",
                               u"<value>\u00e9\u20ac\u4e2d<type>string</type></value>") \
                      .replace(u"author_%(tag)s", u"Ren\u00e9 \u20ac %(tag)s")
OTHER_XML = u"""<?xml version="1.0"?>\n<html><body><p>%(tag)s</p></body></html>\n"""
MALFORMED = u"""<?xml version="1.0"?>\n<odML version="1"><section><name>%(tag)s</name>\n"""
TEXT = u"just some text %(tag)s\n"
# texts that are not odML and fail in different places of the different parsers (plain words, text
# that starts like YAML / JSON / XML and breaks later, flow syntax left open, tabs, directives)
TEXTS = [TEXT, u"note: measured on day one: see the lab book %(tag)s\n", u"{\"Document\": {\"author\": \"%(tag)s\",\n",
         u"- a\n b: c %(tag)s\n", u"key: [unclosed %(tag)s\n", u"\tindented: %(tag)s\n", u"%%YAML 9.9\n--- %(tag)s\n",
         u"Document:\n  author: %(tag)s\n odml-version: '1.1'\n", u"<odML %(tag)s\n", u"[1, 2, {%(tag)s\n",
         u"a: b\na: *nowhere %(tag)s\n", u"\"%(tag)s\n", u"? %(tag)s\n: - :\n", u"null\n", u"42\n", u"[]\n"]

KIND_EXT = {"xml10w": ".xml", "xml11w": ".xml", "xml10": ".xml", "json10": ".json", "yaml10": ".yaml", "xml11": ".xml", "odml11": ".odml",
            "json11": ".json", "yaml11": ".yaml", "empty": ".xml", "empty_json": ".json",
            "empty_yaml": ".yaml", "text": ".xml", "text_json": ".json", "text_yaml": ".yaml",
            "text_odml": ".odml", "malformed": ".xml", "othervocab": ".xml"}
CLI_KINDS = sorted(KIND_EXT)
FC_GOOD = {"v1_1": ["xml10", "xml11", "xml10w"], "other": ["xml11", "odml11", "xml11w"]}
FC_BAD = ["empty", "text", "malformed", "json11"]
FC_FORMATS = ["v1_1", "odml", "turtle", "xml", "nt", "n3", "json-ld", "pretty-xml", "ttl"]
DIR_NAMES = ["in", "in+dir(1)", "in[1]", "c++", "in.d", "a b", "in$", "x{2}", "in|out", "in*x", "in?",
             "^in", "in\\d", "(in)", "data"]
SUB_NAMES = ["sub", "main", "x", "in", "s.1", "a+b"]
RDF_BY_EXT = {".rdf": "xml", ".ttl": "turtle", ".nt": "nt", ".n3": "n3", ".jsonld": "json-ld"}


def content(kind, tag):
    import odml
    from odml.tools.odmlparser import ODMLWriter
    if kind == "xml10":
        return V10_XML % {"tag": tag}
    if kind == "xml10w":
        return V10_XML_WIDE % {"tag": tag}
    if kind == "xml11w":
        doc = odml.Document(author=u"Ren\u00e9 \u20ac " + tag)
        sec = odml.Section(name="sec_" + tag, type="mainsec", parent=doc)
        odml.Property(name="prop_" + tag, values=[u"\u00e9\u20ac\u4e2d"], parent=sec)
        return u'<?xml version="1.0" encoding="UTF-8"?>\n' + ODMLWriter("XML").to_string(doc)
    if kind == "json10":
        return V10_JSON % {"tag": tag}
    if kind == "yaml10":
        return V10_YAML % {"tag": tag}
    if kind in ("xml11", "odml11", "json11", "yaml11"):
        doc = odml.Document(author="author_" + tag)
        sec = odml.Section(name="sec_" + tag, type="mainsec", parent=doc)
        odml.Property(name="prop_" + tag, values=[1], parent=sec)
        if kind in ("xml11", "odml11"):
            return u'<?xml version="1.0" encoding="UTF-8"?>\n' + ODMLWriter("XML").to_string(doc)
        return ODMLWriter("JSON" if kind == "json11" else "YAML").to_string(doc)
    if kind.startswith("empty"):
        return u""
    if kind.startswith("text"):
        return TEXTS[sum(ord(ch) for ch in tag) % len(TEXTS)] % {"tag": tag}
    if kind == "malformed":
        return MALFORMED % {"tag": tag}
    if kind == "othervocab":
        return OTHER_XML % {"tag": tag}
    raise ValueError(kind)


def signature(path):
    """What a produced file holds: names found in the loaded document / parsed graph."""
    ext = os.path.splitext(path)[1]
    try:
        if ext in (".xml", ".odml"):
            import odml
            doc = odml.load(path, "XML", show_warnings=False)
            names = [str(doc.author)]
            for sec in doc.itersections(recursive=True):
                names.append(str(sec.name))
                names += [str(p.name) for p in sec.properties]
            return "DOC:" + ",".join(names)
        if ext in RDF_BY_EXT:
            import rdflib
            graph = rdflib.Graph()
            graph.parse(path, format=RDF_BY_EXT[ext])
            names = sorted(str(o) for _s, p, o in graph
                           if str(p).endswith("hasName") or str(p).endswith("hasAuthor"))
            return "RDF:" + ",".join(names)
        return "OTHER"
    except Exception as exc:
        return "UNREADABLE:" + fw.exc_name(exc)


def hashes(root):
    out = {}
    for cur, _dirs, names in os.walk(root):
        for name in names:
            path = os.path.join(cur, name)
            with io.open(path, "rb") as fh:
                out[os.path.relpath(path, root)] = hashlib.sha1(fh.read()).hexdigest()
    return out


def all_paths(root):
    out = set()
    for cur, dirs, names in os.walk(root):
        for name in dirs:
            out.add(os.path.relpath(os.path.join(cur, name), root) + "/")
        for name in names:
            out.add(os.path.relpath(os.path.join(cur, name), root))
    return out


def run_guarded(fn):
    try:
        fn()
        return "ok"
    except BaseException as exc:         # SystemExit included: the tools call exit()
        return fw.exc_name(exc)


def file_name(spec):
    return "%s%s" % (spec["stem"], KIND_EXT[spec["kind"]])


def write_inputs(in_dir, files):
    for spec in files:
        folder = os.path.join(in_dir, spec["sub"]) if spec["sub"] else in_dir
        if not os.path.isdir(folder):
            os.makedirs(folder)
        with io.open(os.path.join(folder, file_name(spec)), "w", encoding="utf-8") as fh:
            fh.write(content(spec["kind"], spec["tag"]))


def cli_module(tool):
    if tool == "convert":
        from odml.scripts import odml_convert as mod
    else:
        from odml.scripts import odml_to_rdf as mod
    return mod


def canon_out(rel):
    """Path relative to the out root with the two mkdtemp names replaced (by position, not by prefix)."""
    parts = rel.split(os.sep)
    if len(parts) >= 2:
        parts[0] = "OUT"
    if len(parts) >= 3:
        parts[1] = "RDF"
    return "/".join(parts)


_ALONE = {}


def alone_cli(tool, kind):
    """Outputs (canonical path -> signature) of running the tool on a directory holding one file of
    this kind (stem 'STEMX', tag 'TAGX')."""
    key = (tool, kind)
    if key in _ALONE:
        return _ALONE[key]
    base = tempfile.mkdtemp(prefix="c17a_")
    try:
        in_dir = os.path.join(base, "in")
        out_root = os.path.join(base, "o")
        os.makedirs(out_root)
        write_inputs(in_dir, [{"stem": "STEMX", "kind": kind, "tag": "TAGX", "sub": ""}])
        res = run_guarded(lambda: cli_module(tool).main(["-o", out_root, in_dir]))
        outs = {}
        for rel in hashes(out_root):
            outs[canon_out(rel)] = signature(os.path.join(out_root, rel))
        _ALONE[key] = {"result": res, "outs": outs}
    finally:
        shutil.rmtree(base, ignore_errors=True)
    return _ALONE[key]


def alone_fc(fmt, kind):
    key = ("fc", fmt, kind)
    if key in _ALONE:
        return _ALONE[key]
    from odml.tools.converters import FormatConverter
    base = tempfile.mkdtemp(prefix="c17a_")
    try:
        in_dir = os.path.join(base, "in")
        out_dir = os.path.join(base, "o")
        os.makedirs(out_dir)
        write_inputs(in_dir, [{"stem": "STEMX", "kind": kind, "tag": "TAGX", "sub": ""}])
        res = run_guarded(lambda: FormatConverter.convert_dir(in_dir, out_dir, False, fmt))
        outs = {}
        for rel in hashes(out_dir):
            outs[rel] = signature(os.path.join(out_dir, rel))
        _ALONE[key] = {"result": res, "outs": outs}
    finally:
        shutil.rmtree(base, ignore_errors=True)
    return _ALONE[key]


def subst(text, spec):
    return text.replace("STEMX", spec["stem"]).replace("TAGX", spec["tag"])


def locale_child(case):
    """Runs in a child interpreter started with an ASCII locale (see C17.impl_locale)."""
    import locale
    chk = C17()
    subs = []
    for sub in case["cases"]:
        with fw.quiet():
            subs.append(chk.impl(sub))
    return {"encoding": locale.getpreferredencoding(False), "subs": subs}


class C17(fw.Check):
    prop = "C17"
    lean_targets = ["OdmlModel.Props.C17"]
    obligations = ["C17." + t for t in [
        "batch_never_raises_convert", "batch_never_raises_rdf", "batch_outputs_only_in_out_convert",
        "batch_outputs_only_in_out_rdf", "batch_inputs_unchanged_convert", "batch_inputs_unchanged_rdf",
        "batch_isolation_convert", "convertible_file_gets_output", "batch_isolation_rdf",
        "rdf_name_collision", "convert_dir_mapping", "convert_dir_output_under_out", "convert_dir_frame",
        "batch_outputs_only_in_out_convert_dir", "batch_inputs_unchanged_convert_dir",
        "legacy_unmatched_overwrites_input", "legacy_convert_dir_clobbers_inputs",
        "fixed_convert_dir_witness", "legacy_literal_replaces_every_occurrence",
        "batch_isolation_rdf_base_names", "exportable_file_gets_rdf", "implicit_output_location",
        "batch_inputs_unchanged_convert_dir_implicit"]]
    trusted_base = [
        "Lean 4.33.0 kernel; axioms propext, Classical.choice, Quot.sound only (audited per theorem)",
        "hand-written model lean/OdmlModel/Model/Batch.lean, tied to the repository by this correspondence run",
        "Driver/*.lean JSON glue; harness/framework.py, harness/c17.py",
        "tempfile.mkdtemp freshness, os.walk / os.listdir / pathlib.glob enumerating exactly the files present",
        "lxml / json / PyYAML / rdflib for reading the produced files",
    ]
    assumptions = [
        "what converting one file does depends on that file only (path and bytes); includes/terminologies "
        "that need the network are kept out of the inputs",
        "base names (without extension) are unique within a run, as the property says; for odmltordf also "
        "no base name equals another one followed by '_conv' (theorem rdf_name_collision)",
        "the output location is outside the input tree",
    ]
    rule = ("random directory trees from the ten file kinds (several extensions each), 1-6 files, nested "
            "sub-directories, input directory names with regex metacharacters, recursive on/off, explicit / "
            "implicit output directory; both command line tools through main(argv) and FormatConverter "
            "through convert_dir and convert (argparse) for v1_1, odml and seven RDF formats; plus a "
            "differential stream for the path arithmetic (stem, splitext, join, output naming). Non-trivial = "
            "at least one output was produced and at least one file was skipped / refused, or the tree is "
            "nested; distinct = distinct canonical JSON of the case.")

    # -- generation ----------------------------------------------------------
    def files(self, rng, kinds, nmax, nested):
        n = rng.randrange(1, nmax + 1)
        out = []
        for i in range(n):
            sub = ""
            if nested and rng.random() < 0.5:
                sub = "/".join(rng.choice(SUB_NAMES) for _ in range(rng.randrange(1, 3)))
            kind = rng.choice(kinds)
            out.append({"stem": "f%02d_%s" % (i, kind.replace("_", "")), "kind": kind,
                        "tag": "t%d" % rng.randrange(100), "sub": sub})
        rng.shuffle(out)
        return out

    def generate(self, tier, rng):
        cases = []
        ncli = 60 if tier == "quick" else 2500
        for tool in ("convert", "rdf"):
            for _ in range(ncli):
                nested = rng.random() < 0.6
                cases.append({"stream": "cli", "tool": tool, "recursive": rng.random() < 0.7,
                              "explicit_out": rng.random() < 0.6, "in_name": rng.choice(DIR_NAMES),
                              "files": self.files(rng, CLI_KINDS, 6 if tool == "convert" else 4, nested)})
        # every bad kind between two good files, in both creation orders, for both tools
        bad_kinds = [k for k in CLI_KINDS if k.startswith(("empty", "text", "malformed", "othervocab"))]
        for tool in ("convert", "rdf"):
            for bad in bad_kinds:
                ext = KIND_EXT[bad]
                good = {".xml": "xml10", ".odml": "odml11", ".json": "json10", ".yaml": "yaml10"}[ext]
                trio = [{"stem": "g1", "kind": good, "tag": "t1", "sub": ""},
                        {"stem": "bad", "kind": bad, "tag": "t2", "sub": ""},
                        {"stem": "g3", "kind": "xml11" if ext in (".xml", ".odml") else good, "tag": "t3", "sub": ""},
                        {"stem": "g4", "kind": "xml10", "tag": "t4", "sub": ""}]
                for order in (trio, trio[::-1]):
                    cases.append({"stream": "cli", "tool": tool, "recursive": False, "explicit_out": True,
                                  "in_name": "in", "files": list(order)})
        nfc = 200 if tier == "quick" else 9000
        for _ in range(nfc):
            fmt = rng.choice(FC_FORMATS)
            good = FC_GOOD["v1_1" if fmt == "v1_1" else "other"]
            kinds = good * 4 + (FC_BAD if rng.random() < 0.25 else [])
            cases.append({"stream": "fc", "fmt": fmt, "recursive": rng.random() < 0.75,
                          "explicit_out": rng.random() < 0.6, "in_name": rng.choice(DIR_NAMES),
                          "entry": rng.choice(["convert_dir", "convert_dir", "convert"]),
                          "trailing_sep": rng.random() < 0.2,
                          "files": self.files(rng, kinds, 4, True)})
        # the tools in a child interpreter whose locale encoding is ASCII, on files with wide text
        f = lambda stem, kind, tag, sub="": {"stem": stem, "kind": kind, "tag": tag, "sub": sub}
        wide = [f("w1", "xml10w", "t1"), f("w2", "xml11w", "t2", "sub"), f("a3", "json10", "t3"),
                f("bad", "malformed", "t4")]
        subs = [{"stream": "cli", "tool": "convert", "recursive": True, "explicit_out": True, "in_name": "in",
                 "files": wide},
                {"stream": "cli", "tool": "rdf", "recursive": True, "explicit_out": False, "in_name": "in(1)",
                 "files": wide}]
        for fmt, kinds in (("v1_1", ["xml10w", "xml11w"]), ("odml", ["xml11w", "xml11"]),
                           ("turtle", ["xml11w"]), ("xml", ["xml11w", "odml11"]), ("nt", ["xml11w"])):
            subs.append({"stream": "fc", "fmt": fmt, "recursive": True, "explicit_out": fmt != "odml",
                         "in_name": "in+w", "entry": "convert_dir", "trailing_sep": False,
                         "files": [f("w%d" % i, k, "t%d" % i, "sub" if i else "") for i, k in enumerate(kinds)]})
        cases.append({"stream": "locale", "cases": subs})
        npath = 400 if tier == "quick" else 5000
        alpha = ["a", "b", ".", "/", "x", "_conv", ".xml", ".odml", ".ttl", "+", " "]
        for _ in range(npath):
            s = "".join(rng.choice(alpha) for _ in range(rng.randrange(0, 7)))
            t = "".join(rng.choice(alpha) for _ in range(rng.randrange(0, 4)))
            cases.append({"stream": "paths", "a": s, "b": t})
        return cases

    # -- implementation ------------------------------------------------------
    def impl_locale(self, case):
        code = ("import sys, json; sys.path.insert(0, %r); import c17; "
                "print('RESULT' + json.dumps(c17.locale_child(json.loads(sys.stdin.read()))))"
                % os.path.dirname(os.path.abspath(__file__)))
        env = dict(os.environ, PYTHONUTF8="0", PYTHONCOERCECLOCALE="0", LC_ALL="C", LANG="C",
                   ODML_REPO=fw.REPO, PYTHONDONTWRITEBYTECODE="1")
        proc = subprocess.run([sys.executable, "-c", code], input=json.dumps(case).encode("ascii"),
                              env=env, stdout=subprocess.PIPE, stderr=subprocess.PIPE, timeout=900)
        for line in proc.stdout.decode("ascii", "replace").splitlines():
            if line.startswith("RESULT"):
                return json.loads(line[len("RESULT"):])
        raise RuntimeError("child interpreter gave no result: %s" % proc.stderr.decode("ascii", "replace")[-600:])

    def impl(self, case):
        if case["stream"] == "locale":
            return self.impl_locale(case)
        if case["stream"] == "paths":
            a, b = case["a"], case["b"]
            return {"stem": os.path.splitext(os.path.basename(a))[0], "splitext": list(os.path.splitext(a)),
                    "basename": os.path.basename(a), "join": os.path.join(a, b),
                    "dirname": os.path.dirname(a)}
        base = os.path.realpath(tempfile.mkdtemp(prefix="c17_"))
        old_cwd = os.getcwd()
        try:
            if case["stream"] == "cli":
                return self.impl_cli(base, case)
            return self.impl_fc(base, case)
        finally:
            os.chdir(old_cwd)
            shutil.rmtree(base, ignore_errors=True)

    def impl_cli(self, base, case):
        tool = case["tool"]
        in_dir = os.path.join(base, case["in_name"])
        os.makedirs(in_dir)
        write_inputs(in_dir, case["files"])
        out_root = os.path.join(base, "outroot" if case["explicit_out"] else "cwd")
        os.makedirs(out_root)
        os.chdir(out_root)
        argv = (["-r"] if case["recursive"] else []) + \
               (["-o", out_root] if case["explicit_out"] else []) + [in_dir]
        root = pathlib.Path(in_dir)
        glob = root.rglob if case["recursive"] else root.glob
        order = [str(p.absolute()) for pat in ("*.odml", "*.xml", "*.json", "*.yaml") for p in glob(pat)]
        before_hash = hashes(in_dir)
        before_paths = all_paths(base)
        result = run_guarded(lambda: cli_module(tool).main(argv))
        after_hash = hashes(in_dir)
        new = sorted(all_paths(base) - before_paths)
        outputs = {}
        for rel in new:
            if not rel.endswith("/"):
                outputs[rel] = signature(os.path.join(base, rel))
        out_dirs = [p for p in new if p.endswith("/")]
        alone = {}
        for spec in case["files"]:
            alone[file_name(spec)] = alone_cli(tool, spec["kind"])
        return {"base": base, "result": result, "inputs_same": all(after_hash.get(k) == v for k, v in before_hash.items()),
                "changed_inputs": sorted(k for k in before_hash if after_hash.get(k) != before_hash[k]),
                "new": new, "outputs": outputs, "out_dirs": out_dirs, "order": order,
                "out_root": os.path.relpath(out_root, base), "in_rel": case["in_name"], "alone": alone}

    def impl_fc(self, base, case):
        from odml.tools.converters import FormatConverter
        fmt = case["fmt"]
        in_dir = os.path.join(base, case["in_name"])
        os.makedirs(in_dir)
        write_inputs(in_dir, case["files"])
        out_dir = None
        if case["explicit_out"]:
            out_dir = os.path.join(base, "outdir")
            os.makedirs(out_dir)
        in_arg = in_dir + (os.sep if case["trailing_sep"] else "")
        top = os.path.join(in_arg, "")
        if case["recursive"]:
            entries = [[d, n] for d, _s, names in os.walk(top) for n in names]
        else:
            entries = [[top, n] for n in os.listdir(top) if os.path.isfile(os.path.join(top, n))]
        before_hash = hashes(in_dir)
        before_paths = all_paths(base)
        if case["entry"] == "convert":
            argv = [in_arg, fmt] + (["-out", out_dir] if out_dir else []) + (["-r"] if case["recursive"] else [])
            result = run_guarded(lambda: FormatConverter.convert(argv))
        else:
            result = run_guarded(lambda: FormatConverter.convert_dir(in_arg, out_dir, case["recursive"], fmt))
        after_hash = hashes(in_dir)
        new = sorted(all_paths(base) - before_paths)
        outputs = {}
        for rel in new:
            if not rel.endswith("/"):
                outputs[rel] = signature(os.path.join(base, rel))
        alone = {}
        for spec in case["files"]:
            alone[file_name(spec)] = alone_fc(fmt, spec["kind"])
        try:
            from odml.tools.converters.format_converter import CONVERSION_FORMATS
            ext = CONVERSION_FORMATS.get(fmt)
        except ImportError:
            ext = None
        return {"base": base, "result": result, "inputs_same": all(after_hash.get(k) == v for k, v in before_hash.items()),
                "changed_inputs": sorted(k for k in before_hash if after_hash.get(k) != before_hash[k]),
                "new": new, "outputs": outputs, "entries": entries, "in_rel": case["in_name"],
                "out_rel": "outdir" if out_dir else None, "alone": alone, "ext": ext,
                "top": top, "in_arg": in_arg}

    # -- model ---------------------------------------------------------------
    def model_requests(self, case, obs):
        if case["stream"] == "locale":
            out = []
            for sub, o in zip(case["cases"], obs["subs"]):
                out += self.model_requests(sub, o)[:1]
            return out
        P = {"p": "C17"}
        if case["stream"] == "paths":
            a, b = case["a"], case["b"]
            return [dict(P, op="stem", path=a), dict(P, op="splitext", path=a),
                    dict(P, op="basename", path=a), dict(P, op="join", a=a, b=b),
                    dict(P, op="dirname", path=a)]
        specs = dict((file_name(s), s) for s in case["files"])
        if case["stream"] == "cli":
            conv = [d for d in obs["out_dirs"] if d.count("/") == obs["out_root"].count("/") + 2]
            if len(conv) != 1 or obs["result"] != "ok":
                return []
            out_dir = os.path.join(obs["base"], conv[0][:-1])
            rdf = [d for d in obs["out_dirs"] if d.startswith(conv[0]) and d != conv[0]]
            loads, convert, render = {}, {}, {}
            for name, spec in specs.items():
                outs = dict((subst(k, spec), subst(v, spec)) for k, v in obs["alone"][name]["outs"].items())
                stem = spec["stem"]
                key = "IN:" + name                      # tables are keyed by the bytes read
                if "OUT/RDF/%s.rdf" % stem in outs:
                    loads[key] = True
                    render[key] = outs["OUT/RDF/%s.rdf" % stem]
                else:
                    loads[key] = False
                    render[key] = "err"
                c = outs.get("OUT/%s_conv.xml" % stem)
                convert[key] = c if c is not None else "err"
                if c is not None:
                    render[c] = outs.get("OUT/RDF/%s_conv.rdf" % stem, "err")
            req = dict(P, op="cli", tool=case["tool"], out_dir=out_dir, files=obs["order"],
                       fs=[[p, "IN:" + os.path.basename(p)] for p in obs["order"]],
                       loads=loads, convert=convert, render=render)
            if case["tool"] == "rdf":
                if len(rdf) != 1:
                    return []
                req["rdf_dir"] = os.path.join(obs["base"], rdf[0][:-1])
            return [req]
        if obs.get("ext") is None:
            return []
        fmt = case["fmt"]
        mfmt = fmt if fmt in ("v1_1", "odml") else {"rdf": obs["ext"]}
        out_dir = self.fc_out_dir(case, obs)
        if out_dir is None:
            return []
        convert, render = {}, {}
        for name, spec in specs.items():
            outs = obs["alone"][name]["outs"]
            val = subst(list(outs.values())[0], spec) if len(outs) == 1 and \
                obs["alone"][name]["result"] == "ok" else None
            if fmt == "v1_1":
                # no output and no exception = text without an odML root (null)
                convert["IN:" + name] = val if val is not None else \
                    (None if obs["alone"][name]["result"] == "ok" else "err")
            else:
                render["IN:" + name] = val if val is not None else "err"
        reqs = [dict(P, op="convert_dir", fmt=mfmt, out=os.path.join(out_dir, ""),
                     entries=obs["entries"], convert=convert, render=render,
                     fs=[[os.path.join(d, n), "IN:" + n] for d, n in obs["entries"]],
                     **{"in": obs["top"]})]
        if not case["explicit_out"]:
            reqs.append(dict(P, op="implicit_out", fmt=fmt, **{"in": obs["in_arg"]}))
        return reqs

    @staticmethod
    def fc_out_dir(case, obs):
        if obs["out_rel"]:
            return os.path.join(obs["base"], obs["out_rel"])
        tops = [d for d in obs["new"] if d.endswith("/") and d.count("/") == 1]
        if len(tops) != 1:
            return None
        return os.path.join(obs["base"], tops[0][:-1])

    def compare(self, case, obs, answers):
        if case["stream"] == "locale":
            out, k = [], 0
            for i, (sub, o) in enumerate(zip(case["cases"], obs["subs"])):
                n = len(self.model_requests(sub, o)[:1])
                out += ["sub-case %d: %s" % (i, d) for d in self.compare(sub, o, answers[k:k + n])]
                k += n
            return out
        if not answers:
            return []
        out = []
        if case["stream"] == "paths":
            if answers[0] != obs["stem"]:
                out.append("stem(%r): model %r, os.path %r" % (case["a"], answers[0], obs["stem"]))
            if answers[1] != obs["splitext"]:
                out.append("splitext(%r): model %r, os.path %r" % (case["a"], answers[1], obs["splitext"]))
            if answers[2] != obs["basename"]:
                out.append("basename(%r): model %r, os.path %r" % (case["a"], answers[2], obs["basename"]))
            if answers[3] != obs["join"]:
                out.append("join(%r, %r): model %r, os.path %r" % (case["a"], case["b"], answers[3], obs["join"]))
            if answers[4] != obs["dirname"]:
                out.append("dirname(%r): model %r, os.path %r" % (case["a"], answers[4], obs["dirname"]))
            return out
        ans = answers[0]
        base = obs["base"]
        inputs = set()
        if case["stream"] == "cli":
            if "ok" not in ans["outcome"]:
                out.append("model loop raised")
            inputs = set(obs["order"])
        else:
            if ans["ok"] != (obs["result"] == "ok"):
                out.append("model run ok=%s, implementation result %s" % (ans["ok"], obs["result"]))
            inputs = set(os.path.join(d, n) for d, n in obs["entries"])
        written = {}
        for path, text in ans["files"]:
            if path in inputs:
                if text != "IN:" + os.path.basename(path):
                    out.append("model changes input %s to %r" % (os.path.relpath(path, base), text))
            elif text is not None:
                written[os.path.relpath(os.path.normpath(path), base)] = text
        if case["stream"] == "fc" and len(answers) > 1:
            made = self.fc_out_dir(case, obs)
            if made is not None and answers[1] != made:
                out.append("made-up output directory: model %r, implementation %r" % (answers[1], made))
        if written != obs["outputs"]:
            only_m = dict((k, v) for k, v in written.items() if obs["outputs"].get(k) != v)
            only_i = dict((k, v) for k, v in obs["outputs"].items() if written.get(k) != v)
            out.append("outputs differ: model only %s, implementation only %s" % (only_m, only_i))
        return out

    # -- oracle --------------------------------------------------------------
    def oracle(self, case, obs):
        if "harness_exception" in obs or case["stream"] == "paths":
            return []
        if case["stream"] == "locale":
            out = []
            for i, (sub, o) in enumerate(zip(case["cases"], obs["subs"])):
                out += ["sub-case %d (%s %s): %s" % (i, sub["stream"], sub.get("tool") or sub.get("fmt"), f)
                        for f in self.oracle(sub, o)]
            return out
        out = []
        if not obs["inputs_same"]:
            out.append("input files changed: %s" % obs["changed_inputs"])
        in_prefix = obs["in_rel"] + "/"
        inside = [p for p in obs["new"] if p.startswith(in_prefix)]
        if inside:
            out.append("files created inside the input directory: %s" % inside)
        specs = dict((file_name(s), s) for s in case["files"])
        bad_out = dict((k, v) for k, v in obs["outputs"].items() if v.startswith("UNREADABLE"))
        if case["stream"] == "cli":
            if obs["result"] != "ok":
                out.append("the tool stopped with %s" % obs["result"])
            conv = [d for d in obs["out_dirs"] if d.startswith(obs["out_root"] + "/")
                    and d.count("/") == obs["out_root"].count("/") + 2]
            if obs["result"] == "ok" and len(conv) != 1:
                out.append("expected one new output directory in %s, found %s" % (obs["out_root"], obs["out_dirs"]))
            outside = [p for p in obs["new"] if not (conv and p.startswith(conv[0]))]
            if outside:
                out.append("paths created outside the new output directory: %s" % outside)
            # isolation: the batch gives every file what it gets alone
            expected = {}
            cands = {}
            considered = [s for s in case["files"] if case["recursive"] or not s["sub"]]
            for spec in considered:
                for k, v in obs["alone"][file_name(spec)]["outs"].items():
                    expected[subst(k, spec)] = subst(v, spec)
                    cands.setdefault(subst(k, spec), set()).add(subst(v, spec))
            shared = sorted(k for k, v in cands.items() if len(v) > 1)
            if shared:
                out.append("distinct input files are given the same output path %s: one of them does not "
                           "get its output" % shared)
                expected = dict((k, v) for k, v in expected.items() if k not in shared)
                obs = dict(obs, outputs=dict((k, v) for k, v in obs["outputs"].items()
                                             if canon_out(os.path.relpath(os.path.join(obs["base"], k),
                                                          os.path.join(obs["base"], obs["out_root"]))) not in shared))
            got = dict((canon_out(os.path.relpath(os.path.join(obs["base"], k),
                                                  os.path.join(obs["base"], obs["out_root"]))), v)
                       for k, v in obs["outputs"].items())
            if obs["result"] == "ok" and got != expected:
                missing = dict((k, v) for k, v in expected.items() if got.get(k) != v)
                extra = dict((k, v) for k, v in got.items() if expected.get(k) != v)
                out.append("outputs of the batch differ from the files' outputs alone: missing/different %s, "
                           "unexpected %s" % (missing, extra))
            # every valid odML file of a supported format gets its output, with its content
            for spec in considered:
                kind = spec["kind"]
                outs = obs["alone"][file_name(spec)]["outs"]
                want = []
                if kind in ("xml10", "json10", "yaml10", "xml10w"):
                    want.append("OUT/STEMX_conv.xml")
                    if case["tool"] == "rdf":
                        want.append("OUT/RDF/STEMX_conv.rdf")
                elif kind in ("xml11", "odml11", "json11", "yaml11", "xml11w") and case["tool"] == "rdf":
                    want.append("OUT/RDF/STEMX.rdf")
                for key in want:
                    sig = outs.get(key)
                    if sig is None or "sec_TAGX" not in sig or "prop_TAGX" not in sig:
                        out.append("valid %s file gets no proper output %s from %s (found %r)"
                                   % (kind, key.replace("STEMX", "<stem>"), case["tool"], sig))
            unread = dict((k, v) for k, v in bad_out.items() if k.endswith(".rdf") or k.endswith("_conv.xml"))
            if unread:
                out.append("outputs do not load: %s" % unread)
        else:
            out_dir = self.fc_out_dir(case, obs)
            rel_out = os.path.relpath(out_dir, obs["base"]) + "/" if out_dir else None
            files_new = [p for p in obs["new"] if not p.endswith("/")]
            if rel_out is None:
                if files_new:
                    out.append("no single output directory, yet files were created: %s" % files_new)
            else:
                stray = [p for p in obs["new"] if not (p.startswith(rel_out) or p == rel_out)]
                if stray:
                    out.append("paths created outside the output directory %s: %s" % (rel_out, stray))
            considered = [s for s in case["files"] if case["recursive"] or not s["sub"]]
            convertible = [s for s in considered if obs["alone"][file_name(s)]["result"] == "ok"]
            if len(convertible) == len(considered):
                if obs["result"] != "ok":
                    out.append("all files convert alone but the run raised %s" % obs["result"])
                want = sorted(subst(list(obs["alone"][file_name(s)]["outs"].values())[0], s)
                              for s in considered if obs["alone"][file_name(s)]["outs"])
                got = sorted(obs["outputs"].values())
                if obs["result"] == "ok" and want != got:
                    out.append("outputs %s do not carry the content of their sources %s" % (got, want))
            if bad_out:
                out.append("outputs do not load: %s" % bad_out)
            good = FC_GOOD["v1_1" if case["fmt"] == "v1_1" else "other"]
            for spec in considered:
                if spec["kind"] in good:
                    al = obs["alone"][file_name(spec)]
                    sigs = list(al["outs"].values())
                    if al["result"] != "ok" or len(sigs) != 1 or "sec_TAGX" not in sigs[0]:
                        out.append("valid %s file is not converted to %s alone: %s %s"
                                   % (spec["kind"], case["fmt"], al["result"], sigs))
        return out

    def finding_key(self, case, obs, failure):
        if case.get("stream") == "cli" and case.get("tool") == "rdf" and \
                failure.startswith("distinct input files are given the same output path") and \
                "_conv.rdf" in failure:
            stems = set(s["stem"] for s in case["files"])
            if any(s + "_conv" in stems for s in stems):
                return "C17-odmltordf-conv-name-collision"
        return None

    def tag(self, case, obs):
        st = case["stream"]
        if st == "paths":
            return ("paths", True)
        if st == "locale":
            return ("locale:%s" % obs.get("encoding"), True)
        nout = len(obs.get("outputs", {}))
        nfiles = len(case["files"])
        nested = any(s["sub"] for s in case["files"])
        name = "%s:%s" % (st, case.get("tool") or case.get("fmt"))
        res = obs.get("result")
        cls = "raised" if res != "ok" else ("all" if nout >= nfiles else "some" if nout else "none")
        return ("%s:%s" % (name, cls), nested or (0 < nout < nfiles))


if __name__ == "__main__":
    sys.exit(fw.main(C17(), sys.argv[1:]))
