# -*- coding: utf-8 -*-
"""
C17 - Batch conversion tools never touch their inputs and isolate bad files.

Tie between lean/OdmlModel/Model/Batch.lean and the repository.  Every case builds a directory
tree in a private temporary directory (outside the repository and /verif, removed afterwards)
from the ten file kinds of the property, runs odmlconvert / odmltordf (their `main` with an argv
list) or FormatConverter.convert_dir / convert in-process, hashes the inputs before and after
and inspects everything that appeared.  What converting one file *alone* does (nothing / which
outputs with which content) is observed by running the same tool on a directory holding only
that file; these per-file behaviours are handed to the compiled model, which replays the loop
(try/except structure, output naming, directory mapping) over the whole list; the two resulting
file systems must agree.  The oracle restates the property over the observation alone.

What a produced file holds is its canonical content tree (all attributes and typed values); for valid
inputs it must equal the content of the abstract document the input was rendered from.  The stream
"runs" repeats the tools in one process over shared output locations: every run must create its own
new directory and leave everything that was there before alone.  Between the runs the input
directories are edited and the time stamps of inputs and older results are set in every relation to
each other: after every run each output must hold the content of its source as it is then
(C17.convert_dir_output_current; the model starts from the file system the run finds).

Round 5: directories named like the tools' own output directories (given, above, below, output side), runs
over the output directory of an earlier run (pipelines), every spelling of a valid file (version not
stated, as a number, prolog variants), the loop entered directly in every order, option spellings, refused
calls.  The model of the command line tools now finds the files in the tree itself (Batch.discover,
C17.discover_complete, C17.main_convert_file_gets_output); its list is compared with pathlib's.

Round 6: the spelling of the single values inside a valid file (SHAPE_SCALAR: YAML tags - the !!python/unicode
tag of files written under Python 2 among them -, quoting styles, block scalars, anchors / aliases, JSON escapes
and exponent notation, key order, XML CDATA sections / character references / white space), also through a
new interpreter in which such a file is the first YAML text the process reads (PyYAML's constructor tables are
process-wide state); YAML / JSON neighbours the safe loader refuses (unknown tags, two documents, a structure
that contains itself, NaN); ids of their own in old files.
"""
import hashlib
import io
import json
import os
import pathlib
import shutil
import subprocess
import sys
import tempfile

import framework as fw

# ----------------------------------------------------------------------------- file kinds
V10_XML = u"""<?xml version="1.0" encoding="UTF-8"?>
<odML version="1">
  <date>2008-07-07</date>
  <section>
    <name>sec_%(tag)s</name>
    <type>mainsec</type>
    <property>
      <name>prop_%(tag)s</name>
      <value>1<type>int</type></value>
    </property>
  </section>
  <author>author_%(tag)s</author>
</odML>
"""
V10_JSON = u"""{"Document": {"version": "v1.13", "author": "author_%(tag)s", "sections": [
 {"name": "sec_%(tag)s", "type": "mainsec", "properties": [
   {"name": "prop_%(tag)s", "values": [{"value": "1", "dtype": "int"}]}]}]},
 "odml-version": "1"}
"""
V10_YAML = u"""Document:
  version: v1.13
  author: author_%(tag)s
  sections:
  - name: sec_%(tag)s
    type: mainsec
    properties:
    - name: prop_%(tag)s
      values:
      - dtype: int
        value: '1'
odml-version: '1'
"""
V10_XML_WIDE = V10_XML.replace(u"<value>1<type>int</type></value>",
                               u"<value>\u00e9\u20ac\u4e2d<type>string</type></value>") \
                      .replace(u"author_%(tag)s", u"Ren\u00e9 \u20ac %(tag)s")
OTHER_XML = u"""<?xml version="1.0"?>\n<html><body><p>%(tag)s</p></body></html>\n"""
MALFORMED = u"""<?xml version="1.0"?>\n<odML version="1"><section><name>%(tag)s</name>\n"""
TEXT = u"just some text %(tag)s\n"
# texts that are not odML and fail in different places of the different parsers (plain words, text
# that starts like YAML / JSON / XML and breaks later, flow syntax left open, tabs, directives)
TEXTS = [TEXT, u"note: measured on day one: see the lab book %(tag)s\n", u"{\"Document\": {\"author\": \"%(tag)s\",\n",
         u"- a\n b: c %(tag)s\n", u"key: [unclosed %(tag)s\n", u"\tindented: %(tag)s\n", u"%%YAML 9.9\n--- %(tag)s\n",
         u"Document:\n  author: %(tag)s\n odml-version: '1.1'\n", u"<odML %(tag)s\n", u"[1, 2, {%(tag)s\n",
         u"a: b\na: *nowhere %(tag)s\n", u"\"%(tag)s\n", u"? %(tag)s\n: - :\n", u"null\n", u"42\n", u"[]\n",
         # well-formed JSON (and with it YAML) that is no odML document, or only the shell of one
         u'{"a": 1, "b": "%(tag)s"}\n', u'{"Document": null, "odml-version": "1.1"}\n',
         u'{"Document": {"sections": 5, "author": "%(tag)s"}, "odml-version": "1"}\n',
         u'{"Document": [], "odml-version": "1.1"}\n', u'{"odml-version": "1.1"}\n',
         u'{"Document": {"author": "%(tag)s", "sections": [{"name": "s"}]}, "odml-version": "3"}\n',
         # (round 6) YAML the safe loader refuses or that is no tree: a tag nobody knows, a tag that asks for a
         # Python object, two documents in one file, a structure that contains itself; JSON with NaN
         u"Document:\n  author: !labbook %(tag)s\n  sections: []\nodml-version: '1'\n",
         u"Document:\n  author: !!python/object:collections.OrderedDict {}\n  x: %(tag)s\nodml-version: '1.1'\n",
         u"Document:\n  author: %(tag)s\n---\nDocument:\n  author: second\n",
         u"Document: &d\n  author: %(tag)s\n  sections:\n  - *d\nodml-version: '1'\n",
         u"Document: &d\n  author: %(tag)s\n  sections:\n  - *d\nodml-version: '1.1'\n",
         u'{"Document": {"author": "%(tag)s", "sections": NaN}, "odml-version": "1"}\n']
# XML of other vocabularies (kind "othervocab"): a web page, an RDF/XML export, a drawing, a root that
# is odML in other letters, an odML root around foreign elements
OTHER_XMLS = [OTHER_XML,
              u'<?xml version="1.0"?>\n<rdf:RDF xmlns:rdf="http://www.w3.org/1999/02/22-rdf-syntax-ns#">'
              u'<rdf:Description rdf:about="http://example.org/%(tag)s"/></rdf:RDF>\n',
              u'<svg xmlns="http://www.w3.org/2000/svg"><title>%(tag)s</title></svg>\n',
              u'<?xml version="1.0"?>\n<odml version="1"><section><name>%(tag)s</name><type>t</type></section></odml>\n',
              u'<?xml version="1.0"?>\n<ODML><author>%(tag)s</author></ODML>\n',
              u'<?xml version="1.0"?>\n<x:odML xmlns:x="http://example.org/x" version="1"><x:author>%(tag)s</x:author></x:odML>\n']

KIND_EXT = {"xml10w": ".xml", "xml11w": ".xml", "xml10": ".xml", "json10": ".json", "yaml10": ".yaml", "xml11": ".xml", "odml11": ".odml",
            "json11": ".json", "yaml11": ".yaml", "empty": ".xml", "empty_json": ".json",
            "empty_yaml": ".yaml", "text": ".xml", "text_json": ".json", "text_yaml": ".yaml",
            "text_odml": ".odml", "malformed": ".xml", "othervocab": ".xml",
            # other encodings of valid files, bytes that are no text at all, blank files, and
            # directories whose names match the file patterns of the tools
            "xml10l": ".xml", "xml10b": ".xml", "xml11u": ".xml", "binary": ".xml", "binary_json": ".json",
            "binary_yaml": ".yaml", "blank": ".xml", "blank_json": ".json", "blank_yaml": ".yaml",
            "dir_xml": ".xml", "dir_odml": ".odml", "dir_json": ".json", "dir_yaml": ".yaml"}
CLI_KINDS = sorted(KIND_EXT)
FC_GOOD = {"v1_1": ["xml10", "xml11", "xml10w", "xml10l", "xml10b"], "other": ["xml11", "odml11", "xml11w", "xml11u"]}
FC_BAD = ["empty", "text", "malformed", "json11", "binary", "blank"]
FC_FORMATS = ["v1_1", "odml", "turtle", "xml", "nt", "n3", "json-ld", "pretty-xml", "ttl", "ntriples", "nt11", "trig"]
# target formats that share a file ending: a second run with the sibling format into the same output
# directory writes to the same paths as the first
FC_SIBLINGS = {"xml": "pretty-xml", "pretty-xml": "xml", "turtle": "ttl", "ttl": "turtle", "nt": "ntriples",
               "ntriples": "nt11", "nt11": "nt"}
DIR_NAMES = ["in", "in+dir(1)", "in[1]", "c++", "in.d", "a b", "in$", "x{2}", "in|out", "in*x", "in?",
             "^in", "in\\d", "(in)", "data"]
# Directory names that look like something the tools themselves make or skip: the names of their own output
# directories (odmlconv_XXXX, odmlrdf_XXXX, <input>_<format>) - the next tool of a pipeline is pointed at
# exactly such a directory -, hidden / temporary / backup / cache names, names that are words of the
# tools (formats, file endings, options without the dash).  Used for the directory given on the command
# line, for directories above it (case["in_name"] may have several components) and for directories below.
TOOL_DIR_NAMES = ["odmlconv_a1b2c3", "odmlconv_", "odmlrdf_x9y8", "odmlrdf_", "in_odml", "in_v1_1", "in_turtle",
                  "odmlconv_old/odmlrdf_old", ".hidden", ".git", "tmp", "temp_conv", "out", "output", "backup~",
                  "__pycache__", "_build", "odml", "xml", "rdf", "v1_1", "conv", "a_conv", "r", "o", "node_modules",
                  "lost+found", "Odmlconv_X", "x.xml", "y.odml", "z.json"]
# names of the output root of the command line tools / the output directory of the format converter
OUT_NAMES = ["out+root(1)", "odmlconv_prev", "odmlrdf_prev", "o u t", "res[1]", ".out", "out.d", "results_odml", "x"]
PARENT_NAMES = ["odmlconv_p1", "odmlconv_p1/odmlrdf_p2", "up (1)", ".cache", "tmp", "out/odmlconv_zz", "w_odml",
                "p.xml", "c++"]
# how the directories are spelled on the command line: absolute, with a trailing separator, relative
# to the working directory (output root "."), with "." / ".." segments
ARG_STYLES = ["abs", "abs", "trail", "rel", "dot"]
SUB_NAMES = ["sub", "main", "x", "in", "s.1", "a+b"]
TOOL_SUB_NAMES = ["odmlconv_zz", "odmlrdf_q", "odmlconv_", ".git", ".hid", "sub_odml", "out", "tmp", "__pycache__",
                  "s_conv", "backup~", "in_v1_1", "d.xml", "e.yaml"]
# base names: several dots, blanks, non-ASCII, glob / regex / format metacharacters, digits only,
# "_conv" inside the name (a name that *ends* in _conv next to its prefix: systematic block, w06)
STEM_FORMS = [u"a.b%d", u"sp ace%d", u"ü%d", u"x[%d]", u"p+q(%d)", u"UP%d", u"tr.%d.", u"-dash%d", u"%d",
              u"c_conv%d", u"st*r%d", u"q?%d", u"am&p%d", u"perc%%s%d", u"quo'te%d", u"{%d}", u"xml%d.json",
              # hidden files, names that start like the tools' own directories, a trailing tilde, a name
              # that is nothing but an ending of another format
              u".h%d", u"odmlconv_%d", u"odmlrdf_%d", u"b%d~", u"#n%d#", u"_%d", u"rdf%d.rdf", u"N%d.XML"]
RDF_BY_EXT = {".rdf": "xml", ".ttl": "turtle", ".nt": "nt", ".n3": "n3", ".jsonld": "json-ld", ".trig": "trig"}


# ----------------------------------------------------------------------------- abstract documents
# "Each output loads as a current-version document (or parses as RDF) with the content of its
# source": the valid file kinds can also be rendered from an abstract document (spec["doc"]) with
# several sections, nesting, properties of every dtype and values at the boundaries (0, 0.0, False,
# negative, huge, texts that look like numbers, non-ASCII, 11 values / properties).  The text
# "TAGQ" inside names and values is replaced by the tag of the file.  What the outputs must hold is
# computed from the abstract document here (expected_tree), not by the library.
VALUE_POOL = {
    "int": [0, 1, -1, 7, 10, 42, -300, 2 ** 40, 2 ** 70],
    "float": [0.0, 2.5, -0.5, 1e-07, 1e+22, 3.0, 100.25],
    "boolean": [False, True],
    # not in the pool (the 1.1 format itself cannot hold them, with or without a conversion): the
    # empty text (odML treats it as "no value"), texts with commas / brackets (list syntax of the
    # value element), leading / trailing blanks and line breaks (stripped on reading)
    "string": [u"zero", u"a b", u"é€", u"x_TAGQ", u"0", u"False", u"None", u"1e5", u"v.1", u"a<b&c>d",
               u"q\"uote", u"it's", u"semi;colon: x", u"tab\there", u"-", u"0.0", u"true"],
    "text": [u"some longer text", u"line TAGQ"],
    "date": [u"2011-12-01", u"1999-01-31", u"0999-05-05"],
    "time": [u"12:00:01", u"00:00:00"],
    "datetime": [u"2011-12-01 12:00:01", u"2000-01-01 00:00:00", u"0999-05-05 01:02:03"],
    "url": [u"https://example.org/TAGQ"],
    "person": [u"Jane Doe"],
}
OLD_KINDS = ("xml10", "json10", "yaml10", "xml10w", "xml10l", "xml10b")
NEW_KINDS = ("xml11", "odml11", "json11", "yaml11", "xml11w", "xml11u")
DOC_KINDS = ("xml10", "json10", "yaml10", "xml11", "odml11", "json11", "yaml11")


def gen_prop(rng, i):
    dtype = rng.choice(sorted(VALUE_POOL))
    nval = rng.choice([0, 1, 1, 1, 1, 2, 2, 3, 3, 11])
    values = [rng.choice(VALUE_POOL[dtype]) for _ in range(nval)]
    prop = {"name": rng.choice([u"prop_TAGQ_%d", u"p%d", u"P ü %d", u"prop.%d"]) % i,
            "dtype": dtype if nval else None, "values": values, "unit": None, "uncertainty": None,
            "definition": None}
    if nval and dtype in ("int", "float") and rng.random() < 0.5:
        prop["unit"] = rng.choice([u"mV", u"s", u"µm", u"0"])
    if nval and dtype in ("int", "float") and rng.random() < 0.5:
        prop["uncertainty"] = rng.choice([0.0, 0.5, 2.0, 1e-05, 0])
    if rng.random() < 0.3:
        prop["definition"] = rng.choice([u"def TAGQ", u"déf", u"0"])
    # attributes that moved or were renamed between the versions (old style: filename and reference
    # sit on the value entries, dependency_value is written with an underscore), and old-style
    # entries without a counterpart (noise: must be dropped without disturbing the rest)
    if nval and rng.random() < 0.25:
        prop["value_origin"] = rng.choice([u"data_TAGQ.csv", u"0"])
    if nval and rng.random() < 0.25:
        prop["reference"] = rng.choice([u"ref TAGQ", u"0"])
    if rng.random() < 0.25:
        prop["dependency"] = u"other_TAGQ"
        prop["dependency_value"] = rng.choice([u"0", u"on"])
    if rng.random() < 0.25:
        prop["noise"] = True
    return prop


def gen_sec(rng, depth, idx):
    sec = {"name": rng.choice([u"sec_TAGQ_%s", u"s%s", u"S ü %s"]) % idx,
           "type": rng.choice([u"mainsec", u"recording/x", u"t", u"0"]),
           "definition": rng.choice([None, None, u"sdef TAGQ"]), "props": [], "sections": []}
    for i in range(rng.choice([0, 1, 1, 2, 2, 3, 3, 11] if depth == 0 else [0, 1, 2])):
        sec["props"].append(gen_prop(rng, i))
    if depth < 2:
        for i in range(rng.choice([0, 0, 1, 2])):
            sec["sections"].append(gen_sec(rng, depth + 1, "%s_%d" % (idx, i)))
    return sec


def gen_doc(rng):
    """native: JSON/YAML values as numbers / booleans (else as texts, like the bundled fixtures);
    first_only: dtype/unit/uncertainty on the first old-style value only; value_last: key order
    inside an old-style value entry; raw_unicode: JSON/YAML written without \\u escapes."""
    doc = {"author": rng.choice([None, u"author_TAGQ", u"René TAGQ"]),
           "version": rng.choice([None, u"v1.13", u"3", u"0"]),
           "date": rng.choice([None, u"2008-07-07", u"1999-12-31"]), "sections": [],
           "native": rng.random() < 0.6, "first_only": rng.random() < 0.3,
           "value_last": rng.random() < 0.3, "raw_unicode": rng.random() < 0.5}
    for i in range(rng.choice([0, 1, 1, 2, 3])):
        doc["sections"].append(gen_sec(rng, 0, str(i)))
    return doc


def full_doc(native, first_only=False, value_last=False):
    """Every dtype with every value of its pool: all of them in one property, and each of them as
    the only value of a property of its own; units and uncertainties at their boundaries too."""
    props = []
    for dtype in sorted(VALUE_POOL):
        pool = VALUE_POOL[dtype]
        props.append({"name": u"all_%s" % dtype, "dtype": dtype, "values": list(pool), "unit": None,
                      "uncertainty": None, "definition": None})
        for i, val in enumerate(pool):
            numeric = dtype in ("int", "float")
            props.append({"name": u"%s_%d" % (dtype, i), "dtype": dtype, "values": [val],
                          "unit": [u"mV", u"0", None][i % 3] if numeric else None,
                          "uncertainty": [0, 0.0, 0.5, None][i % 4] if numeric else None,
                          "definition": [None, u"def TAGQ", u"0"][i % 3],
                          "value_origin": [None, u"0", u"data_TAGQ.csv"][i % 3],
                          "reference": [u"0", None, u"ref TAGQ"][i % 3],
                          "dependency": [None, u"all_int"][i % 2], "dependency_value": [None, u"0"][i % 2],
                          "noise": i % 2 == 1})
    props.append({"name": u"no_value", "dtype": None, "values": [], "unit": None, "uncertainty": None,
                  "definition": None})
    sub = {"name": u"sub_TAGQ", "type": u"0", "definition": None, "sections": [],
           "props": [dict(props[1], name=u"again")]}
    return {"author": u"author_TAGQ", "version": u"0", "date": u"1999-12-31",
            "sections": [{"name": u"sec_TAGQ", "type": u"mainsec", "definition": u"sdef TAGQ", "props": props,
                          "sections": [sub]},
                         {"name": u"empty_TAGQ", "type": u"t", "definition": None, "props": [], "sections": []}],
            "native": native, "first_only": first_only, "value_last": value_last, "raw_unicode": native}


def template_doc(kind):
    """The abstract document of the fixed texts V10_XML / V10_JSON / ... (files without spec["doc"])."""
    wide = kind in ("xml10w", "xml11w", "xml10l")
    val = {"xml10w": u"é€中", "xml11w": u"é€中", "xml10l": u"éü"}.get(kind, 1)
    author = {"xml10w": u"René € TAGQ", "xml11w": u"René € TAGQ",
              "xml10l": u"René TAGQ"}.get(kind, u"author_TAGQ")
    old = kind in OLD_KINDS
    return {"author": author, "version": u"v1.13" if kind in ("json10", "yaml10") else None,
            "date": u"2008-07-07" if kind in ("xml10", "xml10w", "xml10l", "xml10b") else None,
            "sections": [{"name": u"sec_TAGQ", "type": u"mainsec", "definition": None, "sections": [],
                          "props": [{"name": u"prop_TAGQ", "dtype": "string" if wide else "int", "values": [val],
                                     "unit": None, "uncertainty": None, "definition": None}]}],
            "template": True, "old": old}


def _tq(text, tag):
    return text.replace(u"TAGQ", tag) if isinstance(text, str) else text


def _by_name(node):
    """Sort key of a section / property of a content tree: the name (unique among siblings)."""
    return (u"%s" % (node.get("name"),), fw.canon(dict(node, dependency=None, dependency_value=None)))


def canon_value(val):
    import datetime
    if isinstance(val, bool):
        return "b:%s" % val
    if isinstance(val, int):
        return "i:%d" % val
    if isinstance(val, float):
        return "f:%r" % val
    if isinstance(val, (datetime.date, datetime.time)):
        return "d:%s" % val.isoformat()
    return u"s:%s" % (val,)


def expected_value(dtype, val, tag):
    import datetime
    if dtype == "date":
        return canon_value(datetime.date.fromisoformat(val))
    if dtype == "time":
        return canon_value(datetime.time.fromisoformat(val))
    if dtype == "datetime":
        return canon_value(datetime.datetime.strptime(val, "%Y-%m-%d %H:%M:%S"))
    if dtype == "float":
        return canon_value(float(val))
    return canon_value(_tq(val, tag))


def expected_tree(doc, tag):
    """Canonical content of an abstract document (sections / properties sorted, values in order)."""
    def prop(p):
        return {"name": _tq(p["name"], tag), "dtype": p["dtype"], "unit": p["unit"],
                "uncertainty": None if p["uncertainty"] is None else repr(float(p["uncertainty"])),
                "definition": _tq(p["definition"], tag),
                "value_origin": _tq(p.get("value_origin"), tag), "reference": _tq(p.get("reference"), tag),
                "dependency": _tq(p.get("dependency"), tag), "dependency_value": p.get("dependency_value"),
                "values": [expected_value(p["dtype"], v, tag) for v in p["values"]]}

    def sec(s):
        return {"name": _tq(s["name"], tag), "type": _tq(s["type"], tag), "definition": _tq(s["definition"], tag),
                "props": sorted((prop(p) for p in s["props"]), key=_by_name),
                "sections": sorted((sec(c) for c in s["sections"]), key=_by_name)}
    return {"author": _tq(doc["author"], tag), "version": doc["version"], "date": doc["date"],
            "sections": sorted((sec(s) for s in doc["sections"]), key=_by_name)}


def doc_tree(doc):
    """The same canonical content read from a loaded odml.Document (public attributes only)."""
    def unc(u):
        try:
            return None if u is None else repr(float(u))
        except (TypeError, ValueError):
            return "?%r" % (u,)

    def prop(p):
        return {"name": p.name, "dtype": p.dtype, "unit": p.unit, "uncertainty": unc(p.uncertainty),
                "definition": p.definition, "value_origin": p.value_origin, "reference": p.reference,
                "dependency": p.dependency, "dependency_value": p.dependency_value,
                "values": [canon_value(v) for v in p.values]}

    def sec(s):
        return {"name": s.name, "type": s.type, "definition": s.definition,
                "props": sorted((prop(p) for p in s.properties), key=_by_name),
                "sections": sorted((sec(c) for c in s.sections), key=_by_name)}
    return {"author": doc.author, "version": doc.version,
            "date": None if doc.date is None else doc.date.isoformat(),
            "sections": sorted((sec(s) for s in doc.sections), key=_by_name)}


def rdf_tree(graph):
    """The same canonical content read from a parsed odML RDF graph (rdflib), by the odml-rdf
    vocabulary: Document -hasSection-> Section -hasProperty-> Property -hasValue-> rdf:Seq."""
    import rdflib
    by_subj = {}
    for s, p, o in graph:
        text = str(p)
        local = text.rsplit("#", 1)[-1] if "#" in text else text.rsplit("/", 1)[-1]
        by_subj.setdefault(s, []).append((local, o))

    def pyval(o):
        """Canonical value of a literal; rdflib hands back the Literal itself when it does not
        accept the lexical form for the declared datatype (it does so for 1e-05 as xsd:double)."""
        py = o.toPython()
        if isinstance(py, rdflib.term.Node):
            kind = str(o.datatype or "").rsplit("#", 1)[-1]
            try:
                if kind in ("double", "float", "decimal"):
                    return canon_value(float(str(o)))
                if kind in ("integer", "int", "long"):
                    return canon_value(int(str(o)))
            except ValueError:
                pass
            return u"s:%s" % o
        return canon_value(py)

    def lit(node, name):
        found = sorted(pyval(o) for k, o in by_subj.get(node, []) if k == name and isinstance(o, rdflib.Literal))
        if not found:
            return None
        return found[0] if len(found) == 1 else found

    def text(node, name):
        got = lit(node, name)
        return got[2:] if isinstance(got, str) and got[:2] in ("s:", "d:") else got

    def refs(node, name):
        return [o for k, o in by_subj.get(node, []) if k == name and not isinstance(o, rdflib.Literal)]

    def values(node):
        out = []
        for seq in refs(node, "hasValue"):
            members = sorted((int(k[1:]), o) for k, o in by_subj.get(seq, []) if k[:1] == "_" and k[1:].isdigit())
            for _i, o in members:
                out.append(pyval(o) if isinstance(o, rdflib.Literal) else u"ref:%s" % o)
        return out

    def prop(node):
        unc = lit(node, "hasUncertainty")
        if isinstance(unc, str) and unc[:2] in ("f:", "i:", "s:"):
            try:                                  # the number, whether typed or written as plain text
                unc = repr(float(unc[2:]))
            except ValueError:
                pass
        # (the odml-rdf vocabulary has no terms for dependency / dependency value)
        return {"name": text(node, "hasName"), "dtype": text(node, "hasDtype"), "unit": text(node, "hasUnit"),
                "uncertainty": unc, "definition": text(node, "hasDefinition"),
                "value_origin": text(node, "hasValueOrigin"), "reference": text(node, "hasReference"),
                "dependency": "n/a", "dependency_value": "n/a", "values": values(node)}

    def sec(node, depth):
        if depth > 50:
            return {"name": "cycle"}
        return {"name": text(node, "hasName"), "type": text(node, "hasType"), "definition": text(node, "hasDefinition"),
                "props": sorted((prop(p) for p in refs(node, "hasProperty")), key=_by_name),
                "sections": sorted((sec(c, depth + 1) for c in refs(node, "hasSection")), key=_by_name)}
    docs = [s for s, pairs in by_subj.items()
            if any(k == "type" and str(o).endswith("#Document") for k, o in pairs)]
    if len(docs) != 1:
        return {"documents": len(docs)}
    node = docs[0]
    return {"author": text(node, "hasAuthor"), "version": text(node, "hasDocVersion"), "date": text(node, "hasDate"),
            "sections": sorted((sec(s, 0) for s in refs(node, "hasSection")), key=_by_name)}


def tree_diff(want, got, path=""):
    if isinstance(want, dict) and isinstance(got, dict):
        out = []
        for key in sorted(set(want) | set(got)):
            out += tree_diff(want.get(key), got.get(key), "%s/%s" % (path, key))
        return out
    if isinstance(want, list) and isinstance(got, list) and len(want) == len(got):
        out = []
        for i, (a, b) in enumerate(zip(want, got)):
            out += tree_diff(a, b, "%s[%d]" % (path, i))
        return out
    return [] if want == got else ["%s: source %r, output %r" % (path, want, got)]


def content_failure(spec, sig):
    """The content clause for one output of a valid file: the signature of the output (in STEMX /
    TAGX form) against the canonical content of the abstract document the file was rendered from."""
    # (a file copied from the output of an earlier run carries the tag of its source, not the neutral one)
    want = expected_tree(spec.get("doc") or template_doc(spec["kind"]), spec["tag"] if spec["kind"] == "raw" else "TAGX")
    prefix = sig[:4]
    if prefix not in ("DOC:", "RDF:"):
        return [sig]
    try:
        got = json.loads(sig[4:])
    except ValueError:
        return [sig]
    if prefix == "RDF:":
        def blank(sec):
            for prop in sec["props"]:
                prop["dependency"] = prop["dependency_value"] = "n/a"
            for sub in sec["sections"]:
                blank(sub)
        for sec in want["sections"]:
            blank(sec)
    return tree_diff(want, got)[:4]


def tree_sig(prefix, tree):
    return prefix + json.dumps(tree, sort_keys=True, ensure_ascii=False)


def render10_xml(doc, tag):
    from xml.sax.saxutils import escape
    out = [u'<?xml version="1.0" encoding="UTF-8"?>', u'<odML version="1">']

    def elem(name, text, ind):
        if text is not None:
            out.append(u"%s<%s>%s</%s>" % (ind, name, escape(_tq(text, tag)), name))

    def sec(s, ind):
        out.append(ind + u"<section>")
        elem("name", s["name"], ind + "  ")
        elem("type", s["type"], ind + "  ")
        elem("definition", s["definition"], ind + "  ")
        for p in s["props"]:
            out.append(ind + u"  <property>")
            elem("name", p["name"], ind + "    ")
            elem("definition", p["definition"], ind + "    ")
            elem("dependency", p.get("dependency"), ind + "    ")
            elem("dependency_value", p.get("dependency_value"), ind + "    ")
            if p.get("noise"):
                elem("mapping", u"map#TAGQ", ind + "    ")
                elem("synonym", u"syn", ind + "    ")
                # (round 6) old files may carry ids of their own making: not the content, never in the way
                elem("id", [u"not-a-uuid", u"12345"][len(p["name"]) % 2], ind + "    ")
            for i, v in enumerate(p["values"]):
                attrs = u""
                if i == 0 or not doc.get("first_only"):
                    attrs += u"<type>%s</type>" % p["dtype"]
                    if p["unit"] is not None:
                        attrs += u"<unit>%s</unit>" % escape(p["unit"])
                    if p["uncertainty"] is not None:
                        attrs += u"<uncertainty>%s</uncertainty>" % p["uncertainty"]
                    if p.get("value_origin") is not None:
                        attrs += u"<filename>%s</filename>" % escape(_tq(p["value_origin"], tag))
                    if p.get("reference") is not None:
                        attrs += u"<reference>%s</reference>" % escape(_tq(p["reference"], tag))
                    if p.get("noise"):
                        attrs += u"<checksum>crc32$0</checksum><encoder>none</encoder>"
                out.append(u"%s    <value>%s%s</value>" % (ind, escape(_tq(u"%s" % (v,), tag)), attrs))
            out.append(ind + u"  </property>")
        for c in s["sections"]:
            sec(c, ind + "  ")
        out.append(ind + u"</section>")
    elem("date", doc["date"], "  ")
    for s in doc["sections"]:
        sec(s, "  ")
    elem("author", doc["author"], "  ")
    elem("version", doc["version"], "  ")
    out.append(u"</odML>")
    return u"\n".join(out) + u"\n"


def render10_dict(doc, tag):
    def value(p, i, v):
        v = _tq(v, tag)
        entry = [("value", v if doc.get("native") else u"%s" % (v,))]
        if i == 0 or not doc.get("first_only"):
            entry.append(("dtype", p["dtype"]))
            if p["unit"] is not None:
                entry.append(("unit", p["unit"]))
            if p["uncertainty"] is not None:
                entry.append(("uncertainty", p["uncertainty"] if doc.get("native") else u"%s" % p["uncertainty"]))
            if p.get("value_origin") is not None:
                entry.append(("filename", _tq(p["value_origin"], tag)))
            if p.get("reference") is not None:
                entry.append(("reference", _tq(p["reference"], tag)))
            if p.get("noise"):
                entry += [("checksum", u"crc32$0"), ("encoder", u"none")]
        if doc.get("value_last"):
            entry = entry[1:] + entry[:1]
        return dict(entry)

    def prop(p):
        out = {"name": _tq(p["name"], tag)}
        if p["definition"] is not None:
            out["definition"] = _tq(p["definition"], tag)
        if p.get("dependency") is not None:
            out["dependency"] = _tq(p["dependency"], tag)
            out["dependency_value"] = p["dependency_value"]
        if p.get("noise"):
            out["mapping"] = _tq(u"map#TAGQ", tag)
            out["synonym"] = u"syn"
            out["id"] = [u"not-a-uuid", u"12345"][len(p["name"]) % 2]
        out["values"] = [value(p, i, v) for i, v in enumerate(p["values"])]
        return out

    def sec(s):
        out = {"name": _tq(s["name"], tag), "type": _tq(s["type"], tag)}
        if s["definition"] is not None:
            out["definition"] = _tq(s["definition"], tag)
        if s["props"] or doc.get("native"):
            out["properties"] = [prop(p) for p in s["props"]]
        if s["sections"] or not doc.get("native"):
            out["sections"] = [sec(c) for c in s["sections"]]
        return out
    top = {}
    for key in ("author", "version", "date"):
        if doc[key] is not None:
            top[key] = _tq(doc[key], tag)
    top["sections"] = [sec(s) for s in doc["sections"]]
    return {"Document": top, "odml-version": "1"}


def build11(doc, tag):
    import odml
    out = odml.Document(author=_tq(doc["author"], tag), version=doc["version"], date=doc["date"])

    def sec(s, parent):
        cur = odml.Section(name=_tq(s["name"], tag), type=_tq(s["type"], tag), definition=_tq(s["definition"], tag),
                           parent=parent)
        for p in s["props"]:
            if p["values"]:
                odml.Property(name=_tq(p["name"], tag), values=[_tq(v, tag) for v in p["values"]], dtype=p["dtype"],
                              unit=p["unit"], uncertainty=p["uncertainty"], definition=_tq(p["definition"], tag),
                              value_origin=_tq(p.get("value_origin"), tag), reference=_tq(p.get("reference"), tag),
                              dependency=_tq(p.get("dependency"), tag), dependency_value=p.get("dependency_value"),
                              parent=cur)
            else:
                odml.Property(name=_tq(p["name"], tag), definition=_tq(p["definition"], tag),
                              dependency=_tq(p.get("dependency"), tag), dependency_value=p.get("dependency_value"),
                              parent=cur)
        for c in s["sections"]:
            sec(c, cur)
    for s in doc["sections"]:
        sec(s, out)
    return out


def render_doc(kind, doc, tag):
    from odml.tools.odmlparser import ODMLWriter
    if kind == "xml10":
        return render10_xml(doc, tag)
    if kind == "json10":
        return json.dumps(render10_dict(doc, tag), indent=1, ensure_ascii=not doc.get("raw_unicode")) + u"\n"
    if kind == "yaml10":
        import yaml
        return yaml.safe_dump(render10_dict(doc, tag), default_flow_style=False,
                              allow_unicode=bool(doc.get("raw_unicode")))
    built = build11(doc, tag)
    if kind in ("xml11", "odml11"):
        return u'<?xml version="1.0" encoding="UTF-8"?>\n' + ODMLWriter("XML").to_string(built)
    text = ODMLWriter("JSON" if kind == "json11" else "YAML").to_string(built)
    if doc.get("raw_unicode"):
        # the same file as another program would write it: UTF-8 text instead of \u escapes
        import yaml
        if kind == "json11":
            text = json.dumps(json.loads(text), indent=2, ensure_ascii=False) + u"\n"
        else:
            text = yaml.safe_dump(yaml.safe_load(text), default_flow_style=False, allow_unicode=True)
    return text



# ----------------------------------------------------------------------------- file shapes
# The same document can be spelled in many ways (spec["shape"] = {"ver": ..., "prolog": ...}); none of them
# changes what the file holds.  "ver": how an old-version file states its format version - the attribute /
# key left out altogether (files written by hand or by other programs), "1.0", the number 1 / 1.0 in
# JSON / YAML, other quotes, blanks, a further attribute on the root, the key in front of the document.
# The version converter never looks at the old version: every one of these files is convertible.
# "prolog": what stands around the document - no XML declaration, a style sheet instruction (the old
# odML files carry one), comments, a DOCTYPE, CRLF line ends, no final line end, JSON without any
# blanks, YAML in flow style / with document markers / with a comment line.
SHAPE_VER = {"xml": ["absent", "1.0", "sq", "attr", "spaced"], "dict": ["absent", "1.0", "int", "float", "first"]}
SHAPE_PROLOG = {"xml": ["nodecl", "pi", "comment", "doctype", "crlf", "nonl"], "json": ["crlf", "compact"],
                "yaml": ["crlf", "docstart", "flow", "comment"]}
XML_SHAPED = ("xml10", "xml10w", "xml11", "odml11", "xml11w")
DICT_SHAPED = ("json10", "yaml10", "json11", "yaml11")
# Round 6 - "scalar": how the single texts and numbers inside the document are written.  Every file format
# has several spellings of one and the same value, and files written by other programs (or by the Python 2
# generation of odML - the very files the version converter exists for) use them:
#   YAML: strings carrying the tag Python 2 PyYAML gave to unicode objects (!!python/unicode; all of
#         them, or a part - Python 2 mixed str and unicode), the standard tags written out (!!str, !!int,
#         !!float, !!bool), every string double / single quoted, block scalars, anchors and aliases for
#         equal entries, the keys of every mapping in the opposite order;
#   JSON: every character of every string as a \uXXXX escape (surrogate pairs included), "/" as "\/",
#         numbers in exponent notation, keys in the opposite order;
#   XML : texts in CDATA sections, characters as numeric references, no white space between the
#         elements, tabs for the indentation.
# None of them changes what the file holds (checked here: the spelled text is read back with the plain
# parsers of lxml / json / PyYAML - through a private loader class, the harness never registers
# anything with PyYAML's shared loaders - and must give the same data, else the plain spelling is kept).
SHAPE_SCALAR = {"xml": ["cdata", "charref", "oneline", "tabs"],
                "json": ["uescape", "slash", "exp", "revkeys"],
                "yaml": ["py2", "py2mix", "strtag", "dq", "sq", "block", "alias", "revkeys"]}
PY2_TAG = u"tag:yaml.org,2002:python/unicode"


def shape_family(kind):
    if kind in XML_SHAPED:
        return "xml"
    if kind in ("json10", "json11"):
        return "json"
    if kind in ("yaml10", "yaml11"):
        return "yaml"
    return None


def gen_shape(rng, kind):
    """A random spelling for a valid file of this kind (None: the plain one)."""
    fam = shape_family(kind)
    if fam is None:
        return None
    shape = {}
    if kind in OLD_KINDS and rng.random() < 0.6:
        shape["ver"] = rng.choice(SHAPE_VER["xml" if fam == "xml" else "dict"])
    if rng.random() < 0.5:
        shape["prolog"] = rng.choice(SHAPE_PROLOG[fam])
    if rng.random() < 0.45:
        shape["scalar"] = rng.choice(SHAPE_SCALAR[fam])
    return shape or None


def _xml_items(text):
    """What an XML text holds, white space between the elements aside."""
    from lxml import etree
    root = etree.fromstring(text.encode("utf-8"))
    return [(el.tag if isinstance(el.tag, str) else "?", (el.text or u"").strip(), (el.tail or u"").strip(),
             sorted(el.attrib.items())) for el in root.iter() if isinstance(el.tag, str)]


def scalar_xml(text, mode):
    """The XML text with its character data spelled another way (see SHAPE_SCALAR)."""
    import re
    from xml.sax.saxutils import unescape

    def chars(seg):
        out = []
        for i, ch in enumerate(seg):
            if ord(ch) > 127 or ch in u"aeiou<>&\"'":
                out.append((u"&#x%X;" if i % 2 else u"&#%d;") % ord(ch))
            else:
                out.append(ch)
        return u"".join(out)

    def piece(match):
        raw = match.group(1)
        body = raw.strip()
        lead, trail = raw[:len(raw) - len(raw.lstrip())], raw[len(raw.rstrip()):]
        plain = unescape(body, {u"&quot;": u'"', u"&apos;": u"'"})
        if mode == "cdata":
            body = u"<![CDATA[%s]]>" % plain.replace(u"]]>", u"]]]]><![CDATA[>")
        else:
            body = chars(plain)
        return u">%s%s%s<" % (lead, body, trail)
    if mode in ("cdata", "charref"):
        new = re.sub(u">([^<>]*[^<>\\s][^<>]*)<", piece, text)
    elif mode == "oneline":
        new = re.sub(u"(?<!\\?)>\\s+<", u"><", text)         # (the XML declaration keeps its line)
    elif mode == "tabs":
        new = re.sub(u"(?m)^ +", lambda m: u"\t" * ((len(m.group(0)) + 1) // 2), text)
    else:
        return text
    try:
        strip_decl = lambda t: re.sub(u"^<\\?xml[^>]*\\?>", u"", t)
        return new if _xml_items(strip_decl(new)) == _xml_items(strip_decl(text)) else text
    except Exception:
        return text


class _Val(str):
    """A string that is a value (not a key) of the dictionary form of a document."""


def _mark(data, rev=False, share=None):
    """Copy of `data` with the string values marked; keys in the opposite order (rev); equal lists /
    dictionaries replaced by one and the same object (share: a dictionary), which PyYAML writes as an
    anchor and aliases."""
    if isinstance(data, dict):
        items = [(k, _mark(v, rev, share)) for k, v in data.items()]
        out = dict(reversed(items) if rev else items)
    elif isinstance(data, list):
        out = [_mark(v, rev, share) for v in data]
    elif isinstance(data, str):
        return _Val(data)
    else:
        return data
    if share is not None:
        return share.setdefault(fw.canon(out), out)
    return out


def scalar_yaml(data, mode, flow, allow_unicode, sort_keys):
    """YAML text of `data` with the scalars spelled by `mode` (None if the mode does not apply)."""
    import yaml
    STR = u"tag:yaml.org,2002:str"

    class Dumper(yaml.SafeDumper):
        def process_tag(self):
            # "strtag": the tag of every value is written out (!!str 'x', !!int '1', !!bool 'false')
            if mode == "strtag" and isinstance(self.event, yaml.ScalarEvent) and not self.simple_key_context:
                self.event.implicit = (False, False)
            return yaml.SafeDumper.process_tag(self)

    def rep_val(dumper, value):
        text = str(value)
        if mode == "py2" or (mode == "py2mix" and sum(ord(ch) for ch in text) % 2 == 0):
            return dumper.represent_scalar(PY2_TAG, text)
        if mode == "dq":
            return dumper.represent_scalar(STR, text, style='"')
        if mode == "sq":
            return dumper.represent_scalar(STR, text, style="'")
        if mode == "block" and len(text) > 1:
            return dumper.represent_scalar(STR, text, style="|")
        return dumper.represent_scalar(STR, text)
    Dumper.add_representer(_Val, rep_val)

    class Loader(yaml.SafeLoader):
        pass
    Loader.add_constructor(PY2_TAG, lambda loader, node: node.value)
    marked = _mark(data, rev=mode == "revkeys", share={} if mode == "alias" else None)
    try:
        text = yaml.dump(marked, Dumper=Dumper, default_flow_style=True if flow else False,
                         allow_unicode=allow_unicode, sort_keys=sort_keys and mode != "revkeys")
        back = yaml.load(text, Loader=Loader)
        return text if back == data and fw.canon(back) == fw.canon(data) else None
    except Exception:
        return None


def scalar_json(data, mode, compact, raw_unicode):
    """JSON text of `data` with the scalars spelled by `mode` (None if the mode does not apply)."""
    import re
    table = []

    def walk(val):
        if isinstance(val, dict):
            items = [(k, walk(v)) for k, v in val.items()]
            return dict(reversed(items) if mode == "revkeys" else items)
        if isinstance(val, list):
            return [walk(v) for v in val]
        if isinstance(val, str) and mode in ("uescape", "slash") or \
                isinstance(val, float) and mode == "exp" and val == val and abs(val) != float("inf"):
            table.append(val)
            return u"@@C17S%d@@" % (len(table) - 1)
        return val

    def spell(match):
        val = table[int(match.group(1))]
        if isinstance(val, float):
            return u"%.17E" % val
        if mode == "slash":
            return json.dumps(val, ensure_ascii=not raw_unicode).replace(u"/", u"\\/")
        units = val.encode("utf-16-be", "surrogatepass")
        return u'"%s"' % u"".join(u"\\u%02x%02x" % (units[i], units[i + 1]) for i in range(0, len(units), 2))
    try:
        if u"@@C17S" in json.dumps(data):
            return None
        if compact:
            text = json.dumps(walk(data), separators=(",", ":"), ensure_ascii=not raw_unicode)
        else:
            text = json.dumps(walk(data), indent=1, ensure_ascii=not raw_unicode) + u"\n"
        text = re.sub(u'"@@C17S(\\d+)@@"', spell, text)
        back = json.loads(text)
        return text if back == data and fw.canon(back) == fw.canon(data) else None
    except Exception:
        return None


def shape_xml(text, shape, old):
    if shape.get("scalar"):
        text = scalar_xml(text, shape["scalar"])
    ver = shape.get("ver")
    if old and ver:
        root = {"absent": u"<odML>", "1.0": u'<odML version="1.0">', "sq": u"<odML version='1'>",
                "attr": u'<odML version="1" xmlns:x="http://example.org/x">',
                "spaced": u'<odML  version = "1" >'}[ver]
        text = text.replace(u'<odML version="1">', root, 1)
    pro = shape.get("prolog")
    head, sep, rest = text.partition(u"?>\n")
    if not sep:
        head, rest = u"", text
    else:
        head = head + sep
    if pro == "nodecl":
        text = rest
    elif pro == "pi":
        text = head + u'<?xml-stylesheet type="text/xsl" href="odmlTerms.xsl"?>\n' + rest
    elif pro == "comment":
        text = head + u"<!-- exported on day one -->\n" + rest + u"<!-- end -->\n"
    elif pro == "doctype":
        text = head + u"<!DOCTYPE odML>\n" + rest
    elif pro == "crlf":
        text = text.replace(u"\n", u"\r\n")
    elif pro == "nonl":
        text = text.rstrip(u"\n")
    return text


def shape_dict(kind, data, shape, raw_unicode):
    """JSON / YAML text of the dictionary `data` in the spelling `shape`."""
    ver = shape.get("ver")
    if kind in OLD_KINDS and ver:
        data = dict(data)
        if ver == "absent":
            data.pop("odml-version", None)
        elif ver == "first":
            data = dict([("odml-version", data.get("odml-version", "1"))] + [(k, v) for k, v in data.items()
                                                                            if k != "odml-version"])
        else:
            data["odml-version"] = {"1.0": u"1.0", "int": 1, "float": 1.0}[ver]
    pro = shape.get("prolog")
    text = None
    if shape.get("scalar") and kind in ("json10", "json11"):
        text = scalar_json(data, shape["scalar"], pro == "compact", raw_unicode)
    elif shape.get("scalar"):
        text = scalar_yaml(data, shape["scalar"], pro == "flow", bool(raw_unicode), ver != "first")
    if text is not None:
        pass
    elif kind in ("json10", "json11"):
        if pro == "compact":
            text = json.dumps(data, separators=(",", ":"), ensure_ascii=not raw_unicode)
        else:
            text = json.dumps(data, indent=1, ensure_ascii=not raw_unicode) + u"\n"
    else:
        import yaml
        text = yaml.safe_dump(data, default_flow_style=True if pro == "flow" else False,
                              allow_unicode=bool(raw_unicode), sort_keys=ver != "first")
        if pro == "docstart":
            text = u"%YAML 1.1\n---\n" + text + u"...\n"
        elif pro == "comment":
            text = u"# exported on day one\n" + text
    if pro == "crlf":
        text = text.replace(u"\n", u"\r\n")
    return text


def content(kind, tag, doc=None, shape=None, variant=None):
    import odml
    from odml.tools.odmlparser import ODMLWriter
    if variant is None:                         # which of the texts of its kind an unconvertible file holds
        variant = sum(ord(ch) for ch in tag)
    if shape:
        # (the plain spelling is produced by the code below, byte for byte as before)
        if kind in XML_SHAPED:
            return shape_xml(content(kind, tag, doc), shape, kind in OLD_KINDS)
        if kind in DICT_SHAPED:
            plain = content(kind, tag, doc)
            if kind in ("json10", "json11"):
                data = json.loads(plain)
            else:
                import yaml
                data = yaml.safe_load(plain)
            return shape_dict(kind, data, shape, any(ord(ch) > 127 for ch in plain))
    if doc is not None:
        return render_doc(kind, doc, tag)
    if kind == "xml10":
        return V10_XML % {"tag": tag}
    if kind == "xml10w":
        return V10_XML_WIDE % {"tag": tag}
    if kind == "xml11w":
        doc = odml.Document(author=u"Ren\u00e9 \u20ac " + tag)
        sec = odml.Section(name="sec_" + tag, type="mainsec", parent=doc)
        odml.Property(name="prop_" + tag, values=[u"\u00e9\u20ac\u4e2d"], parent=sec)
        return u'<?xml version="1.0" encoding="UTF-8"?>\n' + ODMLWriter("XML").to_string(doc)
    if kind == "json10":
        return V10_JSON % {"tag": tag}
    if kind == "yaml10":
        return V10_YAML % {"tag": tag}
    if kind in ("xml11", "odml11", "json11", "yaml11"):
        doc = odml.Document(author="author_" + tag)
        sec = odml.Section(name="sec_" + tag, type="mainsec", parent=doc)
        odml.Property(name="prop_" + tag, values=[1], parent=sec)
        if kind in ("xml11", "odml11"):
            return u'<?xml version="1.0" encoding="UTF-8"?>\n' + ODMLWriter("XML").to_string(doc)
        return ODMLWriter("JSON" if kind == "json11" else "YAML").to_string(doc)
    if kind.startswith("empty"):
        return u""
    if kind.startswith("text"):
        return TEXTS[variant % len(TEXTS)] % {"tag": tag}
    if kind == "xml10b":
        return V10_XML % {"tag": tag}
    if kind == "xml10l":
        return V10_XML.replace(u"UTF-8", u"ISO-8859-1").replace(u"author_%(tag)s", u"René %(tag)s") \
            .replace(u"<value>1<type>int</type></value>", u"<value>éü<type>string</type></value>") % {"tag": tag}
    if kind == "xml11u":
        return content("xml11", tag).replace(u'encoding="UTF-8"', u'encoding="UTF-16"')
    if kind.startswith("blank"):
        return u" \n\t\n  \n"
    if kind == "malformed":
        return MALFORMED % {"tag": tag}
    if kind == "othervocab":
        return OTHER_XMLS[variant % len(OTHER_XMLS)] % {"tag": tag}
    raise ValueError(kind)


def signature(path):
    """What a produced file holds: the canonical content (document attributes, sections, properties,
    dtypes, units, uncertainties, definitions, values) of the loaded document / parsed graph."""
    ext = os.path.splitext(path)[1]
    try:
        if ext in (".xml", ".odml"):
            import odml
            return tree_sig("DOC:", doc_tree(odml.load(path, "XML", show_warnings=False)))
        if ext in RDF_BY_EXT:
            import rdflib
            graph = rdflib.Graph()
            if ext == ".trig":
                # a format with named graphs: read all of them and look at the triples together
                import warnings
                with warnings.catch_warnings():
                    warnings.simplefilter("ignore")
                    quads = rdflib.ConjunctiveGraph()
                    quads.parse(path, format="trig")
                    for triple in quads.triples((None, None, None)):
                        graph.add(triple)
            else:
                graph.parse(path, format=RDF_BY_EXT[ext])
            return tree_sig("RDF:", rdf_tree(graph))
        return "OTHER"
    except Exception as exc:
        return "UNREADABLE:" + fw.exc_name(exc)


def hashes(root):
    out = {}
    for cur, _dirs, names in os.walk(root):
        for name in names:
            path = os.path.join(cur, name)
            with io.open(path, "rb") as fh:
                out[os.path.relpath(path, root)] = hashlib.sha1(fh.read()).hexdigest()
    return out


def all_paths(root):
    out = set()
    for cur, dirs, names in os.walk(root):
        for name in dirs:
            out.add(os.path.relpath(os.path.join(cur, name), root) + "/")
        for name in names:
            out.add(os.path.relpath(os.path.join(cur, name), root))
    return out


# the trees are small and short-lived: a memory file system, where there is one, keeps the run time
# independent of the load on the disk
TMP_ROOT = "/dev/shm" if os.path.isdir("/dev/shm") and os.access("/dev/shm", os.W_OK | os.X_OK) else None
OLD_TIME = 946684800          # 2000-01-01: the mtime of every file present before a run, by default
NEW_TIME = 1262304000         # 2010-01-01
FAR_TIME = 4102444800         # 2100-01-01: later than any run of the check
# The time stamps the files carry when a run starts (case["times"]): a property of the history, not of the
# content - files restored from an archive keep old time stamps, clocks differ between machines, a
# checkout sets everything to "now".  Nothing in the property depends on them, so every relation
# between the time stamps of the inputs and of what the output location already holds is in scope:
# inputs older / newer than everything else, inputs or old outputs in the future, every file its own
# time (epoch 0, one second apart, around 2^31), realistic recent times.
TIME_POOL = [0, 1, OLD_TIME - 1, OLD_TIME, OLD_TIME + 1, NEW_TIME, 2 ** 31 - 1, 2 ** 31 + 5, FAR_TIME]
TIME_MODES = ["old", "in_older", "in_newer", "in_future", "out_future", "mixed", "recent"]


def assigned_time(rel, is_input, times, now):
    mode = (times or {}).get("mode", "old")
    if mode == "in_older":
        return OLD_TIME if is_input else NEW_TIME
    if mode == "in_newer":
        return NEW_TIME if is_input else OLD_TIME
    if mode == "in_future":
        return FAR_TIME if is_input else OLD_TIME
    if mode == "out_future":
        return OLD_TIME if is_input else FAR_TIME
    if mode == "recent":                        # inputs two days old, everything else one day old
        return now - 172800 if is_input else now - 86400
    if mode == "mixed":
        digest = hashlib.sha1((u"%s:%s" % (times.get("salt", 0), rel)).encode("utf-8", "surrogatepass")).digest()
        return TIME_POOL[digest[0] % len(TIME_POOL)]
    return OLD_TIME


def age_files(root, times=None, in_prefix=None):
    """Snapshot {relative path: [sha1, mtime]} of all files under root.  Every file is given an explicit
    mtime that is never the time of the run (all OLD_TIME by default, else by the time profile of the
    case), so that a file written again with the same bytes is still seen as written."""
    import time
    now = int(time.time())
    snap = {}
    for rel, digest in hashes(root).items():
        stamp = assigned_time(rel, bool(in_prefix) and rel.startswith(in_prefix), times, now)
        os.utime(os.path.join(root, rel), (stamp, stamp))
        snap[rel] = [digest, stamp]
    return snap


def written_again(root, snap):
    """Files of the snapshot that were removed, changed or written again (mtime no longer the given one)."""
    out = []
    for rel, (digest, stamp) in sorted(snap.items()):
        path = os.path.join(root, rel)
        if not os.path.isfile(path):
            out.append(rel)
            continue
        with io.open(path, "rb") as fh:
            same = hashlib.sha1(fh.read()).hexdigest() == digest
        if not same or int(os.stat(path).st_mtime) != stamp:
            out.append(rel)
    return out


def run_guarded(fn):
    try:
        fn()
        return "ok"
    except BaseException as exc:         # SystemExit included: the tools call exit()
        return fw.exc_name(exc)


# The format converter takes every file of the directory whatever its name ends in: a valid XML file may
# carry no ending, another one, an upper-case one (spec["ext"], format converter streams only - the
# command line tools look for *.odml / *.xml / *.json / *.yaml).
FC_EXTS = ["", ".txt", ".XML", ".Xml", ".ODML", ".odml.bak", ".xml.", ".rdf", ".ttl"]


def file_name(spec):
    ext = spec.get("ext")
    return "%s%s" % (spec["stem"], KIND_EXT[spec["kind"]] if ext is None else ext)


def content_bytes(spec):
    kind = spec["kind"]
    if kind.startswith("binary"):
        return b"\x00\xff\xfe\x80PK\x03\x04\x00\xc3(" + spec["tag"].encode("utf-8") + b"\x00\n"
    if kind == "raw":                           # the bytes an earlier run has written (stream "runs", chains)
        import base64
        return base64.b64decode(spec["raw"])
    text = content(kind, spec["tag"], spec.get("doc"), spec.get("shape"), spec.get("variant"))
    if kind == "xml10l":
        return text.encode("iso-8859-1")
    if kind == "xml10b":
        return b"\xef\xbb\xbf" + text.encode("utf-8")
    if kind == "xml11u":
        return text.encode("utf-16")
    return text.encode("utf-8")


def write_inputs(in_dir, files):
    for spec in files:
        folder = os.path.join(in_dir, spec["sub"]) if spec["sub"] else in_dir
        if not os.path.isdir(folder):
            os.makedirs(folder)
        if spec["kind"].startswith("dir_"):
            if not os.path.isdir(os.path.join(folder, file_name(spec))):
                os.makedirs(os.path.join(folder, file_name(spec)))
            continue
        with io.open(os.path.join(folder, file_name(spec)), "wb") as fh:
            fh.write(content_bytes(spec))


def spec_rel(spec):
    return os.path.join(spec["sub"], file_name(spec)) if spec["sub"] else file_name(spec)


def diff_files(old, new):
    """The edits that bring an input directory from the state `old` to the state `new` (lists of file
    specs): paths to remove (gone, or a directory where a file comes / a file where a directory comes)
    and specs to write (new or with other content)."""
    old_map = dict((spec_rel(s), s) for s in old)
    new_map = dict((spec_rel(s), s) for s in new)
    is_dir = lambda s: s["kind"].startswith("dir_")
    remove = sorted(rel for rel, s in old_map.items()
                    if rel not in new_map or is_dir(s) != is_dir(new_map[rel]))
    write = [s for rel, s in sorted(new_map.items()) if old_map.get(rel) != s]
    return {"remove": remove, "write": write}


def apply_edits(in_dir, edits):
    for rel in edits.get("remove", []):
        path = os.path.join(in_dir, rel)
        if os.path.isdir(path):
            shutil.rmtree(path)
        elif os.path.lexists(path):
            os.remove(path)
    write_inputs(in_dir, edits.get("write", []))


def cli_module(tool):
    if tool == "convert":
        from odml.scripts import odml_convert as mod
    else:
        from odml.scripts import odml_to_rdf as mod
    return mod


def canon_out(rel):
    """Path relative to the out root with the two mkdtemp names replaced (by position, not by prefix)."""
    parts = rel.split(os.sep)
    if len(parts) >= 2:
        parts[0] = "OUT"
    if len(parts) >= 3:
        parts[1] = "RDF"
    return "/".join(parts)


_ALONE = {}


def alone_spec(spec):
    """The file of `spec` as the only file of a directory: same kind, content, spelling and ending under
    the neutral names STEMX / TAGX (a file copied from the output of an earlier run keeps its bytes)."""
    one = {"stem": "STEMX", "kind": spec["kind"], "tag": "TAGX", "sub": ""}
    for key in ("doc", "shape", "ext", "raw", "variant"):
        if spec.get(key) is not None:
            one[key] = spec[key]
    if spec["kind"].startswith("text") or spec["kind"] == "othervocab":
        # (the text of these kinds is picked by the tag: the same text under the neutral tag)
        one.setdefault("variant", sum(ord(ch) for ch in spec["tag"]) % (len(TEXTS) * len(OTHER_XMLS)))
    return one


def alone_cli(tool, spec):
    """Outputs (canonical path -> signature) of running the tool on a directory holding one file of
    this kind (stem 'STEMX', tag 'TAGX'; rendered from the abstract document if there is one)."""
    one = alone_spec(spec)
    key = (tool, fw.canon(one))
    if key in _ALONE:
        return _ALONE[key]
    base = tempfile.mkdtemp(prefix="c17a_", dir=TMP_ROOT)
    try:
        in_dir = os.path.join(base, "in")
        out_root = os.path.join(base, "o")
        os.makedirs(out_root)
        write_inputs(in_dir, [one])
        res = run_guarded(lambda: cli_module(tool).main(["-o", out_root, in_dir]))
        outs = {}
        for rel in hashes(out_root):
            outs[canon_out(rel)] = signature(os.path.join(out_root, rel))
        _ALONE[key] = {"result": res, "outs": outs}
    finally:
        shutil.rmtree(base, ignore_errors=True)
    return _ALONE[key]


def alone_fc(fmt, spec):
    one = alone_spec(spec)
    key = ("fc", fmt, fw.canon(one))
    if key in _ALONE:
        return _ALONE[key]
    from odml.tools.converters import FormatConverter
    base = tempfile.mkdtemp(prefix="c17a_", dir=TMP_ROOT)
    try:
        in_dir = os.path.join(base, "in")
        out_dir = os.path.join(base, "o")
        os.makedirs(out_dir)
        write_inputs(in_dir, [one])
        res = run_guarded(lambda: FormatConverter.convert_dir(in_dir, out_dir, False, fmt))
        outs = {}
        for rel in hashes(out_dir):
            outs[rel] = signature(os.path.join(out_dir, rel))
        _ALONE[key] = {"result": res, "outs": outs}
    finally:
        shutil.rmtree(base, ignore_errors=True)
    return _ALONE[key]


def subst(text, spec):
    return text.replace("STEMX", spec["stem"]).replace("TAGX", spec["tag"])


def locale_child(case):
    """Runs in a child interpreter started with an ASCII locale (see C17.impl_locale)."""
    import locale
    chk = C17()
    subs = []
    for sub in case["cases"]:
        with fw.quiet():
            subs.append(chk.impl(sub))
    return {"encoding": locale.getpreferredencoding(False), "subs": subs}


class C17(fw.Check):
    prop = "C17"
    lean_targets = ["OdmlModel.Props.C17"]
    obligations = ["C17." + t for t in [
        "batch_never_raises_convert", "batch_never_raises_rdf", "batch_outputs_only_in_out_convert",
        "batch_outputs_only_in_out_rdf", "batch_inputs_unchanged_convert", "batch_inputs_unchanged_rdf",
        "batch_isolation_convert", "convertible_file_gets_output", "batch_isolation_rdf",
        "legacy_rdf_name_collision", "fixed_rdf_name_witness", "convert_dir_mapping",
        "convert_dir_output_under_out", "convert_dir_frame",
        "batch_outputs_only_in_out_convert_dir", "batch_inputs_unchanged_convert_dir",
        "legacy_unmatched_overwrites_input", "legacy_convert_dir_clobbers_inputs",
        "fixed_convert_dir_witness", "legacy_literal_replaces_every_occurrence",
        "batch_isolation_rdf_base_names", "exportable_file_gets_rdf", "converted_file_gets_rdf",
        "implicit_output_location",
        "batch_inputs_unchanged_convert_dir_implicit",
        "convert_dir_output_current", "convert_dir_output_current_render", "convert_dir_output_current_v1_1",
        "convert_dir_rerun_after_edit", "convert_dir_rerun_witness",
        "discover_complete", "discover_sound", "discover_nodup", "main_convert_file_gets_output",
        "main_rdf_file_gets_rdf", "main_rdf_converted_file_gets_rdf",
        "discover_tool_named_directories_witness"]]
    trusted_base = [
        "Lean 4.33.0 kernel; axioms propext, Classical.choice, Quot.sound only (audited per theorem)",
        "hand-written model lean/OdmlModel/Model/Batch.lean, tied to the repository by this correspondence run",
        "Driver/*.lean JSON glue; harness/framework.py, harness/c17.py",
        "tempfile.mkdtemp freshness, os.walk / os.listdir enumerating exactly the entries present (pathlib.glob / "
        "rglob over them is modelled by Batch.discover and compared with pathlib on every command line case)",
        "lxml / json / PyYAML / rdflib for reading the produced files",
    ]
    assumptions = [
        "what converting one file does depends on that file only (path and bytes); includes/terminologies "
        "that need the network are kept out of the inputs",
        "base names (without extension) are unique within a run, as the property says",
        "the output location is outside the input tree",
    ]
    rule = ("random directory trees from the ten file kinds (several extensions each), 1-6 files, nested "
            "sub-directories, input directory names with regex metacharacters, recursive on/off, explicit / "
            "implicit output directory; both command line tools through main(argv) and FormatConverter "
            "through convert_dir and convert (argparse) for v1_1, odml and seven RDF formats; plus a "
            "differential stream for the path arithmetic (stem, splitext, join, output naming). Half of the valid "
            "files are rendered from random abstract documents (nesting, every dtype, boundary values, moved / "
            "renamed attributes) and every output is compared with the content of its source; other encodings, "
            "binary / blank files and directories named like files; directory arguments absolute / relative / "
            "dotted; exotic base names; stream 'runs': 2-5 runs in one process sharing output root / working "
            "directory / output directory, with older material there; between the runs the input directories "
            "are edited (files replaced by other revisions / other kinds, added, removed) and every run starts "
            "from its own time stamps (inputs older / newer than old results, future, epoch 0, mixed); the "
            "format converter run five times into one location for every target format (twelve, trig included); "
            "child interpreter with an ASCII locale and a fixed hash seed. Directory names like the tools' own "
            "output directories / hidden / temporary names at every level and for the output location; pipelines "
            "(a run over the output directory of an earlier run: odmlconvert -> odmltordf / format converter, "
            "converter v1_1 / odml -> command line tools); spellings of valid files (version absent / 1.0 / a "
            "number, prolog variants, CRLF, flow style); the loop of the command line tools entered directly with "
            "shuffled lists; option spellings; the tool started inside the searched directory; refused calls "
            "between proper runs. Spellings of the single values (YAML tags incl. python/unicode, quoting, block "
            "scalars, aliases, JSON escapes / exponents, key order, XML CDATA / character references / white space) "
            "for every valid kind, both tools and the converter, also in a newly started interpreter. "
            "Non-trivial = "
            "at least one output was produced and at least one file was skipped / refused, or the tree is "
            "nested; distinct = distinct canonical JSON of the case.")

    # -- generation ----------------------------------------------------------
    def files(self, rng, kinds, nmax, nested, prefix=""):
        n = rng.randrange(1, nmax + 1)
        if rng.random() < 0.04:
            n = 12                                  # more than ten files (f10, f11 next to f01)
        toolish = rng.random() < 0.25
        out = []
        for i in range(n):
            sub = ""
            if nested and rng.random() < 0.5:
                # (one tree in four uses directory names that look like the tools' own: TOOL_SUB_NAMES)
                names = SUB_NAMES + TOOL_SUB_NAMES * 2 if toolish else SUB_NAMES
                sub = "/".join(rng.choice(names) for _ in range(rng.choice([1, 1, 2, 2, 2, 4])))
            kind = rng.choice(kinds)
            stem = "f%02d_%s" % (i, kind.replace("_", ""))
            if rng.random() < 0.3:
                stem = rng.choice(STEM_FORMS) % i
            spec = {"stem": prefix + stem, "kind": kind, "tag": "t%d" % rng.randrange(100), "sub": sub}
            if kind in DOC_KINDS and rng.random() < 0.5:
                spec["doc"] = gen_doc(rng)      # content of the valid file: see "abstract documents"
            if shape_family(kind) and rng.random() < 0.4:
                shape = gen_shape(rng, kind)    # spelling of the valid file: see "file shapes"
                if shape:
                    spec["shape"] = shape
            out.append(spec)
        if len(out) >= 2 and rng.random() < 0.12:
            # a name that is another name followed by "_conv" (the name odmlconvert / odmltordf give to
            # the converted file): still unique base names, every file must get its own outputs
            a, b = rng.sample(range(len(out)), 2)
            out[b]["stem"] = out[a]["stem"] + "_conv"
        elif len(out) >= 2 and rng.random() < 0.08:
            # two names that differ in upper / lower case only (distinct names on the file systems used here)
            a, b = rng.sample(range(len(out)), 2)
            if out[a]["stem"].swapcase() != out[a]["stem"]:
                out[b]["stem"] = out[a]["stem"].swapcase()
        rng.shuffle(out)
        return out

    @staticmethod
    def dir_name(rng):
        """Name of the directory given to the tool (relative to the private base directory): plain, with
        regex metacharacters, named like the tools' own directories, and below such directories."""
        pick = rng.random()
        name = rng.choice(DIR_NAMES) if pick < 0.6 else rng.choice(TOOL_DIR_NAMES)
        if rng.random() < 0.15:
            name = "%s/%s" % (rng.choice(PARENT_NAMES), name)
        return name

    def edit_files(self, rng, files, kinds, prefix):
        """The next state of an input directory: 1-3 of {a file replaced by another revision (other
        tag / other abstract document / the earlier text again), a file replaced by a file of another
        kind under the same base name (other extension, valid <-> unconvertible where the kinds
        allow it), a file added, a file removed}.  Base names stay unique."""
        out = [dict(spec) for spec in files]
        for _ in range(rng.choice([1, 1, 2, 3])):
            op = rng.choice(["revise", "revise", "revise", "rekind", "add", "remove"])
            if op == "remove":
                if len(out) > 1:
                    out.pop(rng.randrange(len(out)))
                continue
            if op == "add":
                taken = set(spec["stem"] for spec in out)
                num = len(out)
                while "%sn%02d" % (prefix, num) in taken:
                    num += 1
                spec = {"stem": "%sn%02d" % (prefix, num), "kind": rng.choice(kinds), "tag": "t%d" % rng.randrange(100),
                        "sub": rng.choice([""] + [s["sub"] for s in out])}
            else:
                idx = rng.randrange(len(out))
                spec = dict(out.pop(idx))
                spec.pop("doc", None)
                spec.pop("shape", None)
                spec["tag"] = rng.choice(["r%d" % rng.randrange(100), files[0]["tag"]])
                if op == "rekind":
                    spec["kind"] = rng.choice(kinds)
            if spec["kind"] in DOC_KINDS and rng.random() < 0.5:
                spec["doc"] = gen_doc(rng)
            if shape_family(spec["kind"]) and rng.random() < 0.3:
                shape = gen_shape(rng, spec["kind"])
                if shape:
                    spec["shape"] = shape
            out.append(spec)
        return out

    def gen_runs(self, rng, focused=False):
        """2-5 runs in one process.  Input directories of three flavours (any kinds for the command
        line tools; XML of one version so that the format converter can take them); the command
        line runs share one output root (explicit, or the working directory), the converter runs
        share one explicit output directory or use <input>_<format>; the output locations may hold
        older material (directories and files named like outputs, results of earlier runs)."""
        # Between two runs over the same input directory the directory may be edited (edit_files), and
        # every run starts from its own time stamps (TIME_MODES): the history of a directory that is
        # converted again and again.  `focused`: one input directory and one tool configuration for
        # all runs (same format or a format with the same file ending, same output location), so
        # that the later runs meet the results of the earlier ones.
        KINDS = {"mixed": CLI_KINDS, "old_xml": ["xml10", "xml10w", "xml10b", "xml10l"],
                 "new_xml": ["xml11", "odml11", "xml11w", "xml11u"]}
        inputs = []
        for j in range(1 if focused else rng.randrange(1, 4)):
            flavour = rng.choice(["mixed", "old_xml", "new_xml", "new_xml"] if focused else
                                 ["mixed", "mixed", "old_xml", "new_xml"])
            name = "in%d" % j if rng.random() < 0.7 else "%s%d" % (rng.choice(DIR_NAMES + TOOL_DIR_NAMES[:8]), j)
            inputs.append([name, flavour, self.files(rng, KINDS[flavour], 3, rng.random() < 0.3, prefix="i%d" % j)])
        one_root = rng.random() < 0.6
        runs = []
        seen = set()
        fixed = None
        for _ in range(rng.randrange(2, 6)):
            slot = rng.choice(inputs)
            name, flavour, files = slot
            edits = None
            if name in seen and rng.random() < (0.7 if focused else 0.4):
                files = self.edit_files(rng, files, KINDS[flavour], "i%s" % name[-1:])
                edits = diff_files(slot[2], files)
                slot[2] = files
            seen.add(name)
            if fixed is not None:
                run = dict(fixed, files=files)
                if run["stream"] == "fc" and rng.random() < 0.3:
                    run["fmt"] = FC_SIBLINGS.get(run["fmt"], run["fmt"])
                if rng.random() < 0.2:
                    run["recursive"] = not run["recursive"]
            elif flavour != "mixed" and rng.random() < (0.8 if focused else 0.5):
                fmt = "v1_1" if flavour == "old_xml" else rng.choice(FC_FORMATS[1:])
                run = {"stream": "fc", "fmt": fmt, "recursive": rng.random() < 0.6,
                       "explicit_out": rng.random() < 0.6, "in_name": name,
                       "entry": rng.choice(["convert_dir", "convert"]), "trailing_sep": rng.random() < 0.2,
                       "relative": rng.random() < 0.2, "files": files}
            else:
                run = {"stream": "cli", "tool": rng.choice(["convert", "rdf", "rdf"]),
                       "recursive": rng.random() < 0.6, "explicit_out": rng.random() < 0.6, "in_name": name,
                       "arg_style": rng.choice(ARG_STYLES), "files": files}
                if one_root:
                    run["root_name"] = "outroot"
            if focused and fixed is None:
                fixed = dict(run)
            run.pop("edits", None)
            run.pop("times", None)
            if edits and (edits["remove"] or edits["write"]):
                run["edits"] = edits
            if rng.random() < 0.75:
                run["times"] = {"mode": rng.choice(TIME_MODES), "salt": rng.randrange(1000)}
            if not focused and rng.random() < 0.08:
                # a call that cannot work, between the others (state left behind by a refused call)
                run["refuse"] = rng.choice(["no_out", "no_in", "in_is_file"])
                if run["refuse"] == "no_out":
                    run["explicit_out"] = True
            runs.append(run)
            if not focused and not run.get("refuse") and rng.random() < 0.3:
                runs.append(self.chain_run(rng, len(runs) - 1, run))
        pre = []
        if rng.random() < 0.6:
            stems = [f["stem"] for _n, _fl, fs in inputs for f in fs]
            for _ in range(rng.randrange(1, 5)):
                stem = rng.choice(stems)
                in_name = rng.choice(inputs)[0]
                pre.append(rng.choice([
                    # valid documents of unrelated content under the names of outputs, in the explicit
                    # and in the made-up output directory of the format converter
                    ["outdir/%s.xml" % stem, "DOC11:old"], ["outdir/%s.odml" % stem, "DOC11:old"],
                    ["%s_odml/%s.odml" % (in_name, stem), "DOC11:old"], ["%s_v1_1/%s.xml" % (in_name, stem), "DOC11:old"],
                    ["%s_turtle/%s.ttl" % (in_name, stem), "OLD"], ["%s_xml/keep.txt" % in_name, "OLD"],
                    ["outroot/odmlconv_old/%s_conv.xml" % stem, "OLD"], ["outroot/%s_conv.xml" % stem, "OLD"],
                    ["outroot/odmlconv_/", None], ["outroot/odmlconv_old/odmlrdf_old/%s.rdf" % stem, "OLD"],
                    ["cwd/odmlconv_old/odmlrdf_old/%s_conv.rdf" % stem, "OLD"], ["cwd/%s.rdf" % stem, "OLD"],
                    ["outdir/%s.xml" % stem, "OLD"], ["outdir/keep.txt", "OLD"], ["outdir/sub/%s.odml" % stem, "OLD"],
                    ["outroot/odmlrdf_/", None], ["outdir/%s.rdf" % stem, "OLD"]]))
        return {"stream": "runs", "pre": pre, "runs": runs}

    @staticmethod
    def chain_run(rng, idx, src):
        """The next tool of a pipeline: a run over the output directory of run `idx` (see chain_input).  Its
        own outputs go to another place than the outputs of the earlier run."""
        made_v11 = src["stream"] == "cli" or src.get("fmt") in ("v1_1", "odml")
        if rng.random() < (0.6 if made_v11 else 0.9):
            run = {"stream": "cli", "tool": rng.choice(["rdf", "rdf", "convert"]), "recursive": rng.random() < 0.5,
                   "explicit_out": rng.random() < 0.7, "arg_style": rng.choice(ARG_STYLES + ["here"])}
            if run["explicit_out"]:
                run["root_name"] = rng.choice(["outroot2", "outroot2", "outroot"])
        else:
            run = {"stream": "fc", "fmt": rng.choice(FC_FORMATS), "recursive": rng.random() < 0.5,
                   "explicit_out": rng.random() < 0.6, "entry": rng.choice(["convert_dir", "convert"]),
                   "trailing_sep": rng.random() < 0.2, "relative": rng.random() < 0.2, "out_name": "outdir2"}
        run["in_from"] = idx
        run["in_name"], run["files"] = src["in_name"], src["files"]     # (if the earlier run made no directory)
        return run

    def systematic_round5(self):
        """Fixed cases along the dimensions added after seeded round 5 (see design.d/C17.md)."""
        cases = []
        f = lambda stem, kind, tag, sub="", **kw: dict({"stem": stem, "kind": kind, "tag": tag, "sub": sub}, **kw)
        cli = lambda tool, files, **kw: dict({"stream": "cli", "tool": tool, "recursive": True, "explicit_out": True,
                                              "in_name": "in", "files": files}, **kw)
        fc = lambda fmt, files, **kw: dict({"stream": "fc", "fmt": fmt, "recursive": True, "explicit_out": True,
                                            "in_name": "in", "entry": "convert_dir", "trailing_sep": False,
                                            "files": files}, **kw)
        # (1) every spelling of every valid kind, between unconvertible files, through both tools and the
        # format converter: each of them is a convertible file and must get its output with its content
        shaped = {}
        for kind in DOC_KINDS:
            fam = shape_family(kind)
            forms = []
            if kind in OLD_KINDS:
                forms += [{"ver": v} for v in SHAPE_VER["xml" if fam == "xml" else "dict"]]
                forms.append({"ver": "absent", "prolog": SHAPE_PROLOG[fam][-1]})
            forms += [{"prolog": pro} for pro in SHAPE_PROLOG[fam]]
            shaped[kind] = [f("%s_%d" % (kind, i), kind, "t%d" % i, shape=shape) for i, shape in enumerate(forms)]
        bad = [f("bad1", "malformed", "t1"), f("bad2", "empty_json", "t2"), f("bad3", "text_yaml", "t3")]
        for tool in ("convert", "rdf"):
            for kind in DOC_KINDS:
                if kind in NEW_KINDS and tool == "convert":
                    continue
                files = shaped[kind][:len(shaped[kind]) // 2] + bad + shaped[kind][len(shaped[kind]) // 2:]
                cases.append(cli(tool, files, recursive=False))
        cases.append(fc("v1_1", shaped["xml10"]))
        for fmt in ("odml", "turtle", "xml"):
            cases.append(fc(fmt, shaped["xml11"] + shaped["odml11"], explicit_out=fmt != "odml"))
        # a version left out in a document with every dtype and boundary value
        for tool in ("convert", "rdf"):
            for kind in ("xml10", "json10", "yaml10"):
                cases.append(cli(tool, [f("full", kind, "t1", doc=full_doc(kind != "xml10"), shape={"ver": "absent"}),
                                        f("bad", "text", "t2")]))
        # (2) directories named like the tools' own: given on the command line, above it, below it
        tree = [f("a", "xml10", "t1"), f("b", "xml11", "t2", "odmlconv_zz"), f("c", "json10", "t3", ".hid/odmlrdf_q"),
                f("d", "yaml11", "t4", "sub_odml/out"), f("bad", "malformed", "t5", "odmlconv_")]
        for i, name in enumerate(TOOL_DIR_NAMES):
            for tool in ("convert", "rdf"):
                cases.append(cli(tool, tree, in_name=name, explicit_out=i % 3 != 0, recursive=i % 4 != 1))
            fmt = ["v1_1", "odml", "turtle", "xml"][i % 4]
            good = ["xml10", "xml10w"] if fmt == "v1_1" else ["xml11", "odml11"]
            cases.append(fc(fmt, [f("a", good[0], "t1"), f("b", good[1], "t2", "odmlconv_zz/in_%s" % fmt),
                                  f("c", good[0], "t3", ".hid")],
                            in_name=name, explicit_out=i % 2 == 0, entry=["convert_dir", "convert"][i % 2]))
        for i, parent in enumerate(PARENT_NAMES):
            for tool in ("convert", "rdf"):
                cases.append(cli(tool, tree, in_name="%s/%s" % (parent, ["in", "odmlconv_q1"][i % 2]),
                                 explicit_out=i % 2 == 0, recursive=i % 3 != 0,
                                 arg_style=(ARG_STYLES + ["here"])[i % 6]))
            cases.append(fc(["odml", "v1_1", "nt"][i % 3],
                            [f("a", "xml11", "t1"), f("b", "xml10" if i % 3 == 1 else "odml11", "t2", "s")],
                            in_name="%s/in" % parent, explicit_out=i % 2 == 1, relative=i % 4 == 0))
        for i, name in enumerate(TOOL_SUB_NAMES):
            for tool in ("convert", "rdf"):
                cases.append(cli(tool, [f("a", "xml10", "t1", name), f("b", "yaml11", "t2", "x/%s" % name),
                                        f("c", "json10", "t3", "%s/%s" % (name, name)), f("e", "empty", "t4")],
                                 in_name=DIR_NAMES[i % len(DIR_NAMES)]))
        # names of the output location
        for i, name in enumerate(OUT_NAMES):
            cases.append(cli(["convert", "rdf"][i % 2], tree, root_name=name, arg_style=ARG_STYLES[i % 5]))
            cases.append(fc(["v1_1", "ttl"][i % 2], [f("a", ["xml10", "xml11"][i % 2], "t1", "s/t")], out_name=name,
                            relative=i % 3 == 0))
        # (3) pipelines: the output directory of one run is the input directory of the next
        old_mix = [f("a", "xml10", "t1", shape={"ver": "absent"}), f("b", "json10", "t2"), f("c", "yaml10", "t3", "sub"),
                   f("k", "xml11", "t4"), f("bad", "malformed", "t5"), f("e", "empty_yaml", "t6"),
                   f("w", "xml10w", "t7")]
        old_xml = [f("a", "xml10", "t1"), f("b", "xml10w", "t2", "sub"), f("c", "xml10", "t3", "sub/x", shape={"prolog": "pi"})]
        new_xml = [f("a", "xml11", "t1"), f("b", "xml11w", "t2", "sub"), f("c", "odml11", "t3")]
        nxt_cli = lambda tool, **kw: dict({"stream": "cli", "tool": tool, "recursive": False, "explicit_out": True,
                                           "root_name": "outroot2", "in_from": 0}, **kw)
        nxt_fc = lambda fmt, **kw: dict({"stream": "fc", "fmt": fmt, "recursive": True, "explicit_out": True,
                                         "entry": "convert_dir", "trailing_sep": False, "out_name": "outdir2",
                                         "in_from": 0}, **kw)
        firsts = [cli("convert", old_mix), cli("convert", old_mix, explicit_out=False), cli("rdf", old_mix),
                  fc("v1_1", old_xml), fc("v1_1", old_xml, explicit_out=False), fc("odml", new_xml),
                  fc("odml", new_xml, explicit_out=False, entry="convert")]
        nexts = [nxt_cli("rdf"), nxt_cli("rdf", recursive=True, explicit_out=False), nxt_cli("convert", recursive=True),
                 nxt_cli("rdf", arg_style="here", opt_style="last"), nxt_cli("rdf", root_name="outroot", arg_style="rel"),
                 nxt_fc("odml"), nxt_fc("turtle", explicit_out=False), nxt_fc("v1_1", entry="convert"),
                 nxt_fc("xml", recursive=False, relative=True)]
        firsts.append(cli("convert", [f("full", "json10", "t8", doc=full_doc(True)), f("bad", "text_json", "t9")]))
        for i, first in enumerate(firsts):
            for j, nxt in enumerate(nexts):
                if (nxt["stream"] == "fc" and (i + j) % 2) or (i == len(firsts) - 1 and j not in (0, 5)):
                    continue
                second = dict(nxt, in_name=first["in_name"], files=first["files"])
                third = dict(nxt_cli("rdf", recursive=True, root_name="outroot3"), in_from=1,
                             in_name=first["in_name"], files=first["files"])
                runs = [first, second] + ([third] if second["stream"] == "fc" and second["fmt"] in ("odml", "v1_1") else [])
                cases.append({"stream": "runs", "pre": [], "runs": runs})
        # (4) refused calls between proper runs: missing output directory, missing input directory, a file
        # given as the directory
        for tool in ("convert", "rdf"):
            runs = [cli(tool, old_mix)]
            for how in ("no_out", "no_in", "in_is_file"):
                runs.append(cli(tool, old_mix, refuse=how))
                runs.append(cli(tool, old_mix, explicit_out=how != "no_in"))
            cases.append({"stream": "runs", "pre": [], "runs": runs})
        runs = [fc("v1_1", old_xml)]
        for how in ("no_out", "no_in", "in_is_file"):
            runs.append(fc("v1_1", old_xml, refuse=how, entry=["convert_dir", "convert"][how == "no_in"]))
            runs.append(fc("v1_1", old_xml, explicit_out=how != "no_in"))
        cases.append({"stream": "runs", "pre": [], "runs": runs})
        # (5) the loop of the command line tools entered directly: every order of good and bad files
        trio = [f("g1", "xml10", "t1"), f("bad", "malformed", "t2"), f("g2", "odml11", "t3"), f("g3", "xml10", "t4", shape={"ver": "absent"}),
                f("j1", "json10", "t5"), f("jbad", "text_json", "t6"), f("y1", "yaml11", "t7"), f("ybad", "empty_yaml", "t8")]
        for tool in ("convert", "rdf"):
            for perm in range(8):
                cases.append(cli(tool, trio, entry="run_conversion", perm=perm, recursive=False))
        # (6) spelling of the options; the tool started inside the directory it searches
        for tool in ("convert", "rdf"):
            for opts in ("last", "attached", "stacked"):
                cases.append(cli(tool, tree, opt_style=opts, arg_style=["abs", "rel"][opts == "attached"]))
            cases.append(cli(tool, tree, arg_style="here"))
            cases.append(cli(tool, tree, arg_style="here", recursive=False, in_name="odmlconv_here", opt_style="last"))
        for opts in ("long", "eq", "front"):
            cases.append(fc("odml", new_xml, entry="convert", opt_style=opts, explicit_out=opts != "front"))
        # (7) a large document (a hundred properties) next to a bad file
        big = {"author": u"author_TAGQ", "version": u"1", "date": None, "native": True, "first_only": False,
               "value_last": False, "raw_unicode": False,
               "sections": [{"name": u"s%d" % i, "type": u"t", "definition": None, "sections": [],
                             "props": [{"name": u"p%d_%d" % (i, j), "dtype": "int", "values": [i, j, i * j],
                                        "unit": None, "uncertainty": None, "definition": None} for j in range(4)]}
                            for i in range(25)]}
        cases.append(cli("convert", [f("big", "json10", "t1", doc=big), f("bad", "text_json", "t2")]))
        cases.append(cli("rdf", [f("big", "xml11", "t1", doc=big), f("bad", "text", "t2")]))
        return cases

    def systematic_round6(self):
        """Fixed cases along the dimensions added after seeded round 6 (see design.d/C17.md): every spelling
        of the scalars (SHAPE_SCALAR) of every valid kind, with the small fixed document and with the
        document that holds every dtype and boundary value, between unconvertible files, through both
        command line tools and the format converter; combined with the other spellings of round 5."""
        cases = []
        f = lambda stem, kind, tag, sub="", **kw: dict({"stem": stem, "kind": kind, "tag": tag, "sub": sub}, **kw)
        cli = lambda tool, files, **kw: dict({"stream": "cli", "tool": tool, "recursive": False, "explicit_out": True,
                                              "in_name": "in", "files": files}, **kw)
        fc = lambda fmt, files, **kw: dict({"stream": "fc", "fmt": fmt, "recursive": True, "explicit_out": True,
                                            "in_name": "in", "entry": "convert_dir", "trailing_sep": False,
                                            "files": files}, **kw)
        bad = [f("bad1", "malformed", "t1"), f("bad2", "text_json", "t2"), f("bad3", "text_yaml", "t3"),
               f("bad4", "empty_yaml", "t4")]
        # a document with equal entries (anchors / aliases), a "/" and text beyond the basic plane
        rep = {"author": u"J. Doe / TAGQ", "version": u"1", "date": u"2008-07-07", "native": True, "first_only": False,
               "value_last": False, "raw_unicode": True,
               "sections": [{"name": u"s_%d" % i, "type": u"rec/ording", "definition": u"same text", "sections": [],
                             "props": [{"name": u"p%d" % j, "dtype": "int", "values": [1, 1, 7], "unit": u"mV",
                                        "uncertainty": None, "definition": None} for j in range(2)] +
                                      [{"name": u"q", "dtype": "string", "values": [u"é€ \U0001F600 x", u"a/b", u"a/b"],
                                        "unit": None, "uncertainty": None, "definition": u"same text"},
                                       {"name": u"r", "dtype": "float", "values": [2.5, 1e-07, 2.5], "unit": None,
                                        "uncertainty": 0.5, "definition": None}]}
                            for i in range(2)]}
        for kind in DOC_KINDS:
            fam = shape_family(kind)
            modes = SHAPE_SCALAR[fam]
            small = [f("%s_%s" % (kind, m), kind, "t%d" % i, shape={"scalar": m}) for i, m in enumerate(modes)]
            # ... together with the version / prolog spellings of round 5
            mixed = [f("mix%d" % i, kind, "u%d" % i, doc=rep, shape=dict(
                {"scalar": m, "prolog": SHAPE_PROLOG[fam][i % len(SHAPE_PROLOG[fam])]},
                **({"ver": SHAPE_VER["xml" if fam == "xml" else "dict"][i % 5]} if kind in OLD_KINDS else {})))
                     for i, m in enumerate(modes)]
            full = [f("full_%s" % m, kind, "t1", doc=full_doc(fam != "xml"), shape={"scalar": m}) for m in modes]
            for tool in ("convert", "rdf"):
                if kind in NEW_KINDS and tool == "convert":
                    continue
                cases.append(cli(tool, small[:2] + bad + small[2:]))
                cases.append(cli(tool, bad[:2] + mixed + bad[2:], recursive=True, explicit_out=False))
                # (the large document costs a second per YAML file: the spellings that change the most)
                heavy = [x for x in full if (tool == "convert" and fam != "yaml") or x["shape"]["scalar"] in
                         ("py2", "strtag", "alias", "uescape", "exp", "cdata", "charref")]
                if fam == "yaml" and tool == "rdf":
                    heavy = heavy[:2] if kind in OLD_KINDS else heavy[::2]
                cases.append(cli(tool, heavy + bad[1:3]))
            if fam == "xml":
                fmts = ["v1_1"] if kind in OLD_KINDS else ["odml", "turtle", "xml"]
                for fmt in fmts:
                    cases.append(fc(fmt, small + mixed + full[:2], explicit_out=fmt != "odml"))
        # file endings of the format converter's inputs (none, upper case, several dots) x directory names
        # with dots at every level (input, explicit / made-up output directory, mirrored sub-directory):
        # both dimensions were random only, their crossing a matter of the seed
        for i, ext in enumerate(FC_EXTS):
            fmt = ["odml", "turtle", "v1_1", "xml", "nt"][i % 5]
            good = "xml10" if fmt == "v1_1" else "xml11"
            cases.append(fc(fmt, [f("meta", good, "t1", ext=ext), f("trial", good, "t2"),
                                  f("deep", good, "t3", "s.1/2020.01.15", ext=ext)],
                            in_name=["in.d", "rec.2020"][i % 2], explicit_out=i % 3 != 0, out_name="out.v%d" % i,
                            entry=["convert_dir", "convert"][i % 2]))
        # the loop entered directly: a file with tagged scalars first, last, between the others
        trio = [f("y0", "yaml10", "t1", shape={"scalar": "py2"}), f("y1", "yaml10", "t2"), f("ybad", "text_yaml", "t3"),
                f("y2", "yaml11", "t4", shape={"scalar": "py2mix"}), f("j1", "json10", "t5", shape={"scalar": "uescape"}),
                f("x1", "xml10", "t6", shape={"scalar": "cdata"})]
        for tool in ("convert", "rdf"):
            for perm in range(4):
                cases.append(cli(tool, trio, entry="run_conversion", perm=perm))
        # Process-level state: PyYAML keeps its tag constructors in class-level tables that every user of
        # the yaml module in the process shares, and the check itself runs hundreds of conversions in one
        # process.  So the same files also go through a *new* interpreter (ordinary UTF-8 environment and
        # ASCII locale), where a file with tagged scalars is the first YAML text the process ever reads -
        # by odmlconvert, by odmltordf (old and current version), next to plain files.
        wide = {"author": u"René TAGQ", "version": None, "date": None, "native": False, "raw_unicode": True,
                "sections": [{"name": u"sec_TAGQ", "type": u"mainsec", "definition": u"déf", "sections": [],
                              "props": [{"name": u"prop_TAGQ", "dtype": "string", "values": [u"é€", u"zero"],
                                         "unit": None, "uncertainty": None, "definition": None}]}]}
        fresh = [
            [cli("convert", [f("y0", "yaml10", "t1", shape={"scalar": "py2"}), f("bad", "text_yaml", "t2"),
                             f("x", "xml10", "t3")])],
            [cli("rdf", [f("y0", "yaml10", "t1", doc=wide, shape={"scalar": "py2mix"}), f("bad", "empty_yaml", "t2")])],
            [cli("rdf", [f("y1", "yaml11", "t1", shape={"scalar": "py2"}), f("y2", "yaml10", "t2", shape={"scalar": "strtag"})]),
             cli("convert", [f("y3", "yaml10", "t3", doc=wide, shape={"scalar": "py2", "ver": "absent"})])],
            [cli("convert", [f("j", "json10", "t1", shape={"scalar": "uescape"}), f("y", "yaml10", "t2", shape={"scalar": "alias"}),
                             f("x", "xml10", "t3", shape={"scalar": "charref"})]),
             fc("v1_1", [f("x", "xml10", "t3", shape={"scalar": "cdata"})])]]
        for i, subs in enumerate(fresh):
            cases.append({"stream": "locale", "cases": subs, "hashseed": i, "plain_env": i % 2 == 0})
        return cases

    def generate(self, tier, rng):
        cases = []
        ncli = 60 if tier == "quick" else 2500
        for tool in ("convert", "rdf"):
            for _ in range(ncli):
                nested = rng.random() < 0.6
                cases.append({"stream": "cli", "tool": tool, "recursive": rng.random() < 0.7,
                              "explicit_out": rng.random() < 0.6, "in_name": self.dir_name(rng),
                              "arg_style": rng.choice(ARG_STYLES + ["here"]),
                              "files": self.files(rng, CLI_KINDS, 6 if tool == "convert" else 4, nested)})
                if rng.random() < 0.3:             # time stamps of the inputs: epoch 0 ... 2100
                    cases[-1]["times"] = {"mode": rng.choice(["mixed", "in_future"]), "salt": rng.randrange(1000)}
                if tool == "convert" and rng.random() < 0.15:
                    cases[-1]["entry"] = "dep_note"
                elif rng.random() < 0.2:           # the loop entered directly, files in an order of its own
                    cases[-1]["entry"] = "run_conversion"
                    cases[-1]["perm"] = rng.randrange(1000)
                if rng.random() < 0.3:             # spelling of the options
                    cases[-1]["opt_style"] = rng.choice(["last", "attached", "stacked"])
                if rng.random() < 0.25:            # name of the output root (default: outroot / cwd)
                    cases[-1]["root_name"] = rng.choice(OUT_NAMES + [cases[-1]["in_name"].split("/")[0] + "2"])
                    if cases[-1]["root_name"] == cases[-1]["in_name"].split("/")[0]:
                        cases[-1].pop("root_name")
        # every bad kind between two good files, in both creation orders, for both tools
        bad_kinds = [k for k in CLI_KINDS if k.startswith(("empty", "text", "malformed", "othervocab"))]
        for tool in ("convert", "rdf"):
            for bad in bad_kinds:
                ext = KIND_EXT[bad]
                good = {".xml": "xml10", ".odml": "odml11", ".json": "json10", ".yaml": "yaml10"}[ext]
                trio = [{"stem": "g1", "kind": good, "tag": "t1", "sub": ""},
                        {"stem": "bad", "kind": bad, "tag": "t2", "sub": ""},
                        {"stem": "g3", "kind": "xml11" if ext in (".xml", ".odml") else good, "tag": "t3", "sub": ""},
                        {"stem": "g4", "kind": "xml10", "tag": "t4", "sub": ""}]
                for order in (trio, trio[::-1]):
                    cases.append({"stream": "cli", "tool": tool, "recursive": False, "explicit_out": True,
                                  "in_name": "in", "files": list(order)})
        # every dtype and every boundary value of the pools through every valid kind and both tools
        for tool in ("convert", "rdf"):
            for kind in DOC_KINDS:
                for native in (True, False):
                    if kind in NEW_KINDS and (tool == "convert" or not native):
                        continue
                    doc = full_doc(native, first_only=(kind == "yaml10"), value_last=(kind == "json10"))
                    cases.append({"stream": "cli", "tool": tool, "recursive": False, "explicit_out": True,
                                  "in_name": "in", "files": [{"stem": "full", "kind": kind, "tag": "t1", "sub": "",
                                                              "doc": doc}]})
        for fmt in FC_FORMATS:
            cases.append({"stream": "fc", "fmt": fmt, "recursive": False, "explicit_out": True, "in_name": "in",
                          "entry": "convert_dir", "trailing_sep": False,
                          "files": [{"stem": "full", "kind": "xml10" if fmt == "v1_1" else "xml11", "tag": "t1",
                                     "sub": "", "doc": full_doc(True)}]})
        # several runs one after the other in the same process, sharing output root / working
        # directory / explicit output directory, over the same or different input directories
        for tool in ("convert", "rdf"):
            for explicit in (True, False):
                two = [("in0", [{"stem": "a0", "kind": "xml10", "tag": "t1", "sub": ""},
                                {"stem": "b0", "kind": "xml11", "tag": "t2", "sub": ""}]),
                       ("in1", [{"stem": "a1", "kind": "json10", "tag": "t3", "sub": ""},
                                {"stem": "b1", "kind": "yaml11", "tag": "t4", "sub": "sub"}])]
                runs = []
                for idx in (0, 1, 0, 1, 1):
                    runs.append({"stream": "cli", "tool": tool, "recursive": len(runs) % 2 == 1,
                                 "explicit_out": explicit, "in_name": two[idx][0], "files": two[idx][1]})
                cases.append({"stream": "runs", "pre": [], "runs": runs})
        # no file at all, and no file at the top (all below, not recursive): nothing to do is not an error
        below = [{"stem": "a", "kind": "xml11", "tag": "t1", "sub": "sub"}, {"stem": "b", "kind": "xml10", "tag": "t2", "sub": "sub/x"}]
        for files in ([], below):
            for explicit in (True, False):
                for tool in ("convert", "rdf"):
                    cases.append({"stream": "cli", "tool": tool, "recursive": not files, "explicit_out": explicit,
                                  "in_name": "in", "files": files})
                for fmt in ("v1_1", "odml", "turtle"):
                    cases.append({"stream": "fc", "fmt": fmt, "recursive": not files, "explicit_out": explicit,
                                  "in_name": "in", "entry": "convert_dir", "trailing_sep": False, "files": files})
        # a directory converted again and again by the format converter into the same location, for
        # every target format, with the explicit and with the made-up output directory: first run;
        # `a` replaced by another revision, `b` removed, `c` added, all older than the results of the
        # first run; the first revision of `a` back in place (recent time stamps, inputs older);
        # `c` revised and - explicit directory - the format with the same file ending, old results
        # dated in the future; last run without any change, inputs newer
        f = lambda stem, kind, tag, sub="": {"stem": stem, "kind": kind, "tag": tag, "sub": sub}
        for fmt in FC_FORMATS:
            old = fmt == "v1_1"
            for explicit in (True, False):
                s0 = [f("a", "xml10" if old else "xml11", "t1"), f("b", "xml10w" if old else "odml11", "t2", "sub")]
                s1 = [f("a", "xml10" if old else "xml11", "t9"), f("c", "xml10" if old else "xml11w", "t3", "sub")]
                s2 = [s0[0], s1[1]]
                s3 = [s0[0], dict(f("c", "xml10" if old else "xml11", "t4", "sub"), doc=full_doc(True))]
                steps = [(s0, None, fmt), (s1, "in_older", fmt), (s2, "recent", fmt),
                         (s3, "out_future", FC_SIBLINGS.get(fmt, fmt) if explicit else fmt), (s3, "in_newer", fmt)]
                runs, prev = [], None
                for files, mode, run_fmt in steps:
                    run = {"stream": "fc", "fmt": run_fmt, "recursive": True, "explicit_out": explicit, "in_name": "in",
                           "entry": "convert" if len(runs) % 2 else "convert_dir", "trailing_sep": False, "files": files}
                    if prev is not None and prev != files:
                        run["edits"] = diff_files(prev, files)
                    if mode:
                        run["times"] = {"mode": mode, "salt": len(runs)}
                    runs.append(run)
                    prev = files
                pre = [] if fmt in ("v1_1", "odml") else [["outdir/a%s" % {"turtle": ".ttl"}.get(fmt, ".rdf"), "OLD"]]
                cases.append({"stream": "runs", "pre": pre, "runs": runs})
        # ... and by the two command line tools (every run makes its own new directory next to the old ones)
        for tool in ("convert", "rdf"):
            for explicit in (True, False):
                s0 = [f("a", "xml10", "t1"), f("b", "json10", "t2"), f("k", "yaml11", "t5", "sub"), f("bad", "malformed", "t6")]
                s1 = [f("a", "xml10", "t9"), f("c", "yaml10", "t3", "sub"), f("k", "yaml11", "t5", "sub"), f("bad", "xml10", "t6")]
                s2 = [s0[0], s1[1], f("k", "text_yaml", "t5", "sub"), f("bad", "xml11", "t7")]
                runs, prev = [], None
                for files, mode in ((s0, None), (s1, "in_older"), (s2, "recent"), (s2, "mixed")):
                    run = {"stream": "cli", "tool": tool, "recursive": True, "explicit_out": explicit, "in_name": "in",
                           "files": files}
                    if prev is not None and prev != files:
                        run["edits"] = diff_files(prev, files)
                    if mode:
                        run["times"] = {"mode": mode, "salt": len(runs)}
                    runs.append(run)
                    prev = files
                cases.append({"stream": "runs", "pre": [], "runs": runs})
        cases += self.systematic_round5()
        cases += self.systematic_round6()
        nruns = 30 if tier == "quick" else 1200
        for _ in range(nruns):
            cases.append(self.gen_runs(rng))
        for _ in range(40 if tier == "quick" else 1200):
            cases.append(self.gen_runs(rng, focused=True))
        nfc = 200 if tier == "quick" else 9000
        for _ in range(nfc):
            fmt = rng.choice(FC_FORMATS)
            good = FC_GOOD["v1_1" if fmt == "v1_1" else "other"]
            kinds = good * 4 + (FC_BAD if rng.random() < 0.25 else [])
            cases.append({"stream": "fc", "fmt": fmt, "recursive": rng.random() < 0.75,
                          "explicit_out": rng.random() < 0.6, "in_name": self.dir_name(rng),
                          "entry": rng.choice(["convert_dir", "convert_dir", "convert"]),
                          "trailing_sep": rng.random() < 0.2, "relative": rng.random() < 0.2,
                          "files": self.files(rng, kinds, 4, True)})
            if rng.random() < 0.3:
                cases[-1]["opt_style"] = rng.choice(["long", "eq", "front"])
            if rng.random() < 0.25:
                top = cases[-1]["in_name"].split("/")[0]
                cases[-1]["out_name"] = rng.choice(OUT_NAMES + [top + "2", top + "_" + fmt + "x"])
                if cases[-1]["out_name"] in (top, "%s_%s" % (top, fmt)):
                    cases[-1].pop("out_name")
            for spec in cases[-1]["files"]:
                # other file endings (not for names with a dot inside: "a.b0" / "a.b1" without an ending
                # would share the base name "a")
                if rng.random() < 0.15 and "." not in spec["stem"] and not spec["kind"].startswith("dir_"):
                    spec["ext"] = rng.choice(FC_EXTS)
            if rng.random() < 0.3:
                cases[-1]["times"] = {"mode": rng.choice(["mixed", "in_future"]), "salt": rng.randrange(1000)}
        # the tools in a child interpreter whose locale encoding is ASCII, on files with wide text
        f = lambda stem, kind, tag, sub="": {"stem": stem, "kind": kind, "tag": tag, "sub": sub}
        wide = [f("w1", "xml10w", "t1"), f("w2", "xml11w", "t2", "sub"), f("a3", "json10", "t3"),
                f("bad", "malformed", "t4")]
        subs = [{"stream": "cli", "tool": "convert", "recursive": True, "explicit_out": True, "in_name": "in",
                 "files": wide},
                {"stream": "cli", "tool": "rdf", "recursive": True, "explicit_out": False, "in_name": "in(1)",
                 "files": wide}]
        for fmt, kinds in (("v1_1", ["xml10w", "xml11w"]), ("odml", ["xml11w", "xml11"]),
                           ("turtle", ["xml11w"]), ("xml", ["xml11w", "odml11"]), ("nt", ["xml11w"])):
            subs.append({"stream": "fc", "fmt": fmt, "recursive": True, "explicit_out": fmt != "odml",
                         "in_name": "in+w", "entry": "convert_dir", "trailing_sep": False,
                         "files": [f("w%d" % i, k, "t%d" % i, "sub" if i else "") for i, k in enumerate(kinds)]})
        cases.append({"stream": "locale", "cases": subs, "hashseed": rng.randrange(1, 4000)})
        # ... and on JSON / YAML files that hold their non-ASCII text as UTF-8 (not as \u escapes),
        # next to the same documents in pure ASCII
        def wide_doc(raw):
            return {"author": u"René TAGQ", "version": None, "date": None, "native": True, "raw_unicode": raw,
                    "sections": [{"name": u"sec_TAGQ", "type": u"mainsec", "definition": None, "sections": [],
                                  "props": [{"name": u"prop_TAGQ", "dtype": "string", "values": [u"é€", u"zero"],
                                             "unit": None, "uncertainty": None, "definition": None},
                                            {"name": u"count", "dtype": "int", "values": [0], "unit": u"µm",
                                             "uncertainty": None, "definition": None}]}]}
        utf = [dict(f("u%d" % i, kind, "t%d" % i), doc=wide_doc(True))
               for i, kind in enumerate(["json10", "yaml10", "json11", "yaml11"])] + \
              [dict(f("e%d" % i, kind, "t%d" % i), doc=wide_doc(False))
               for i, kind in enumerate(["json10", "yaml10", "json11", "yaml11", "xml10", "xml11"])]
        cases.append({"stream": "locale", "cases": [
            {"stream": "cli", "tool": "convert", "recursive": False, "explicit_out": True, "in_name": "in", "files": utf},
            {"stream": "cli", "tool": "rdf", "recursive": False, "explicit_out": True, "in_name": "in", "files": utf}],
            "hashseed": 0})
        npath = 400 if tier == "quick" else 5000
        alpha = ["a", "b", ".", "/", "x", "_conv", ".xml", ".odml", ".ttl", "+", " "]
        for _ in range(npath):
            s = "".join(rng.choice(alpha) for _ in range(rng.randrange(0, 7)))
            t = "".join(rng.choice(alpha) for _ in range(rng.randrange(0, 4)))
            cases.append({"stream": "paths", "a": s, "b": t})
        return cases

    # -- implementation ------------------------------------------------------
    def impl_locale(self, case):
        code = ("import sys, json; sys.path.insert(0, %r); import c17; "
                "print('RESULT' + json.dumps(c17.locale_child(json.loads(sys.stdin.read()))))"
                % os.path.dirname(os.path.abspath(__file__)))
        env = dict(os.environ, PYTHONUTF8="0", PYTHONCOERCECLOCALE="0", LC_ALL="C", LANG="C",
                   ODML_REPO=fw.REPO, PYTHONDONTWRITEBYTECODE="1")
        if case.get("plain_env"):                  # a new interpreter in the environment of the check itself
            env = dict(os.environ, ODML_REPO=fw.REPO, PYTHONDONTWRITEBYTECODE="1")
        if case.get("hashseed") is not None:       # process-level state: the order of sets / dicts of str
            env["PYTHONHASHSEED"] = str(case["hashseed"])
        proc = subprocess.run([sys.executable, "-c", code], input=json.dumps(case).encode("ascii"),
                              env=env, stdout=subprocess.PIPE, stderr=subprocess.PIPE, timeout=900)
        for line in proc.stdout.decode("ascii", "replace").splitlines():
            if line.startswith("RESULT"):
                return json.loads(line[len("RESULT"):])
        raise RuntimeError("child interpreter gave no result: %s" % proc.stderr.decode("ascii", "replace")[-600:])

    def impl(self, case):
        if case["stream"] == "locale":
            return self.impl_locale(case)
        if case["stream"] == "paths":
            a, b = case["a"], case["b"]
            return {"stem": os.path.splitext(os.path.basename(a))[0], "splitext": list(os.path.splitext(a)),
                    "basename": os.path.basename(a), "join": os.path.join(a, b),
                    "dirname": os.path.dirname(a)}
        base = os.path.realpath(tempfile.mkdtemp(prefix="c17_", dir=TMP_ROOT))
        old_cwd = os.getcwd()
        try:
            if case["stream"] == "cli":
                return self.impl_cli(base, case)
            if case["stream"] == "runs":
                return self.impl_runs(base, case)
            return self.impl_fc(base, case)
        finally:
            os.chdir(old_cwd)
            shutil.rmtree(base, ignore_errors=True)

    def impl_runs(self, base, case):
        for rel, text in case["pre"]:
            path = os.path.join(base, rel)
            if rel.endswith("/"):
                if not os.path.isdir(path):
                    os.makedirs(path)
                continue
            if not os.path.isdir(os.path.dirname(path)):
                os.makedirs(os.path.dirname(path))
            if text.startswith("DOC11:"):       # a valid current-version document of unrelated content
                text = content("xml11", text[len("DOC11:"):])
            with io.open(path, "w", encoding="utf-8") as fh:
                fh.write(text)
        subs = []
        effective = []
        for sub in case["runs"]:
            derived = None
            if sub.get("in_from") is not None and sub["in_from"] < len(subs):
                derived = self.chain_input(base, effective[sub["in_from"]], subs[sub["in_from"]])
            if derived:
                sub = dict(sub, **derived)
                sub.pop("edits", None)
            effective.append(sub)
            obs = self.impl_cli(base, sub) if sub["stream"] == "cli" else self.impl_fc(base, sub)
            if derived:
                obs["effective"] = derived
            subs.append(obs)
            os.chdir(base)
        return {"subs": subs}

    # Pipelines: a run whose input directory is the output directory of an earlier run of the case
    # (run["in_from"] = its index) - odmlconvert, then odmltordf or the format converter over the
    # directory odmlconvert has made, the format converter to v1_1, then odmltordf over the result, ...
    # The files found there become the file specs of the run: kind "raw" (the bytes as they are), named
    # as they are; a file that is the converted form of a valid source file is a valid current-version
    # file with the content of that source ("as_kind", "doc", "tag"), so the run must give it its output
    # with that content.  Without an output directory of the earlier run the run is an ordinary one
    # over the input directory named in the case.
    def chain_input(self, base, src_case, src_obs):
        import base64
        if src_case.get("refuse"):
            return None
        if src_case["stream"] == "cli":
            conv = [d for d in src_obs["out_dirs"] if d.startswith(src_obs["out_root"] + "/")
                    and d.count("/") == src_obs["out_root"].count("/") + 2]
            where = os.path.join(base, conv[0][:-1]) if len(conv) == 1 else None
        else:
            where = self.fc_out_dir(src_case, src_obs)
        if not where or not os.path.isdir(where):
            return None
        # which file of the directory is the converted form of which source: by the path the earlier run
        # gives to the output of that source, and only if that run has written the file (a file of the same
        # name that was there before, or that a still earlier run has left, is just a file)
        origin = {}
        for spec in src_case["files"]:
            if spec["sub"] and not src_case["recursive"]:
                continue
            kind = spec.get("as_kind") or spec["kind"]
            if src_case["stream"] == "cli" and kind in OLD_KINDS:
                origin[spec["stem"] + "_conv.xml"] = spec
            elif src_case["stream"] == "fc" and src_case["fmt"] == "v1_1" and kind in FC_GOOD["v1_1"] \
                    and file_name(spec).endswith((".xml", ".odml")):
                origin[os.path.join(spec["sub"], file_name(spec))] = spec
            elif src_case["stream"] == "fc" and src_case["fmt"] == "odml" and kind in FC_GOOD["other"]:
                origin[os.path.join(spec["sub"], os.path.splitext(file_name(spec))[0] + ".odml")] = spec
        written = set(os.path.normpath(os.path.join(base, rel)) for rel in src_obs.get("outputs", {}))
        files = []
        for rel in sorted(hashes(where)):
            sub, name = os.path.split(rel)
            stem, ext = os.path.splitext(name)
            with io.open(os.path.join(where, rel), "rb") as fh:
                raw = fh.read()
            spec = {"stem": stem, "ext": ext, "kind": "raw", "sub": sub, "tag": "raw",
                    "raw": base64.b64encode(raw).decode("ascii")}
            src = origin.get(rel)
            if src is not None and ext in (".xml", ".odml") and \
                    os.path.normpath(os.path.join(where, rel)) in written:
                spec["as_kind"] = "xml11" if ext == ".xml" else "odml11"
                spec["doc"] = src.get("doc") or template_doc(src.get("as_kind") or src["kind"])
                spec["tag"] = src["tag"]
            files.append(spec)
        if len(set(spec["stem"] for spec in files)) != len(files):
            # (older material next to the results: base names are not unique - not a tree of the property)
            return None
        return {"in_name": os.path.relpath(where, base), "files": files}

    def impl_cli(self, base, case):
        tool = case["tool"]
        in_dir = os.path.join(base, case["in_name"])
        if not os.path.isdir(in_dir):              # (a later run of the "runs" stream finds it there)
            os.makedirs(in_dir)
            write_inputs(in_dir, case["files"])
        elif case.get("edits"):                    # ... and may find it edited since the last run
            apply_edits(in_dir, case["edits"])
        out_root = os.path.join(base, case.get("root_name") or ("outroot" if case["explicit_out"] else "cwd"))
        if not os.path.isdir(out_root):
            os.makedirs(out_root)
        os.chdir(out_root)
        style = case.get("arg_style", "abs")
        in_arg, out_arg = in_dir, out_root
        if style == "trail":
            in_arg, out_arg = in_dir + os.sep, out_root + os.sep
        elif style == "rel":
            in_arg, out_arg = os.path.relpath(in_dir, out_root), "."
        elif style == "dot":
            in_arg = os.path.join(base, ".", os.path.relpath(out_root, base), os.path.relpath(base, out_root),
                                  case["in_name"])
            out_arg = os.path.join(out_root, ".")
        elif style == "here" and case["explicit_out"]:
            # the tool is started inside the directory it is to search (the output location is given)
            os.chdir(in_dir)
            in_arg, out_arg = ".", os.path.relpath(out_root, in_dir)
        refuse = case.get("refuse")
        if refuse == "no_out":                     # a call that cannot work: see "refused calls" in generate
            out_arg = os.path.join(out_root, "not_there")
        elif refuse == "no_in":
            in_arg = os.path.join(in_dir, "not_there")
        elif refuse == "in_is_file":
            names = sorted(n for n in os.listdir(in_dir) if os.path.isfile(os.path.join(in_dir, n)))
            in_arg = os.path.join(in_dir, names[0]) if names else os.path.join(in_dir, "not_there")
        # spelling of the options: in front of the directory (as in the usage text), behind it, the
        # output directory attached to its option, both options in one word
        opts = case.get("opt_style", "first")
        o_part = []
        if case["explicit_out"] or refuse == "no_out":
            o_part = ["-o" + out_arg] if opts == "attached" and not out_arg.startswith("-") else ["-o", out_arg]
        if opts == "stacked" and case["recursive"] and len(o_part) == 2:
            argv = ["-ro", out_arg, in_arg]
        elif opts == "last":
            argv = [in_arg] + o_part + (["-r"] if case["recursive"] else [])
        else:
            argv = (["-r"] if case["recursive"] else []) + o_part + [in_arg]
        root = pathlib.Path(in_arg)
        glob = root.rglob if case["recursive"] else root.glob
        order = [] if refuse else \
            [str(p.absolute()) for pat in ("*.odml", "*.xml", "*.json", "*.yaml") for p in glob(pat)]
        # the tree below the directory as the file system lists it (directories and files, spelled as
        # pathlib spells them): the model finds the files of the run in it by itself (Batch.discover)
        tree = []
        if not refuse:
            for cur, subdirs, names in os.walk(in_arg):
                cur_abs = str(pathlib.Path(cur).absolute())
                tree += [[cur_abs, name] for name in subdirs + names]
            pos = dict((path, i) for i, path in enumerate(order))
            tree.sort(key=lambda ent: pos.get(os.path.join(ent[0], ent[1]), len(pos)))
        root_abs = str(root.absolute())
        before_hash = hashes(in_dir)
        before_all = age_files(base, case.get("times"), case["in_name"] + os.sep)
        before_paths = all_paths(base)
        mod = cli_module(tool)
        # (odmlconvert is also installed under its old name, which prints a note and calls main)
        entry = getattr(mod, "dep_note", mod.main) if case.get("entry") == "dep_note" else mod.main
        direct = None
        if case.get("entry") == "run_conversion" and not refuse:
            direct = self.direct_lists(case, mod, order)
        if direct is not None:
            order = [path for _fmt, paths in direct for path in paths]
            tree = None                            # (the loop gets its list from here, not from main)
            result = run_guarded(lambda: self.run_direct(mod, tool, direct, out_root))
        else:
            result = run_guarded(lambda: entry(argv))
        after_hash = hashes(in_dir)
        after_paths = all_paths(base)
        new = sorted(after_paths - before_paths)
        gone = sorted(before_paths - after_paths)
        in_prefix = case["in_name"] + os.sep
        touched = [rel for rel in written_again(base, before_all) if not rel.startswith(in_prefix)]
        outputs = {}
        for rel in new:
            if not rel.endswith("/"):
                outputs[rel] = signature(os.path.join(base, rel))
        out_dirs = [p for p in new if p.endswith("/")]
        alone = {}
        for spec in case["files"]:
            alone[file_name(spec)] = alone_cli(tool, spec)
        return {"base": base, "result": result, "inputs_same": all(after_hash.get(k) == v for k, v in before_hash.items()),
                "changed_inputs": sorted(k for k in before_hash if after_hash.get(k) != before_hash[k]),
                "new": new, "outputs": outputs, "out_dirs": out_dirs, "order": order, "touched": touched, "gone": gone,
                "out_root": os.path.relpath(out_root, base), "in_rel": case["in_name"], "alone": alone,
                "tree": tree, "root_abs": root_abs}

    # The per-file loop of both tools is the module level function run_conversion(file_list, output_dir,
    # [rdf_dir,] report, source_format); main() hands it the files in the order the file system lists them.
    # "In every order": the same loop is also entered directly with the files of each format in an
    # order chosen by the case (directories made here with mkdtemp, as main does).  Used only while the
    # function is there with these parameters - otherwise the case runs through main.
    @staticmethod
    def direct_lists(case, mod, order):
        import inspect
        import random
        func = getattr(mod, "run_conversion", None)
        want = ["file_list", "output_dir", "report", "source_format"]
        if mod.__name__.endswith("odml_to_rdf"):
            want.insert(2, "rdf_dir")
        try:
            if func is None or list(inspect.signature(func).parameters) != want:
                return None
        except (TypeError, ValueError):
            return None
        rng = random.Random(case.get("perm", 0))
        groups = []
        for fmt, ends in (("XML", (".odml", ".xml")), ("JSON", (".json",)), ("YAML", (".yaml",))):
            paths = [p for p in order if p.endswith(ends)]
            rng.shuffle(paths)
            groups.append([fmt, paths])
        if case.get("perm", 0) % 2:
            groups.reverse()                       # the three formats in the other order as well
        return groups

    @staticmethod
    def run_direct(mod, tool, groups, out_root):
        out_dir = tempfile.mkdtemp(prefix="odmlconv_", dir=out_root)
        report = io.StringIO()
        if tool == "rdf":
            rdf_dir = tempfile.mkdtemp(prefix="odmlrdf_", dir=out_dir)
            for fmt, paths in groups:
                mod.run_conversion([pathlib.Path(p) for p in paths], out_dir, rdf_dir, report, fmt)
        else:
            for fmt, paths in groups:
                mod.run_conversion([pathlib.Path(p) for p in paths], out_dir, report, fmt)

    def impl_fc(self, base, case):
        from odml.tools.converters import FormatConverter
        fmt = case["fmt"]
        in_dir = os.path.join(base, case["in_name"])
        if not os.path.isdir(in_dir):
            os.makedirs(in_dir)
            write_inputs(in_dir, case["files"])
        elif case.get("edits"):
            apply_edits(in_dir, case["edits"])
        out_dir = None
        out_name = case.get("out_name") or "outdir"
        if case["explicit_out"]:
            out_dir = os.path.join(base, out_name)
            if not os.path.isdir(out_dir):
                os.makedirs(out_dir)
        # without an output directory the converter uses <input>_<format>; a later run finds it there
        implicit_rel = "%s_%s" % (case["in_name"], fmt)
        implicit_there = os.path.isdir(os.path.join(base, implicit_rel))
        in_arg = in_dir + (os.sep if case["trailing_sep"] else "")
        out_arg = out_dir
        if case.get("relative"):                   # both directories relative to the working directory
            os.chdir(base)
            in_arg = case["in_name"] + (os.sep if case["trailing_sep"] else "")
            out_arg = out_name if out_dir else None
        top = os.path.join(in_arg, "")
        if case["recursive"]:
            entries = [[d, n] for d, _s, names in os.walk(top) for n in names]
        else:
            entries = [[top, n] for n in os.listdir(top) if os.path.isfile(os.path.join(top, n))]
        refuse = case.get("refuse")
        if refuse:                                 # a call that cannot work: the input directory is not there
            names = sorted(n for n in os.listdir(in_dir) if os.path.isfile(os.path.join(in_dir, n)))
            in_arg = os.path.join(in_dir, names[0] if refuse == "in_is_file" and names else "not_there")
            if refuse == "no_out":
                in_arg, out_arg = in_dir, os.path.join(base, out_name, "not_there")
            entries = []
        before_hash = hashes(in_dir)
        before_all = age_files(base, case.get("times"), case["in_name"] + os.sep)
        before_paths = all_paths(base)
        if case["entry"] == "convert":
            # spelling of the options: short ones behind the two arguments (as in the usage text), the long
            # ones, with '=', in front of the arguments
            opts = case.get("opt_style", "first")
            o_opt = {"long": ["--output_dir", out_arg], "eq": ["--output_dir=%s" % out_arg]}.get(opts, ["-out", out_arg]) \
                if out_arg else []
            r_opt = ([ "--recursive"] if opts in ("long", "eq") else ["-r"]) if case["recursive"] else []
            argv = (r_opt + o_opt + [in_arg, fmt]) if opts == "front" else ([in_arg, fmt] + o_opt + r_opt)
            result = run_guarded(lambda: FormatConverter.convert(argv))
        else:
            result = run_guarded(lambda: FormatConverter.convert_dir(in_arg, out_arg, case["recursive"], fmt))
        after_hash = hashes(in_dir)
        after_paths = all_paths(base)
        new = sorted(after_paths - before_paths)
        gone = sorted(before_paths - after_paths)
        in_prefix = case["in_name"] + os.sep
        touched = [rel for rel in written_again(base, before_all) if not rel.startswith(in_prefix)]
        outputs = {}
        for rel in new + touched:                  # written = created or written again
            if not rel.endswith("/") and os.path.isfile(os.path.join(base, rel)):
                outputs[rel] = signature(os.path.join(base, rel))
        # what older files of the output directory hold (results of an earlier run that this run
        # did not write again)
        standing = {}
        pre_out = []                               # what the output directory held when the run began
        where = out_dir or (os.path.join(base, implicit_rel) if implicit_there else None)
        if where:
            where_rel = os.path.relpath(where, base) + os.sep
            pre_out = sorted(rel for rel in before_all if rel.startswith(where_rel))
            for rel in hashes(where):
                full = os.path.relpath(os.path.join(where, rel), base)
                if full in before_all and full not in outputs:
                    standing[full] = signature(os.path.join(base, full))
        alone = {}
        for spec in case["files"]:
            alone[file_name(spec)] = alone_fc(fmt, spec)
        try:
            from odml.tools.converters.format_converter import CONVERSION_FORMATS
            ext = CONVERSION_FORMATS.get(fmt)
        except ImportError:
            ext = None
        return {"base": base, "result": result, "inputs_same": all(after_hash.get(k) == v for k, v in before_hash.items()),
                "changed_inputs": sorted(k for k in before_hash if after_hash.get(k) != before_hash[k]),
                "new": new, "outputs": outputs, "entries": entries, "in_rel": case["in_name"], "touched": touched, "gone": gone, "standing": standing,
                "pre_out": pre_out, "implicit_there": implicit_rel if implicit_there and not out_dir else None,
                "out_rel": out_name if out_dir else None, "alone": alone, "ext": ext,
                "top": top, "in_arg": in_arg}

    # -- model ---------------------------------------------------------------
    def model_requests(self, case, obs):
        if case["stream"] == "locale":
            out = []
            for sub, o in zip(case["cases"], obs["subs"]):
                out += self.model_requests(sub, o)[:1]
            return out
        if case["stream"] == "runs":
            out = []
            for sub, o in zip(case["runs"], obs["subs"]):
                out += self.model_requests(self.eff(sub, o), o)
            return out
        if case.get("refuse"):
            return []
        P = {"p": "C17"}
        if case["stream"] == "paths":
            a, b = case["a"], case["b"]
            return [dict(P, op="stem", path=a), dict(P, op="splitext", path=a),
                    dict(P, op="basename", path=a), dict(P, op="join", a=a, b=b),
                    dict(P, op="dirname", path=a)]
        specs = dict((file_name(s), s) for s in case["files"])
        if case["stream"] == "cli":
            conv = [d for d in obs["out_dirs"] if d.count("/") == obs["out_root"].count("/") + 2]
            if len(conv) != 1 or obs["result"] != "ok":
                return []
            out_dir = os.path.join(obs["base"], conv[0][:-1])
            rdf = [d for d in obs["out_dirs"] if d.startswith(conv[0]) and d != conv[0]]
            loads, convert, render = {}, {}, {}
            for name, spec in specs.items():
                outs = dict((subst(k, spec), subst(v, spec)) for k, v in obs["alone"][name]["outs"].items())
                stem = spec["stem"]
                key = "IN:" + name                      # tables are keyed by the bytes read
                # the RDF file carries the name of the input file whether or not the file had to be
                # converted first; a converted file also leaves <stem>_conv.xml
                own_rdf = outs.get("OUT/RDF/%s.rdf" % stem)
                c = outs.get("OUT/%s_conv.xml" % stem)
                if c is None and own_rdf is not None:
                    loads[key] = True
                    render[key] = own_rdf
                else:
                    loads[key] = False
                    render[key] = "err"
                convert[key] = c if c is not None else "err"
                if c is not None:
                    render[c] = own_rdf if own_rdf is not None else "err"
            req = dict(P, op="cli", tool=case["tool"], out_dir=out_dir, files=obs["order"],
                       fs=[[p, "IN:" + os.path.basename(p)] for p in obs["order"]],
                       loads=loads, convert=convert, render=render)
            if obs.get("tree") is not None:
                # main: the model is given the whole tree and finds the files itself (C17.discover_complete,
                # C17.main_convert_file_gets_output); its list is compared with what pathlib finds
                req.update(tree=obs["tree"], root=obs["root_abs"], recursive=bool(case["recursive"]))
                req["fs"] = [[os.path.join(d, n), "IN:" + n] for d, n in obs["tree"]]
            if case["tool"] == "rdf":
                if len(rdf) != 1:
                    return []
                req["rdf_dir"] = os.path.join(obs["base"], rdf[0][:-1])
            return [req]
        if obs.get("ext") is None:
            return []
        fmt = case["fmt"]
        mfmt = fmt if fmt in ("v1_1", "odml") else {"rdf": obs["ext"]}
        out_dir = self.fc_out_dir(case, obs)
        if out_dir is None:
            return []
        convert, render = {}, {}
        for name, spec in specs.items():
            outs = obs["alone"][name]["outs"]
            val = subst(list(outs.values())[0], spec) if len(outs) == 1 and \
                obs["alone"][name]["result"] == "ok" else None
            if fmt == "v1_1":
                # no output and no exception = text without an odML root (null)
                convert["IN:" + name] = val if val is not None else \
                    (None if obs["alone"][name]["result"] == "ok" else "err")
            else:
                render["IN:" + name] = val if val is not None else "err"
        # the file system of the model holds the inputs and whatever the output directory held when
        # the run began (results of earlier runs, unrelated files): C17.convert_dir_output_current says
        # that a completed run writes every output again, from the bytes its source holds now
        reqs = [dict(P, op="convert_dir", fmt=mfmt, out=os.path.join(out_dir, ""),
                     entries=obs["entries"], convert=convert, render=render,
                     fs=[[os.path.join(d, n), "IN:" + n] for d, n in obs["entries"]] +
                        [[os.path.join(obs["base"], rel), "STANDING:" + rel] for rel in obs.get("pre_out", [])],
                     **{"in": obs["top"]})]
        if not case["explicit_out"]:
            reqs.append(dict(P, op="implicit_out", fmt=fmt, **{"in": obs["in_arg"]}))
        return reqs

    @staticmethod
    def eff(sub, o):
        """The run as it was carried out: a pipeline run with the directory and files it has found."""
        if isinstance(o, dict) and o.get("effective"):
            sub = dict(sub, **o["effective"])
            sub.pop("edits", None)
        return sub

    @staticmethod
    def fc_out_dir(case, obs):
        if obs["out_rel"]:
            return os.path.join(obs["base"], obs["out_rel"])
        # (the made-up directory stands next to the input directory: same number of path components)
        tops = [d for d in obs["new"] if d.endswith("/") and d.count("/") == 1 + case["in_name"].count("/")]
        if not tops and obs.get("implicit_there"):
            return os.path.join(obs["base"], obs["implicit_there"])    # <input>_<format> of an earlier run
        if len(tops) != 1:
            return None
        return os.path.join(obs["base"], tops[0][:-1])

    def compare(self, case, obs, answers):
        if case["stream"] == "locale":
            out, k = [], 0
            for i, (sub, o) in enumerate(zip(case["cases"], obs["subs"])):
                n = len(self.model_requests(sub, o)[:1])
                out += ["sub-case %d: %s" % (i, d) for d in self.compare(sub, o, answers[k:k + n])]
                k += n
            return out
        if case["stream"] == "runs":
            out, k = [], 0
            for i, (sub, o) in enumerate(zip(case["runs"], obs["subs"])):
                sub = self.eff(sub, o)
                n = len(self.model_requests(sub, o))
                out += ["run %d: %s" % (i, d) for d in self.compare(sub, o, answers[k:k + n])]
                k += n
            return out
        if not answers:
            return []
        out = []
        if case["stream"] == "paths":
            if answers[0] != obs["stem"]:
                out.append("stem(%r): model %r, os.path %r" % (case["a"], answers[0], obs["stem"]))
            if answers[1] != obs["splitext"]:
                out.append("splitext(%r): model %r, os.path %r" % (case["a"], answers[1], obs["splitext"]))
            if answers[2] != obs["basename"]:
                out.append("basename(%r): model %r, os.path %r" % (case["a"], answers[2], obs["basename"]))
            if answers[3] != obs["join"]:
                out.append("join(%r, %r): model %r, os.path %r" % (case["a"], case["b"], answers[3], obs["join"]))
            if answers[4] != obs["dirname"]:
                out.append("dirname(%r): model %r, os.path %r" % (case["a"], answers[4], obs["dirname"]))
            return out
        ans = answers[0]
        base = obs["base"]
        inputs = set()
        if case["stream"] == "cli":
            if "ok" not in ans["outcome"]:
                out.append("model loop raised")
            inputs = set(obs["order"])
            if obs.get("tree") is not None and ans.get("discovered") != obs["order"]:
                out.append("files found in the tree: model %s, pathlib %s" % (ans.get("discovered"), obs["order"]))
        else:
            if ans["ok"] != (obs["result"] == "ok"):
                out.append("model run ok=%s, implementation result %s" % (ans["ok"], obs["result"]))
            inputs = set(os.path.join(d, n) for d, n in obs["entries"])
        written = {}
        for path, text in ans["files"]:
            if path in inputs:
                if text != "IN:" + os.path.basename(path):
                    out.append("model changes input %s to %r" % (os.path.relpath(path, base), text))
            elif text is not None and not text.startswith("STANDING:"):   # (else: left as it was)
                written[os.path.relpath(os.path.normpath(os.path.join(base, path)), base)] = text
        if case["stream"] == "fc" and len(answers) > 1:
            made = self.fc_out_dir(case, obs)
            if made is not None and os.path.normpath(os.path.join(base, answers[1])) != made:
                out.append("made-up output directory: model %r, implementation %r" % (answers[1], made))
        if written != obs["outputs"]:
            only_m = dict((k, v) for k, v in written.items() if obs["outputs"].get(k) != v)
            only_i = dict((k, v) for k, v in obs["outputs"].items() if written.get(k) != v)
            out.append("outputs differ: model only %s, implementation only %s" % (only_m, only_i))
        return out

    # -- oracle --------------------------------------------------------------
    def oracle(self, case, obs):
        if "harness_exception" in obs or case["stream"] == "paths":
            return []
        if case["stream"] == "locale":
            out = []
            for i, (sub, o) in enumerate(zip(case["cases"], obs["subs"])):
                out += ["sub-case %d (%s %s): %s" % (i, sub["stream"], sub.get("tool") or sub.get("fmt"), f)
                        for f in self.oracle(sub, o)]
            return out
        if case["stream"] == "runs":
            out = []
            for i, (sub, o) in enumerate(zip(case["runs"], obs["subs"])):
                sub = self.eff(sub, o)
                out += ["run %d (%s %s on %s): %s" % (i, sub["stream"], sub.get("tool") or sub.get("fmt"),
                                                     sub["in_name"], f) for f in self.oracle(sub, o)]
            return out
        out = []
        if not obs["inputs_same"]:
            out.append("input files changed: %s" % obs["changed_inputs"])
        in_prefix = obs["in_rel"] + "/"
        inside = [p for p in obs["new"] if p.startswith(in_prefix)]
        if inside:
            out.append("files created inside the input directory: %s" % inside)
        if obs.get("gone"):
            out.append("paths that existed before the run were removed: %s" % obs["gone"])
        specs = dict((file_name(s), s) for s in case["files"])
        bad_out = dict((k, v) for k, v in obs["outputs"].items() if v.startswith("UNREADABLE"))
        if case.get("refuse"):
            # a call that cannot work (directory missing / a file): whether the tool stops, or makes the
            # missing directory and goes on, is not the property's business; whatever it does, it leaves
            # the inputs and everything else that was there alone
            if obs.get("touched"):
                out.append("a refused call wrote files that existed before: %s" % obs["touched"])
            return out
        if case["stream"] == "cli":
            if obs["result"] != "ok":
                out.append("the tool stopped with %s" % obs["result"])
            conv = [d for d in obs["out_dirs"] if d.startswith(obs["out_root"] + "/")
                    and d.count("/") == obs["out_root"].count("/") + 2]
            if obs["result"] == "ok" and len(conv) != 1:
                out.append("expected one new output directory in %s, found %s" % (obs["out_root"], obs["out_dirs"]))
            outside = [p for p in obs["new"] if not (conv and p.startswith(conv[0]))]
            if outside:
                out.append("paths created outside the new output directory: %s" % outside)
            # "writes only into a newly created output location": nothing that was there before the
            # run (results of earlier runs, other material in the output root, other directories)
            # is changed, removed or written again
            if obs.get("touched"):
                out.append("files that existed before the run were written: %s" % obs["touched"])
            # isolation: the batch gives every file what it gets alone
            expected = {}
            cands = {}
            considered = [s for s in case["files"] if case["recursive"] or not s["sub"]]
            for spec in considered:
                for k, v in obs["alone"][file_name(spec)]["outs"].items():
                    expected[subst(k, spec)] = subst(v, spec)
                    cands.setdefault(subst(k, spec), set()).add(subst(v, spec))
            shared = sorted(k for k, v in cands.items() if len(v) > 1)
            if shared:
                out.append("distinct input files are given the same output path %s: one of them does not "
                           "get its output" % shared)
                expected = dict((k, v) for k, v in expected.items() if k not in shared)
                obs = dict(obs, outputs=dict((k, v) for k, v in obs["outputs"].items()
                                             if canon_out(os.path.relpath(os.path.join(obs["base"], k),
                                                          os.path.join(obs["base"], obs["out_root"]))) not in shared))
            got = dict((canon_out(os.path.relpath(os.path.join(obs["base"], k),
                                                  os.path.join(obs["base"], obs["out_root"]))), v)
                       for k, v in obs["outputs"].items())
            if obs["result"] == "ok" and got != expected:
                missing = dict((k, v) for k, v in expected.items() if got.get(k) != v)
                extra = dict((k, v) for k, v in got.items() if expected.get(k) != v)
                out.append("outputs of the batch differ from the files' outputs alone: missing/different %s, "
                           "unexpected %s" % (missing, extra))
            # every valid odML file of a supported format gets its output, with its content
            for spec in considered:
                kind = spec.get("as_kind") or spec["kind"]
                outs = obs["alone"][file_name(spec)]["outs"]
                want = []
                if kind in OLD_KINDS:
                    want.append("OUT/STEMX_conv.xml")
                    if case["tool"] == "rdf":
                        # the property does not say how the RDF file of a converted file is named:
                        # the one RDF file that the file gets alone, whatever its name
                        rdf_keys = sorted(k for k in outs if k.startswith("OUT/RDF/") and k.endswith(".rdf"))
                        want.append(rdf_keys[0] if len(rdf_keys) == 1 else "OUT/RDF/STEMX.rdf")
                elif kind in NEW_KINDS and case["tool"] == "rdf":
                    want.append("OUT/RDF/STEMX.rdf")
                for key in want:
                    sig = outs.get(key)
                    if sig is None or (spec.get("doc") is None and
                                       ("sec_TAGX" not in sig or "prop_TAGX" not in sig)):
                        out.append("valid %s file gets no proper output %s from %s (found %r) [file %s]"
                                   % (kind, key.replace("STEMX", "<stem>"), case["tool"], sig, file_name(spec)))
                    else:
                        # ... "with the content of its source": every attribute and value
                        diffs = content_failure(spec, sig)
                        if diffs:
                            out.append("output %s of a valid %s file (%s) does not hold the content of its "
                                       "source: %s" % (key.replace("STEMX", "<stem>"), kind, case["tool"], diffs))
            unread = dict((k, v) for k, v in bad_out.items() if k.endswith(".rdf") or k.endswith("_conv.xml"))
            if unread:
                out.append("outputs do not load: %s" % unread)
        else:
            out_dir = self.fc_out_dir(case, obs)
            rel_out = os.path.relpath(out_dir, obs["base"]) + "/" if out_dir else None
            files_new = [p for p in obs["new"] if not p.endswith("/")]
            if rel_out is None:
                if files_new:
                    out.append("no single output directory, yet files were created: %s" % files_new)
            else:
                stray = [p for p in obs["new"] if not (p.startswith(rel_out) or p == rel_out)]
                if stray:
                    out.append("paths created outside the output directory %s: %s" % (rel_out, stray))
            # files that were there before the run may be written again only inside the output
            # directory (explicitly given, or <input>_<format>)
            old_hit = [p for p in obs.get("touched", []) if rel_out is None or not p.startswith(rel_out)]
            if old_hit:
                out.append("files outside the output directory that existed before the run were written: %s"
                           % old_hit)
            considered = [s for s in case["files"] if case["recursive"] or not s["sub"]]
            convertible = [s for s in considered if obs["alone"][file_name(s)]["result"] == "ok"]
            if len(convertible) == len(considered):
                if obs["result"] != "ok":
                    out.append("all files convert alone but the run raised %s" % obs["result"])
                want = sorted(subst(list(obs["alone"][file_name(s)]["outs"].values())[0], s)
                              for s in considered if obs["alone"][file_name(s)]["outs"])
                got = sorted(obs["outputs"].values())
                if obs["result"] == "ok" and want != got:
                    # weaker reading for a repeated run into the same directory: a result of an
                    # earlier run that still stands there, unwritten, counts as the output
                    rest = list(got)
                    lacking = []
                    for sig in want:
                        if sig in rest:
                            rest.remove(sig)
                        else:
                            lacking.append(sig)
                    old = list(obs.get("standing", {}).values())
                    for sig in list(lacking):
                        if sig in old:
                            old.remove(sig)
                            lacking.remove(sig)
                    if rest or lacking:
                        out.append("outputs %s do not carry the content of their sources %s" % (got, want))
                # "each output ... with the content of its source", file by file: what stands at the
                # output path of a source after the run (written by this run, or - weaker reading -
                # left standing by it) holds what converting that source alone gives *now*; this is
                # what tells a source that was replaced since an earlier run from its old output
                if obs["result"] == "ok" and rel_out is not None:
                    held = dict(obs.get("standing", {}))
                    held.update(obs["outputs"])
                    for spec in considered:
                        al = obs["alone"][file_name(spec)]
                        if len(al["outs"]) != 1:
                            continue
                        key, sig = list(al["outs"].items())[0]
                        path = rel_out + (spec["sub"] + "/" if spec["sub"] else "") + subst(key, spec)
                        if held.get(path) != subst(sig, spec):
                            out.append("after the run the output %s does not hold the content of its source %s "
                                       "as it is now: found %r, converting the source alone gives %r"
                                       % (path, spec_rel(spec), held.get(path), subst(sig, spec)))
            if bad_out:
                out.append("outputs do not load: %s" % bad_out)
            good = FC_GOOD["v1_1" if case["fmt"] == "v1_1" else "other"]
            for spec in considered:
                if (spec.get("as_kind") or spec["kind"]) in good:
                    al = obs["alone"][file_name(spec)]
                    sigs = list(al["outs"].values())
                    if al["result"] != "ok" or len(sigs) != 1 or \
                            (spec.get("doc") is None and "sec_TAGX" not in sigs[0]):
                        out.append("valid %s file is not converted to %s alone: %s %s"
                                   % (spec["kind"], case["fmt"], al["result"], sigs))
                    else:
                        diffs = content_failure(spec, sigs[0])
                        if diffs:
                            out.append("the %s output of a valid %s file does not hold the content of its "
                                       "source: %s" % (case["fmt"], spec["kind"], diffs))
        return out

    def finding_key(self, case, obs, failure):
        # no open finding: C17-odmltordf-conv-name-collision (b7276cb) and
        # C17-json-yaml-read-locale-encoding (7b9559d) are fixed, a regression is a violation again
        return None

    def tag(self, case, obs):
        st = case["stream"]
        if st == "paths":
            return ("paths", True)
        if st == "locale":
            return ("locale:%s" % obs.get("encoding"), True)
        if st == "runs":
            return ("runs:%d" % len(case["runs"]), True)
        nout = len(obs.get("outputs", {}))
        nfiles = len(case["files"])
        nested = any(s["sub"] for s in case["files"])
        name = "%s:%s" % (st, case.get("tool") or case.get("fmt"))
        res = obs.get("result")
        cls = "raised" if res != "ok" else ("all" if nout >= nfiles else "some" if nout else "none")
        return ("%s:%s" % (name, cls), nested or (0 < nout < nfiles))


if __name__ == "__main__":
    sys.exit(fw.main(C17(), sys.argv[1:]))
