# -*- coding: utf-8 -*-
"""
Shared by C03 / C04 / C06: random editing histories over the public structural API of
python-odml, executed on the real library and on the Lean heap model
(lean/OdmlModel/Model/Heap.lean), snapshots compared after every operation, plus the
implementation-level oracles (well-formed tree, unique non-empty names, refused = unchanged).
"""
import uuid

import framework as fw

NAMES = ["a", "b", "c", "ab", ""]


def uid(n):
    return str(uuid.UUID(int=(n * 2654435761) % (1 << 128) + (1 << 100)))


# ----------------------------------------------------------------------------- generation
def mangle_id(r, ident):
    """Mostly valid canonical ids; sometimes None, other accepted spellings, or malformed text."""
    x = r.random()
    if x < 0.70:
        return ident
    if x < 0.76:
        return None
    forms = [ident.upper(), "{" + ident + "}", "urn:uuid:" + ident, ident.replace("-", ""),
             ident[:-1], ident + "0", "garbage", "", " " + ident[1:], "+" + ident[1:],
             "0x" + ident[2:], ident[:9] + "_" + ident[10:], "g" + ident[1:], "-" + ident[1:],
             ident[:8] + ident[9:] + "-", "{{" + ident + "}", "uuid:" + ident.upper(),
             ident[:4] + "__" + ident[6:], "-" + "0" * 31, "_" + ident[1:], ident[:-1] + "_"]
    return r.choice(forms)


def P(rng, *classes):
    """A symbolic handle: resolved at execution time to the n-th existing object of the classes."""
    return {"cls": list(classes), "n": rng.randrange(0, 1000)}


class Gen(object):
    """Generates one history with symbolic handles (resolved against the real world state by the
    executor, so every operation addresses existing objects of a sensible kind)."""

    def __init__(self, rng, max_ops=40, max_objs=12):
        self.rng = rng
        self.max_ops = max_ops
        self.max_objs = max_objs
        self.idn = 0

    def construct(self, kind=None, with_parent=None):
        r = self.rng
        if kind is None:
            kind = r.choice(["sec", "sec", "sec", "prop", "prop", "doc"])
        self.idn += 1
        ident = uid(self.idn if r.random() > 0.1 else r.randrange(1, max(2, self.idn)))
        ident = mangle_id(r, ident)
        op = {"op": "construct", "kind": kind, "name": r.choice(NAMES), "oid": ident, "fresh": "",
              "parent": None, "args_ok": r.random() > 0.12, "via": r.choice(["ctor", "create"])}
        if with_parent is None:
            with_parent = r.random() < 0.7
        if kind != "doc" and with_parent:
            op["parent"] = P(r, "doc", "sec") if kind == "sec" else \
                (P(r, "sec") if r.random() < 0.9 else P(r, "doc"))
        if kind == "doc":
            op["name"] = ""
            op["args_ok"] = True
        if kind == "sec":
            # the Section type plays no role for the tree structure (and is not in the model);
            # it varies so that code comparing whole objects or (name, type) pairs is exercised
            op["stype"] = r.choice(["t", "t", "u"])
        if kind != "doc" and op["name"] == "":
            # "no name" reaches the library as None or as the empty string (the model treats both alike)
            op["empty"] = r.choice(["none", "str"])
        return op

    def history(self):
        r = self.rng
        ops = [self.construct("doc", False), self.construct("sec", True), self.construct("sec", True)]
        n = r.randrange(5, self.max_ops + 1)
        constructed = 3
        while len(ops) < n:
            choice = r.random()
            cont = lambda: P(r, "doc", "sec", "sec", "sec")
            anyobj = lambda: P(r, "sec", "prop", "sec", "doc") if r.random() < 0.08 else P(r, "sec", "prop")
            child = lambda: P(r, "sec", "prop")
            if choice < 0.20:
                if constructed < self.max_objs:
                    ops.append(self.construct())
                    constructed += 1
            elif choice < 0.32:
                ops.append({"op": "append", "p": cont(), "x": anyobj()})
            elif choice < 0.42:
                ops.append({"op": "insert", "p": cont(), "pos": r.randrange(-3, 5), "x": anyobj()})
            elif choice < 0.52:
                k = r.randrange(0, 4)
                xs = [anyobj() for _ in range(k)]
                if xs and r.random() < 0.25:
                    xs.append(dict(r.choice(xs)))          # the same object twice
                ops.append({"op": "extend", "p": cont(), "xs": xs})
            elif choice < 0.60:
                ops.append({"op": "remove", "p": cont(), "x": child(), "child_of_p": r.random() < 0.7})
            elif choice < 0.74:
                np_ = r.choice([None, cont(), cont(), P(r, "sec", "doc", "prop")])
                ops.append({"op": "set_parent", "x": child(), "np": np_})
            elif choice < 0.84:
                ops.append({"op": "set_item", "p": cont(), "sec_list": r.random() < 0.6,
                            "key": r.randrange(-3, 4), "v": anyobj()})
            elif choice < 0.92:
                ops.append({"op": "reorder", "x": child(), "idx": r.randrange(-4, 5)})
            elif choice < 0.97:
                ops.append({"op": "rename", "x": child(), "new": r.choice(NAMES),
                            "empty": r.choice(["none", "str"])})
            else:
                self.idn += 1
                ops.append({"op": "new_id", "x": P(r, "sec", "prop", "doc"),
                            "oid": mangle_id(r, uid(self.idn)), "fresh": ""})
        return ops


# ----------------------------------------------------------------------------- execution
class World(object):
    def __init__(self):
        self.objs = []

    def handle_of(self, obj):
        for i, o in enumerate(self.objs):
            if o is obj:
                return i
        return "?"

    def kind(self, obj):
        import odml
        from odml.doc import BaseDocument
        from odml.section import BaseSection
        if isinstance(obj, BaseDocument):
            return "doc"
        if isinstance(obj, BaseSection):
            return "sec"
        return "prop"

    def snapshot(self):
        out = []
        for o in self.objs:
            k = self.kind(o)
            par = o.parent
            out.append({
                "kind": k,
                "name": "" if k == "doc" else o.name,
                "id": o.id,
                "parent": None if par is None else self.handle_of(par),
                "secs": [self.handle_of(s) for s in list(o.sections)] if k != "prop" else [],
                "props": [self.handle_of(p) for p in list(o.properties)] if k == "sec" else [],
            })
        return out

    def apply(self, op):
        import odml
        kind = op["op"]
        O = self.objs
        if kind == "construct":
            k = op["kind"]
            parent = None if op["parent"] is None else O[op["parent"]]
            name = op["name"] or (None if op.get("empty", "none") == "none" else "")
            if k == "doc":
                obj = odml.Document(oid=op["oid"])
            elif k == "sec":
                bad = (3, 1) if not op["args_ok"] else None
                if op.get("via") == "create" and parent is not None and op["args_ok"] \
                        and hasattr(parent, "create_section"):
                    obj = parent.create_section(name=name, type=op.get("stype", "t"), oid=op["oid"])
                else:
                    obj = odml.Section(name=name, type=op.get("stype", "t"), oid=op["oid"], parent=parent,
                                       sec_cardinality=bad)
            else:
                bad = (3, 1) if not op["args_ok"] else None
                if op.get("via") == "create" and parent is not None and op["args_ok"] \
                        and hasattr(parent, "create_property"):
                    obj = parent.create_property(name=name, values=[1], oid=op["oid"])
                else:
                    obj = odml.Property(name=name, values=[1], oid=op["oid"], parent=parent,
                                        val_cardinality=bad)
            O.append(obj)
            op["fresh"] = obj.id
        elif kind == "new_id":
            try:
                O[op["x"]].new_id(op["oid"])
            finally:
                op["fresh"] = O[op["x"]].id
        elif kind == "append":
            O[op["p"]].append(O[op["x"]])
        elif kind == "insert":
            O[op["p"]].insert(op["pos"], O[op["x"]])
        elif kind == "extend":
            O[op["p"]].extend([O[x] for x in op["xs"]])
        elif kind == "remove":
            O[op["p"]].remove(O[op["x"]])
        elif kind == "set_parent":
            O[op["x"]].parent = None if op["np"] is None else O[op["np"]]
        elif kind == "set_item":
            lst = O[op["p"]].sections if op["sec_list"] else O[op["p"]].properties
            lst[op["key"]] = O[op["v"]]
        elif kind == "reorder":
            O[op["x"]].reorder(op["idx"])
        elif kind == "rename":
            O[op["x"]].name = op["new"] or (None if op.get("empty", "none") == "none" else "")
        else:
            raise ValueError(kind)


def resolve(w, op):
    """Symbolic handles -> concrete handles against the current world; None = not applicable."""
    def pick(sym):
        if sym is None or isinstance(sym, int):
            return sym
        cand = [i for i, o in enumerate(w.objs) if w.kind(o) in sym["cls"]]
        if not cand:
            return -1
        return cand[sym["n"] % len(cand)]
    out = dict(op)
    for key in ("p", "x", "v", "np", "parent"):
        if key in out:
            out[key] = pick(out[key])
            if out[key] == -1:
                return None
    if "xs" in out:
        out["xs"] = [pick(x) for x in out["xs"]]
        if -1 in out["xs"]:
            return None
    if out["op"] == "remove" and out.pop("child_of_p", False):
        # mostly remove a real child of p
        p = w.objs[out["p"]]
        kids = list(p.sections) + (list(p.properties) if hasattr(p, "properties") else [])
        if kids:
            hk = w.handle_of(kids[op["x"]["n"] % len(kids)])
            if isinstance(hk, int):
                out["x"] = hk
    out.pop("child_of_p", None)
    return out


def run_history(ops):
    """-> (trace, resolved ops): per executed op {"out", "snap"}; ops that cannot be resolved are dropped."""
    w = World()
    trace = []
    done = []
    for op in ops:
        cop = resolve(w, op)
        if cop is None:
            continue
        try:
            w.apply(cop)
            out = "ok"
        except RecursionError:
            out = "RecursionError"
        except Exception as exc:
            out = fw.exc_name(exc)
        trace.append({"out": out, "snap": w.snapshot()})
        done.append(cop)
    return trace, done


def model_ops(done):
    """Concrete ops for the model (API-variant keys removed)."""
    return [dict((k, v) for k, v in op.items() if k != "via") for op in done]


# ----------------------------------------------------------------------------- oracles
def wf_failures(snap):
    """C03 + C04 over a snapshot (handles), independent of the model."""
    fails = []
    n = len(snap)
    where = {}
    for i, o in enumerate(snap):
        for lst in ("secs", "props"):
            for c in o[lst]:
                where.setdefault(c, []).append((i, lst))
    for i, o in enumerate(snap):
        par = o["parent"]
        spots = where.get(i, [])
        if par is not None:
            if par == "?":
                fails.append("object %d reports a parent that is not a known object" % i)
                continue
            want = "secs" if o["kind"] == "sec" else "props"
            if spots.count((par, want)) != 1:
                fails.append("object %d reports parent %s but is listed there %d times"
                             % (i, par, spots.count((par, want))))
            others = [s for s in spots if s != (par, want)]
            if others:
                fails.append("object %d is also listed in %s" % (i, others))
        elif spots:
            fails.append("object %d has no parent but is listed in %s" % (i, spots))
        for lst in ("secs", "props"):
            for c in o[lst]:
                if c == "?" or snap[c]["parent"] != i:
                    fails.append("container %d lists %s whose parent is %s"
                                 % (i, c, "?" if c == "?" else snap[c]["parent"]))
            names = [snap[c]["name"] for c in o[lst] if c != "?"]
            if len(set(names)) != len(names):
                fails.append("container %d has duplicate %s names %s" % (i, lst, names))
        if o["kind"] != "doc" and not o["name"]:
            fails.append("object %d has an empty name" % i)
        # ancestors
        seen = set()
        cur = i
        while cur is not None and cur != "?":
            if cur in seen:
                fails.append("object %d is its own ancestor" % i)
                break
            seen.add(cur)
            cur = snap[cur]["parent"]
    return fails


def first_wf_break(trace):
    for k, step in enumerate(trace):
        f = wf_failures(step["snap"])
        if f:
            return k, f
    return None, []
