# -*- coding: utf-8 -*-
"""
Shared by C03 / C04 / C06: random editing histories over the public structural API of
python-odml, executed on the real library and on the Lean heap model
(lean/OdmlModel/Model/Heap.lean), snapshots compared after every operation, plus the
implementation-level oracles (well-formed tree, unique non-empty names, refused = unchanged).

Two kinds of histories:
 * modelled: names and ids are texts (any text: the model compares names as strings and reads ids
   with its model of uuid.UUID), handles are symbolic and may be relational ("a child of the
   original of the last mirror", "the parent of X", "a sibling of X"), macro operations ("mirror":
   a deep-equal copy of a subtree built elsewhere, "twin": an object with the name and id of an
   existing one) are expanded into primitive constructor calls at execution time;
 * odd (oracle only, no model requests): names and ids that are not texts (int, bool, float, NaN,
   bytes, tuple - what `name: 7` in a YAML / JSON source produces; the library stores them unchanged),
   and documents loaded from YAML / JSON / XML text instead of being constructed.

Between the operations the executor also asks the derived queries (`.document` of the objects - the
answer is compared with the model, lean/OdmlModel/Model/HeapQuery.lean, and with the root of the
parent chain; `get_path`, `itersections`, `iterproperties`, an absolute path lookup - they only have
to terminate) following a query plan (`Queries`): after every operation, at some points only, or
only at the end - an answer given before an ancestor was moved must not survive the move.
"""
import json
import unicodedata
import uuid

import framework as fw

NAMES = ["a", "b", "c", "ab", ""]

# texts beyond the small alphabet; the model follows all of them (string equality)
WIDE_NAMES = ["a/b", "/", "a b", " a", "a ", " ", "A", "7", "0", "1.0", "True", "None", u"\xe9",
              u"\u540d\u524d", "a\nb", "a\n", "\n", "\t", "x" * 300, "a" * 64 + "b", ".", "..", "a#b",
              "urn:uuid:a", "[a]", "a,b", "'a'", "<a>", "&amp;"]

# names that are not texts: {"py": type, "v": text}; only in the oracle-only stream
ODD_NAMES = [("int", "7"), ("int", "7"), ("int", "1"), ("bool", "True"), ("float", "1.0"), ("float", "1.5"),
             ("int", "0"), ("bool", "False"), ("float", "0.0"), ("float", "-0.0"), ("int", "-1"),
             ("int", str(10 ** 30)), ("float", "1e30"), ("float", "inf"), ("none", ""), ("bytes", "a"),
             ("tuple", "1,2"), ("int", "3"), ("float", "3.0")]

EXTREME_POS = [2 ** 31, -2 ** 31, 2 ** 31 - 1, 2 ** 62, -2 ** 62, 2 ** 32 + 1, -(2 ** 32) - 1, 1000, -1000]


def uid(n):
    return str(uuid.UUID(int=(n * 2654435761) % (1 << 128) + (1 << 100)))


# ----------------------------------------------------------------------------- odd values
def spec(py, v):
    return {"py": py, "v": v}


def decode(val):
    """A case value -> the Python object handed to the library."""
    if not isinstance(val, dict):
        return val
    py, v = val["py"], val["v"]
    if py == "int":
        return int(v)
    if py == "bool":
        return v == "True"
    if py == "float":
        return float(v)
    if py == "none":
        return None
    if py == "bytes":
        return v.encode("ascii")
    if py == "tuple":
        return tuple(int(x) for x in v.split(","))
    raise ValueError(py)


def spec_of(value):
    """Inverse of decode (texts stay texts)."""
    if isinstance(value, str):
        return value
    if value is None:
        return spec("none", "")
    if isinstance(value, bool):
        return spec("bool", repr(value))
    if isinstance(value, int):
        return spec("int", str(value))
    if isinstance(value, float):
        return spec("float", repr(value))
    if isinstance(value, bytes):
        return spec("bytes", value.decode("ascii", "replace"))
    if isinstance(value, tuple):
        return spec("tuple", ",".join(str(x) for x in value))
    return repr(value)


# positions / keys that are not plain machine-size ints; only in the oracle-only stream
ODD_POS = [spec("float", "2.5"), spec("float", "1.0"), spec("float", "0.0"), spec("float", "-1.0"),
           spec("int", str(2 ** 63)), spec("int", str(-2 ** 63 - 1)), spec("int", str(10 ** 30)),
           spec("int", str(2 ** 63 - 1)), spec("none", ""), spec("bool", "True"), spec("bool", "False"),
           spec("float", "nan"), spec("float", "inf"), spec("bytes", "1"), spec("tuple", "0"), "1", "a"]


def enc_name(value, handle):
    """A name as a text for the snapshot: texts unchanged; other values so that two encodings are
    equal exactly when Python's == holds between the values (1 == 1.0 == True; NaN equals nothing,
    not even itself, so it is tagged with the handle of its object)."""
    if isinstance(value, str):
        return value
    if value is None:
        return ""
    if isinstance(value, (bool, int, float)):
        if value != value:
            return u"\x01nan:%s" % handle
        if isinstance(value, float) and value in (float("inf"), float("-inf")):
            return u"\x01num:%r" % value
        if value == int(value):
            return u"\x01num:%d" % int(value)
        return u"\x01num:%r" % float(value)
    if isinstance(value, bytes):
        return u"\x01bytes:" + value.decode("latin-1")
    return u"\x01obj:%r" % (value,)


def model_text(s):
    """uuid.UUID reads its digits with int(_, 16), which takes every Unicode decimal digit for its
    ASCII value (CPython: _PyUnicode_TransformDecimalAndSpaceToASCII); the Lean model of int() is
    ASCII only for digits, so those digits are translated here (one code point each: the length
    test of uuid.UUID is not affected)."""
    if not isinstance(s, str) or s.isascii():
        return s
    out = []
    for ch in s:
        d = unicodedata.decimal(ch, None) if ord(ch) > 127 else None
        out.append(ch if d is None else str(d))
    return "".join(out)


# ----------------------------------------------------------------------------- generation
_ARABIC = dict((str(i), chr(0x660 + i)) for i in range(10))
_FULLWIDTH = dict((str(i), chr(0xFF10 + i)) for i in range(10))


def id_forms(ident):
    """Other spellings of an id text: accepted ones, near misses, decorated ones."""
    bare = ident.replace("-", "")
    old = [ident.upper(), "{" + ident + "}", "urn:uuid:" + ident, bare,
           ident[:-1], ident + "0", "garbage", "", " " + ident[1:], "+" + ident[1:],
           "0x" + ident[2:], ident[:9] + "_" + ident[10:], "g" + ident[1:], "-" + ident[1:],
           ident[:8] + ident[9:] + "-", "{{" + ident + "}", "uuid:" + ident.upper(),
           ident[:4] + "__" + ident[6:], "-" + "0" * 31, "_" + ident[1:], ident[:-1] + "_"]
    # the canonical text with something before or after it: white space, line feeds, control
    # characters, braces and prefixes in other orders; digits from other scripts; other groupings.
    # (incl. the ASCII separators 0x1c-0x1f: white space for str.strip(), not for int() on an ASCII
    # text - Py/Uuid.lean `intStrip` models exactly that)
    new = [ident + "\n", "\n" + ident, ident + "\r\n", ident + "\n\n", ident + " ", " " + ident,
           "\t" + ident + "\t", ident + "\r", ident + "\x0b", ident + "\x0c", ident + "\x00",
           u"\ufeff" + ident, ident + u"\u2028", ident + u"\xa0", ident + u"\x85", ident + ".",
           ident[:-1] + "\x1c", "\x1f" + ident[1:], ident + "\x1d", ident[:-1] + u"\x1e\xa0"[:1],
           ident[:-1] + "\n", "\n" + ident[1:], ident[:-1] + u"\xa0", ident[:-1] + u"\u3000",
           "".join(_ARABIC.get(c, c) for c in ident), "".join(_FULLWIDTH.get(c, c) for c in ident),
           ident[:-1] + u"\xb2", u"\uff41" + ident[1:],
           "{urn:uuid:" + ident + "}", "urn:uuid:{" + ident + "}", "{" + ident, ident + "}",
           "}" + ident + "{", "urn:urn:uuid:" + ident, "URN:UUID:" + ident, "urn:uuid:" + ident.upper(),
           "{" + ident.upper() + "}", "uuid:urn:" + ident, "urn:uuid: " + ident, ident + "urn:",
           ident.replace("-", "--"), "-".join(bare[i:i + 2] for i in range(0, 32, 2)),
           ident.replace("-", " "), ident.replace("-", "_"), bare[:16] + "-" + bare[16:],
           ident + ident, ident[:18], ident + "-", "-" + ident, "--" + bare[2:], " " + bare[1:] ,
           bare[:-1] + " ", "\n" + bare[1:-1] + "\n", "0X" + bare[2:], "0x_" + bare[3:], "+" + bare[1:],
           bare[:-2] + "_" + bare[-1]]
    return old, new


def mangle_id(r, ident):
    """Mostly valid canonical ids; sometimes None, other accepted spellings, or malformed text."""
    x = r.random()
    if x < 0.70:
        return ident
    if x < 0.76:
        return None
    old, new = id_forms(ident)
    return r.choice(old) if r.random() < 0.45 else r.choice(new)


def form_of(k, ident):
    if k is None:
        return ident
    old, new = id_forms(ident)
    forms = old + new
    return forms[k % len(forms)]


def P(rng, *classes):
    """A symbolic handle: resolved at execution time to the n-th existing object of the classes."""
    return {"cls": list(classes), "n": rng.randrange(0, 1000)}


def last(key):
    return {"rel": "last", "key": key}


def parent_of(sym):
    return {"rel": "parent", "of": sym}


class Gen(object):
    """Generates one history with symbolic handles (resolved against the real world state by the
    executor, so every operation addresses existing objects of a sensible kind)."""

    def __init__(self, rng, max_ops=40, max_objs=12, odd=False, nan=False):
        self.rng = rng
        self.max_ops = max_ops
        self.max_objs = max_objs
        self.idn = 0
        self.odd = odd
        self.odd_pool = [spec(*x) for x in ODD_NAMES] + ([spec("float", "nan")] * 2 if nan else [])

    # -- ingredients ---------------------------------------------------------------------------
    def child_of(self, sym):
        return {"rel": "child", "of": sym, "n": self.rng.randrange(0, 1000)}

    def sibling_of(self, sym):
        return {"rel": "sibling", "of": sym, "n": self.rng.randrange(0, 1000)}

    def anyobj(self):
        r = self.rng
        return P(r, "sec", "prop", "sec", "doc") if r.random() < 0.08 else P(r, "sec", "prop")

    def cont(self):
        return P(self.rng, "doc", "sec", "sec", "sec")

    def child(self):
        return P(self.rng, "sec", "prop")

    def pos(self, lo, hi):
        r = self.rng
        if self.odd and r.random() < 0.12:
            # positions that are not plain machine-size ints (the model's positions are integers)
            v = r.choice(ODD_POS)
            return dict(v) if isinstance(v, dict) else v
        if r.random() < 0.06:
            return r.choice(EXTREME_POS)
        return r.randrange(lo, hi)

    def name(self):
        """Mostly the small alphabet (clashes are frequent); sometimes another text, the id text or
        the name of a live object; in the odd stream a value that is not a text."""
        r = self.rng
        x = r.random()
        if self.odd and x < 0.45:
            return dict(r.choice(self.odd_pool))
        if x < 0.86:
            return r.choice(NAMES)
        if x < 0.93:
            return r.choice(WIDE_NAMES)
        if x < 0.98:
            return {"idof": P(r, "sec", "prop", "sec", "prop", "doc"),
                    "form": None if r.random() < 0.8 else r.randrange(0, 200)}
        return {"nameof": P(r, "sec", "prop")}

    def oid(self, ident):
        r = self.rng
        x = r.random()
        if x < 0.07:
            # the id of another live object, as it is or in another spelling
            return {"idof": P(r, "sec", "prop", "doc"), "form": None if r.random() < 0.6 else r.randrange(0, 200)}
        if self.odd and x < 0.12:
            return dict(r.choice([spec("int", "7"), spec("bytes", ident), spec("float", "1.5"),
                                  spec("bool", "True"), spec("tuple", "1,2")]))
        return mangle_id(r, ident)

    def rename(self, x, new=None):
        r = self.rng
        return {"op": "rename", "x": x, "new": self.name() if new is None else new,
                "empty": r.choice(["none", "str"])}

    def construct(self, kind=None, with_parent=None):
        r = self.rng
        if kind is None:
            kind = r.choice(["sec", "sec", "sec", "prop", "prop", "doc"])
        self.idn += 1
        ident = uid(self.idn if r.random() > 0.1 else r.randrange(1, max(2, self.idn)))
        op = {"op": "construct", "kind": kind, "name": self.name(), "oid": self.oid(ident), "fresh": "",
              "parent": None, "args_ok": r.random() > 0.12, "via": r.choice(["ctor", "create"])}
        if with_parent is None:
            with_parent = r.random() < 0.7
        if kind != "doc" and with_parent:
            op["parent"] = P(r, "doc", "sec") if kind == "sec" else \
                (P(r, "sec") if r.random() < 0.9 else P(r, "doc"))
        if kind == "doc":
            op["name"] = ""
            op["args_ok"] = True
        if not op["args_ok"]:
            # (seeded round 5) WHICH argument is refused: not always the first one that is validated - the
            # second cardinality of a Section behind a valid first one, values of a Property of which
            # only a later one does not convert, a cardinality behind valid values (see World.apply)
            op["badarg"] = r.randrange(0, 12)
        if kind == "sec":
            # the Section type plays no role for the tree structure (and is not in the model);
            # it varies so that code comparing whole objects or (name, type) pairs is exercised
            op["stype"] = r.choice(["t", "t", "u"])
        if kind != "doc" and op["name"] == "":
            # "no name" reaches the library as None or as the empty string (the model treats both alike)
            op["empty"] = r.choice(["none", "str"])
        if kind == "prop" and r.random() < 0.3:
            # a Property without values is falsy (len() == 0), like a Section without children and a
            # Document without Sections: no test of the library may take such an object for "no object"
            op["novals"] = r.choice(["none", "list"])
        return op

    # -- blocks: a macro operation and operations aimed at what it built ------------------------
    def mirror_block(self):
        """A deep-equal copy (same names, types, content; other ids) of a container built elsewhere,
        then operations that mix the children of the two: every place where the library compares
        objects has to tell them apart."""
        r = self.rng
        x = P(r, "sec", "sec", "sec", "doc")
        ops = [{"op": "mirror", "x": x,
                "p": r.choice([None, self.cont(), self.cont(), self.cont(), parent_of(x)])}]
        orig, copy = last("mirror_orig"), last("mirror_copy")
        och = lambda: self.child_of(orig)
        cch = lambda: self.child_of(copy)
        for _ in range(r.randrange(1, 4)):
            c = r.randrange(18)
            if c < 3:
                ops.append({"op": "set_parent", "x": och(), "np": copy})
            elif c == 3:
                ops.append({"op": "set_parent", "x": cch(), "np": orig})
            elif c == 4:
                ops.append({"op": "append", "p": copy, "x": och()})
            elif c == 5:
                ops.append({"op": "append", "p": orig, "x": cch()})
            elif c == 6:
                ops.append({"op": "insert", "p": r.choice([copy, orig]), "pos": self.pos(-3, 5),
                            "x": r.choice([och, cch])()})
            elif c == 7:
                xs = [och()] + ([self.anyobj()] if r.random() < 0.4 else [])
                r.shuffle(xs)
                ops.append({"op": "extend", "p": copy, "xs": xs})
            elif c == 8:
                ops.append({"op": "set_item", "p": r.choice([copy, orig]), "sec_list": r.random() < 0.6,
                            "key": r.randrange(-3, 4), "v": r.choice([och, cch])()})
            elif c == 9:
                ops.append({"op": "remove", "p": orig, "x": cch()})
            elif c == 10:
                ops.append({"op": "remove", "p": copy, "x": och()})
            elif c == 11:
                a, b = r.choice([(orig, copy), (copy, orig)])
                ops.append({"op": "set_parent", "x": a, "np": parent_of(b)})
            elif c == 12:
                a, b = r.choice([(orig, copy), (copy, orig)])
                ops.append(r.choice([{"op": "append", "p": parent_of(b), "x": a},
                                     {"op": "insert", "p": parent_of(b), "pos": self.pos(-3, 5), "x": a},
                                     {"op": "extend", "p": parent_of(b), "xs": [a]},
                                     {"op": "set_item", "p": parent_of(b), "sec_list": True,
                                      "key": r.randrange(-3, 4), "v": a}]))
            elif c == 13:
                ops.append({"op": "reorder", "x": r.choice([och, cch])(), "idx": self.pos(-4, 5)})
            elif c == 14:
                ops.append(self.rename(r.choice([och, cch])()))
            elif c == 15:
                # one level further down: a grandchild of the one into the equal child of the other
                ops.append({"op": "set_parent", "x": self.child_of(och()), "np": cch()})
            elif c == 16:
                ops.append({"op": "remove", "p": parent_of(copy), "x": orig})
            else:
                ops.append({"op": "remove", "p": parent_of(orig), "x": copy})
        return ops

    def twin_block(self):
        """An object with the name and the id of an existing one (what clone(keep_id=True) of a leaf
        gives), put beside the original; then either name is cleared or changed."""
        r = self.rng
        x = P(r, "sec", "prop")
        ops = [{"op": "twin", "x": x, "p": r.choice([None, None, None, parent_of(x), self.cont()])}]
        orig, copy = last("twin_orig"), last("twin_copy")
        steps = [self.rename(orig, r.choice(["a", "b", "c", "ab", "", self.name()])),
                 r.choice([{"op": "append", "p": parent_of(orig), "x": copy},
                           {"op": "set_parent", "x": copy, "np": parent_of(orig)},
                           {"op": "insert", "p": parent_of(orig), "pos": self.pos(-3, 5), "x": copy},
                           {"op": "extend", "p": parent_of(orig), "xs": [copy]},
                           {"op": "set_parent", "x": orig, "np": parent_of(copy)}]),
                 self.rename(r.choice([copy, orig]), ""),
                 self.rename(r.choice([orig, copy]), "")]
        steps = [s for s in steps if r.random() > 0.15]
        if r.random() < 0.2:
            r.shuffle(steps)
        if r.random() < 0.3:
            steps.insert(r.randrange(len(steps) + 1),
                         {"op": "new_id", "x": r.choice([orig, copy]),
                          "oid": r.choice([None, {"idof": r.choice([orig, copy]), "form": None}]), "fresh": ""})
        return ops + steps

    def idclash_block(self):
        """The id text of one object becomes the name of a sibling (or the siblings get the same id);
        then names are cleared: the fallback to the id has to respect the siblings."""
        r = self.rng
        x = P(r, "sec", "prop")
        y = self.sibling_of(x)
        c = r.randrange(4)
        if c == 0:
            ops = [{"op": "new_id", "x": y, "oid": {"idof": x, "form": r.choice([None, None, 0, 1, 2])},
                    "fresh": ""},
                   self.rename(x, ""), self.rename(y, "")]
        elif c == 1:
            ops = [self.rename(y, {"idof": x, "form": None}), self.rename(x, "")]
        elif c == 2:
            ops = [{"op": "twin", "x": x, "p": parent_of(x), "namesake": True}, self.rename(x, "")]
        else:
            ops = [self.rename(x, ""), self.rename(y, {"idof": x, "form": None}),
                   {"op": "new_id", "x": y, "oid": {"idof": x, "form": None}, "fresh": ""},
                   self.rename(y, "")]
        if r.random() < 0.3:
            ops.append(self.rename(r.choice([x, y]), ""))
        return ops

    def readd_block(self):
        """An object is added once more to the container it already lives in."""
        r = self.rng
        x = self.child()
        par = parent_of(x)
        c = r.randrange(7)
        if c == 0:
            return [{"op": "append", "p": par, "x": x}]
        if c == 1:
            return [{"op": "insert", "p": par, "pos": self.pos(-3, 5), "x": x}]
        if c == 2:
            return [{"op": "extend", "p": par, "xs": [x]}]
        if c == 3:
            return [{"op": "extend", "p": par, "xs": [x, dict(x)]}]
        if c == 4:
            return [{"op": "set_parent", "x": x, "np": par}]
        if c == 5:
            return [{"op": "set_item", "p": par, "sec_list": r.random() < 0.5, "key": r.randrange(-3, 4), "v": x}]
        return [{"op": "extend", "p": par, "xs": [self.anyobj(), x]}]

    def deep_block(self):
        """A chain of nested Sections (depth 2-5, a Property at the bottom and sometimes beside the
        middle), then the top or a middle Section is moved by every route there is - appended / inserted
        / extended / assigned into a Section list elsewhere, re-parented to another Document, below a
        Section, to None, removed, replaced by an item assignment - and moved again: whatever the
        objects below it answered before (parent, document, path) has to follow the move."""
        r = self.rng
        ops = []
        if r.random() < 0.5:
            ops.append(self.construct("doc", False))
            if r.random() < 0.6:
                ops.append(self.construct("sec", True))
        top = self.construct("sec", True)
        top["mark"] = "deep_top"
        top["args_ok"] = True
        ops.append(top)
        depth = r.randrange(1, 5)
        mid_at = r.randrange(0, depth)
        for lvl in range(depth):
            op = self.construct("sec", False)
            op["parent"] = last("made")
            op["args_ok"] = True
            op["mark"] = "deep_mid" if lvl == mid_at else "deep_low"
            ops.append(op)
        if r.random() < 0.7:
            op = self.construct("prop", False)
            op["parent"] = last("made")
            op["args_ok"] = True
            ops.append(op)
        top_h, mid_h = last("deep_top"), last("deep_mid")
        for _ in range(r.randrange(1, 4)):
            x = top_h if r.random() < 0.65 else mid_h
            dest = r.choice([P(r, "doc"), P(r, "doc"), self.cont(), self.cont(), P(r, "sec")])
            c = r.randrange(10)
            if c < 3:
                ops.append({"op": "set_parent", "x": x, "np": r.choice([None, dest, dest, dest])})
            elif c == 3:
                ops.append({"op": "append", "p": dest, "x": x})
            elif c == 4:
                ops.append({"op": "insert", "p": dest, "pos": self.pos(-3, 5), "x": x})
            elif c == 5:
                xs = [x] + ([self.anyobj()] if r.random() < 0.3 else [])
                r.shuffle(xs)
                ops.append({"op": "extend", "p": dest, "xs": xs, "form": r.choice(["list", "tuple", "iter"])})
            elif c == 6:
                ops.append({"op": "set_item", "p": dest, "sec_list": True, "key": r.randrange(-3, 4), "v": x})
            elif c == 7:
                ops.append({"op": "remove", "p": parent_of(x), "x": x})
            elif c == 8:
                # something else takes the place of the chain's top / middle: the replaced Section is
                # detached together with everything below it
                ops.append({"op": "set_item", "p": parent_of(x), "sec_list": True,
                            "key": r.randrange(-3, 4), "v": r.choice([P(r, "sec"), self.sibling_of(x)])})
            else:
                # the other way round: an ancestor moves below what used to be below it (refused), or
                # the bottom of the chain moves up
                ops.append({"op": "set_parent", "x": r.choice([top_h, last("deep_low")]),
                            "np": r.choice([mid_h, last("deep_low"), parent_of(top_h)])})
        return ops

    def crowd_block(self):
        """(seeded round 5) A container with MANY children (8-15 Sections and, below a Section, some
        Properties; everywhere else a child list holds 0-4), then operations aimed at the LATER ones:
        positions and keys beyond 5, a rename / a new child / an appended object that clashes with the
        name of a late sibling, an extend argument of 4-7 objects of which only the last is refused (a
        child of the container already, a duplicate, a clash, an ancestor). A check that looks at the
        first entry, the first few siblings or at small indices only is not enough."""
        r = self.rng
        ops = []
        top = self.construct("sec" if r.random() < 0.8 else "doc", True)
        top["args_ok"] = True
        top["mark"] = "crowd"
        if top["kind"] == "sec" and top["name"] in ("",):
            top["name"] = "crowd"
        ops.append(top)
        C = last("crowd")
        n = r.randrange(8, 16)
        for i in range(n):
            kind = "sec" if top["kind"] == "doc" or r.random() < 0.7 else "prop"
            op = self.construct(kind, False)
            op.update({"parent": C, "args_ok": True, "name": "k%d" % i})
            op.pop("empty", None)
            ops.append(op)
        late = lambda: "k%d" % r.randrange(n // 2, n)
        kid = lambda: self.child_of(C)
        for _ in range(r.randrange(2, 6)):
            c = r.randrange(11)
            if c == 0:
                ops.append({"op": "insert", "p": C, "pos": r.randrange(5, n + 3), "x": r.choice([kid, self.anyobj])()})
            elif c == 1:
                ops.append({"op": "reorder", "x": kid(), "idx": r.choice([r.randrange(5, n + 3), -r.randrange(5, n + 3)])})
            elif c == 2:
                ops.append({"op": "set_item", "p": C, "sec_list": r.random() < 0.7,
                            "key": r.choice([r.randrange(4, n + 2), -r.randrange(4, n + 2)]),
                            "v": r.choice([kid, self.anyobj, self.anyobj])()})
            elif c == 3:
                ops.append(self.rename(r.choice([kid, self.child])(), late()))
            elif c == 4:
                op = self.construct(r.choice(["sec", "prop"]), False)
                op.update({"parent": C, "name": late()})
                op.pop("empty", None)
                ops.append(op)
            elif c == 5:
                op = self.construct(r.choice(["sec", "prop"]), False)
                op.update({"parent": None, "name": late(), "args_ok": True})
                op.pop("empty", None)
                ops.append(op)
                ops.append(r.choice([{"op": "append", "p": C, "x": last("made")},
                                     {"op": "insert", "p": C, "pos": r.randrange(-3, n + 2), "x": last("made")},
                                     {"op": "set_parent", "x": last("made"), "np": C},
                                     {"op": "set_item", "p": C, "sec_list": r.random() < 0.6,
                                      "key": r.randrange(0, n), "v": last("made")}]))
            elif c in (6, 7):
                # a long argument: fresh objects that are fine, the offending one last (or in the middle)
                xs = []
                for j in range(r.randrange(4, 8)):
                    op = self.construct(r.choice(["sec", "sec", "prop"]), False)
                    op.update({"parent": None, "name": "x%d" % j, "args_ok": True, "mark": "arg%d" % j})
                    op.pop("empty", None)
                    ops.append(op)
                    xs.append(last("arg%d" % j))
                bad = r.choice([kid(), dict(r.choice(xs)), parent_of(C), C, self.anyobj()])
                if r.random() < 0.75:
                    xs.append(bad)
                else:
                    xs.insert(r.randrange(1, len(xs)), bad)
                ops.append({"op": "extend", "p": r.choice([C, C, C, self.cont()]), "xs": xs,
                            "form": r.choice(["list", "tuple", "iter"])})
            elif c == 8:
                ops.append({"op": "remove", "p": C, "x": kid()})
            elif c == 9:
                ops.append({"op": "set_parent", "x": kid(), "np": r.choice([kid(), self.cont(), None])})
            else:
                # another container's child with the name of a late sibling moves in
                ops.append(self.rename(self.child(), late()))
                ops.append({"op": "set_parent", "x": self.child(), "np": C})
        return ops

    def oddpos_block(self):
        """(oracle-only stream) a position / key that is not a plain machine-size int - a float,
        integral or not, an int beyond the machine word, bool, None, text, NaN - handed to every
        operation that takes one, for a Property and for a Section that do live in a list."""
        r = self.rng
        ops = []
        for _ in range(r.randrange(1, 3)):
            v = r.choice(ODD_POS)
            v = dict(v) if isinstance(v, dict) else v
            x = r.choice([P(r, "prop"), P(r, "sec"), self.child_of(self.cont())])
            c = r.randrange(4)
            if c < 2:
                ops.append({"op": "reorder", "x": x, "idx": v})
            elif c == 2:
                ops.append({"op": "insert", "p": r.choice([parent_of(x), self.cont()]), "pos": v,
                            "x": r.choice([x, self.anyobj()])})
            else:
                ops.append({"op": "set_item", "p": r.choice([parent_of(x), self.cont()]),
                            "sec_list": r.random() < 0.5, "key": v, "v": r.choice([x, self.anyobj()])})
        return ops

    def load(self):
        """A document given as YAML / JSON / XML text (oracle-only stream)."""
        r = self.rng

        def ident():
            self.idn += 1
            v = self.oid(uid(self.idn))
            if isinstance(v, dict) and "idof" in v:
                return None
            if isinstance(v, dict) and v["py"] in ("bytes", "tuple"):
                return spec("int", "7")          # what JSON / YAML text can carry
            return v

        def nm():
            v = self.name()
            if isinstance(v, dict) and ("idof" in v or "nameof" in v):
                return r.choice(NAMES)
            if isinstance(v, dict) and v["py"] in ("bytes", "tuple"):
                return spec("int", "7")
            return v

        def sec(depth):
            out = {"name": nm(), "type": r.choice(["t", "t", "u"]), "id": ident(),
                   "properties": [{"name": nm(), "id": ident()} for _ in range(r.randrange(0, 3))],
                   "sections": []}
            if depth < 2:
                out["sections"] = [sec(depth + 1) for _ in range(r.randrange(0, 3))]
            return out
        return {"op": "load", "fmt": r.choice(["yaml", "json", "xml"]), "id": ident(),
                "sections": [sec(0) for _ in range(r.randrange(1, 4))]}

    def history(self):
        r = self.rng
        if self.odd and r.random() < 0.4:
            ops = [self.load()]
        else:
            ops = [self.construct("doc", False), self.construct("sec", True), self.construct("sec", True)]
        n = r.randrange(5, self.max_ops + 1)
        constructed = 3
        while len(ops) < n:
            block = r.random()
            if block < 0.045:
                ops.extend(self.mirror_block())
                continue
            if block < 0.08:
                ops.extend(self.twin_block())
                continue
            if block < 0.115:
                ops.extend(self.idclash_block())
                continue
            if block < 0.16:
                ops.extend(self.readd_block())
                continue
            if block < 0.20:
                ops.extend(self.deep_block())
                continue
            if self.odd and block < 0.27:
                ops.extend(self.oddpos_block())
                continue
            if not self.odd and block < 0.225:
                ops.extend(self.crowd_block())
                continue
            choice = r.random()
            cont, anyobj, child = self.cont, self.anyobj, self.child
            if choice < 0.20:
                if constructed < self.max_objs:
                    ops.append(self.construct())
                    constructed += 1
            elif choice < 0.32:
                ops.append({"op": "append", "p": cont(), "x": anyobj()})
            elif choice < 0.42:
                ops.append({"op": "insert", "p": cont(), "pos": self.pos(-3, 5), "x": anyobj()})
            elif choice < 0.52:
                k = r.randrange(0, 4)
                xs = [anyobj() for _ in range(k)]
                if xs and r.random() < 0.25:
                    xs.append(dict(r.choice(xs)))          # the same object twice
                op = {"op": "extend", "p": cont(), "xs": xs, "form": r.choice(["list", "list", "tuple", "iter"])}
                if r.random() < 0.15:
                    # the argument is an odML container itself: iterating it yields its children
                    op["xs"] = []
                    op["iter_of"] = P(r, "sec", "sec", "doc")
                ops.append(op)
            elif choice < 0.60:
                ops.append({"op": "remove", "p": cont(), "x": child(), "child_of_p": r.random() < 0.7})
            elif choice < 0.74:
                np_ = r.choice([None, cont(), cont(), P(r, "sec", "doc", "prop")])
                ops.append({"op": "set_parent", "x": child(), "np": np_})
            elif choice < 0.84:
                ops.append({"op": "set_item", "p": cont(), "sec_list": r.random() < 0.6,
                            "key": self.pos(-3, 4), "v": anyobj()})
            elif choice < 0.92:
                ops.append({"op": "reorder", "x": child(), "idx": self.pos(-4, 5)})
            elif choice < 0.97:
                ops.append(self.rename(child()))
            else:
                self.idn += 1
                ops.append({"op": "new_id", "x": P(r, "sec", "prop", "doc"),
                            "oid": self.oid(uid(self.idn)), "fresh": ""})
        return ops


# ----------------------------------------------------------------------------- execution
class World(object):
    def __init__(self):
        self.objs = []
        self.last = {}          # what the last macro operation built / looked at (handles)

    def handle_of(self, obj):
        for i, o in enumerate(self.objs):
            if o is obj:
                return i
        return "?"

    def kind(self, obj):
        import odml
        from odml.doc import BaseDocument
        from odml.section import BaseSection
        if isinstance(obj, BaseDocument):
            return "doc"
        if isinstance(obj, BaseSection):
            return "sec"
        return "prop"

    def snapshot(self):
        out = []
        for i, o in enumerate(self.objs):
            k = self.kind(o)
            par = o.parent
            oid = o.id
            out.append({
                "kind": k,
                "name": "" if k == "doc" else enc_name(o.name, i),
                "id": oid if isinstance(oid, str) or oid is None else u"\x01obj:%r" % (oid,),
                "parent": None if par is None else self.handle_of(par),
                "secs": [self.handle_of(s) for s in list(o.sections)] if k != "prop" else [],
                "props": [self.handle_of(p) for p in list(o.properties)] if k == "sec" else [],
            })
        return out

    @staticmethod
    def name_arg(val, empty):
        name = decode(val)
        if isinstance(name, str) and name == "":
            return None if empty == "none" else ""
        return name

    def apply(self, op):
        import odml
        kind = op["op"]
        O = self.objs
        if kind == "construct":
            k = op["kind"]
            parent = None if op["parent"] is None else O[op["parent"]]
            name = self.name_arg(op["name"], op.get("empty", "none"))
            oid = decode(op["oid"])
            if k == "doc":
                obj = odml.Document(oid=oid)
            elif k == "sec":
                bad = (3, 1) if not op["args_ok"] else None
                which = op.get("badarg", 0) % 3 if not op["args_ok"] else 0
                if op.get("via") == "create" and parent is not None and op["args_ok"] \
                        and hasattr(parent, "create_section"):
                    obj = parent.create_section(name=name, type=op.get("stype", "t"), oid=oid)
                elif which == 1:
                    obj = odml.Section(name=name, type=op.get("stype", "t"), oid=oid, parent=parent,
                                       prop_cardinality=bad)
                elif which == 2:
                    # the first cardinality is fine, the second is not
                    obj = odml.Section(name=name, type=op.get("stype", "t"), oid=oid, parent=parent,
                                       sec_cardinality=(0, 5), prop_cardinality="x")
                else:
                    obj = odml.Section(name=name, type=op.get("stype", "t"), oid=oid, parent=parent,
                                       sec_cardinality=bad)
            else:
                bad = (3, 1) if not op["args_ok"] else None
                which = op.get("badarg", 0) % 4 if not op["args_ok"] else 0
                vals = {"none": None, "list": []}.get(op.get("novals"), [1])
                if op.get("via") == "create" and parent is not None and op["args_ok"] \
                        and hasattr(parent, "create_property"):
                    obj = parent.create_property(name=name, values=vals, oid=oid)
                elif which == 1:
                    # the first value converts, a later one does not
                    obj = odml.Property(name=name, values=["7", "eight", "9"], dtype="int", oid=oid,
                                        parent=parent)
                elif which == 2 and parent is not None and hasattr(parent, "create_property"):
                    obj = parent.create_property(name=name, values=["7", "eight"], dtype="int", oid=oid)
                elif which == 3:
                    # values that are fine, then a cardinality of the wrong shape
                    obj = odml.Property(name=name, values=[1, 2], oid=oid, parent=parent,
                                        val_cardinality=(1, 2, 3))
                else:
                    obj = odml.Property(name=name, values=vals, oid=oid, parent=parent,
                                        val_cardinality=bad)
            O.append(obj)
            op["fresh"] = obj.id
            self.last["made"] = len(O) - 1
            if op.get("mark"):
                self.last[op["mark"]] = len(O) - 1
        elif kind == "new_id":
            try:
                O[op["x"]].new_id(decode(op["oid"]))
            finally:
                op["fresh"] = O[op["x"]].id
        elif kind == "append":
            O[op["p"]].append(O[op["x"]])
        elif kind == "insert":
            O[op["p"]].insert(decode(op["pos"]), O[op["x"]])
        elif kind == "extend":
            arg = [O[x] for x in op["xs"]]
            if op.get("iter_of") is not None:
                arg = O[op["iter_of"]]
            elif op.get("form") == "tuple":
                arg = tuple(arg)
            elif op.get("form") == "iter":
                arg = iter(arg)
            O[op["p"]].extend(arg)
        elif kind == "remove":
            O[op["p"]].remove(O[op["x"]])
        elif kind == "set_parent":
            O[op["x"]].parent = None if op["np"] is None else O[op["np"]]
        elif kind == "set_item":
            lst = O[op["p"]].sections if op["sec_list"] else O[op["p"]].properties
            lst[decode(op["key"])] = O[op["v"]]
        elif kind == "reorder":
            O[op["x"]].reorder(decode(op["idx"]))
        elif kind == "rename":
            O[op["x"]].name = self.name_arg(op["new"], op.get("empty", "none"))
        elif kind == "load":
            self.load(op)
        else:
            raise ValueError(kind)

    # -- a document from text (oracle-only stream) ------------------------------------------------
    def load(self, op):
        from odml.tools.odmlparser import ODMLReader
        fmt = op["fmt"]
        if fmt == "xml":
            text = render_xml(op)
        else:
            def prop(p):
                out = {"name": decode(p["name"]), "value": [1], "type": "int"}
                if p["id"] is not None:
                    out["id"] = decode(p["id"])
                return out

            def sec(s):
                out = {"name": decode(s["name"]), "type": s["type"],
                       "properties": [prop(p) for p in s["properties"]],
                       "sections": [sec(c) for c in s["sections"]]}
                if s["id"] is not None:
                    out["id"] = decode(s["id"])
                return out
            tree = {"odml-version": "1.1", "Document": {"sections": [sec(s) for s in op["sections"]]}}
            if op["id"] is not None:
                tree["Document"]["id"] = decode(op["id"])
            if fmt == "yaml":
                import yaml
                text = yaml.safe_dump(tree, allow_unicode=True)
            else:
                text = json.dumps(tree)
        doc = ODMLReader(parser=fmt.upper(), show_warnings=False).from_string(text)
        if doc is None:
            raise ValueError("nothing loaded")
        found = [doc]
        todo = [doc]
        while todo and len(found) < 200:
            cur = todo.pop(0)
            for s in list(cur.sections):
                if not any(s is o for o in found):
                    found.append(s)
                    todo.append(s)
            if self.kind(cur) == "sec":
                for p in list(cur.properties):
                    if not any(p is o for o in found):
                        found.append(p)
        self.objs.extend(found)


def render_xml(op):
    from xml.sax.saxutils import escape

    def text(v):
        v = decode(v)
        return escape(v if isinstance(v, str) else repr(v))

    def ident(v):
        return "" if v is None else "<id>%s</id>" % text(v)

    def prop(p):
        return "<property><name>%s</name><value>[1]</value><type>int</type>%s</property>" \
            % (text(p["name"]), ident(p["id"]))

    def sec(s):
        return "<section><name>%s</name><type>%s</type>%s%s%s</section>" \
            % (text(s["name"]), s["type"], ident(s["id"]),
               "".join(prop(p) for p in s["properties"]), "".join(sec(c) for c in s["sections"]))
    return '<?xml version="1.0" encoding="UTF-8"?>\n<odML version="1.1">%s%s</odML>' \
        % (ident(op["id"]), "".join(sec(s) for s in op["sections"]))


def pick(w, sym):
    """Symbolic handle -> concrete handle; -1 = there is no such object now."""
    if sym is None or isinstance(sym, int):
        return sym
    rel = sym.get("rel")
    if rel is None:
        cand = [i for i, o in enumerate(w.objs) if w.kind(o) in sym["cls"]]
        if not cand:
            return -1
        return cand[sym["n"] % len(cand)]
    if rel == "last":
        h = w.last.get(sym["key"])
        if h is None or h >= len(w.objs) or w.objs[h] is None:
            return -1
        return h
    base = pick(w, sym["of"])
    if base is None or base == -1:
        return -1
    o = w.objs[base]
    if o is None:
        return -1
    k = w.kind(o)

    def kids(c):
        kc = w.kind(c)
        if kc == "prop":
            return []
        return list(c.sections) + (list(c.properties) if kc == "sec" else [])
    if rel == "child":
        cand = kids(o)
    elif rel == "parent":
        cand = [] if k == "doc" or o.parent is None else [o.parent]
    elif rel == "sibling":
        par = None if k == "doc" else o.parent
        cand = [] if par is None else [c for c in kids(par) if c is not o and w.kind(c) == k]
    else:
        raise ValueError(rel)
    if not cand:
        return -1
    h = w.handle_of(cand[sym.get("n", 0) % len(cand)])
    return h if isinstance(h, int) else -1


def resolve_text(w, val):
    """A name / id argument: texts and odd values as they are; {"idof": X} = the id text of a live
    object (optionally in another spelling), {"nameof": X} = its name. None = not applicable."""
    if isinstance(val, dict) and "idof" in val:
        h = pick(w, val["idof"])
        if h is None or h == -1:
            return False, None
        ident = w.objs[h].id
        if not isinstance(ident, str):
            return False, None
        return True, form_of(val.get("form"), ident)
    if isinstance(val, dict) and "nameof" in val:
        h = pick(w, val["nameof"])
        if h is None or h == -1 or w.kind(w.objs[h]) == "doc":
            return False, None
        return True, spec_of(w.objs[h].name)
    return True, val


def resolve(w, op):
    """Symbolic handles -> concrete handles against the current world; None = not applicable."""
    out = dict(op)
    for key in ("p", "x", "v", "np", "parent"):
        if key in out:
            out[key] = pick(w, out[key])
            if out[key] == -1:
                return None
    if "xs" in out:
        out["xs"] = [pick(w, x) for x in out["xs"]]
        if -1 in out["xs"] or None in out["xs"]:
            return None
    if out.get("iter_of") is not None:
        h = pick(w, out["iter_of"])
        if h is None or h == -1 or w.objs[h] is None or w.kind(w.objs[h]) == "prop":
            return None
        out["iter_of"] = h
        out["xs"] = [w.handle_of(c) for c in list(w.objs[h])]      # what iterating the container yields
        if "?" in out["xs"]:
            return None
    for key in ("name", "new", "oid"):
        if key in out:
            ok, out[key] = resolve_text(w, out[key])
            if not ok:
                return None
    if out["op"] == "rename" and (out["x"] is None or w.kind(w.objs[out["x"]]) == "doc"):
        return None      # a Document has no name setter (plain attribute; not an editing operation)
    if out["op"] in ("append", "insert", "extend", "remove", "set_item") and out.get("p") is None:
        return None
    if out["op"] in ("append", "insert", "remove", "reorder", "set_parent", "new_id") and out.get("x") is None:
        return None
    if out["op"] == "set_item" and out.get("v") is None:
        return None
    if out["op"] == "remove" and out.pop("child_of_p", False):
        # mostly remove a real child of p
        p = w.objs[out["p"]]
        kids = list(p.sections) + (list(p.properties) if hasattr(p, "properties") else [])
        if kids:
            hk = w.handle_of(kids[op["x"]["n"] % len(kids)])
            if isinstance(hk, int):
                out["x"] = hk
    out.pop("child_of_p", None)
    return out


MAX_OBJS_MACRO = 36


def expand(w, op):
    """One generated operation -> the concrete operations it stands for, one at a time (the world
    is looked at again after each of them has been executed)."""
    kind = op["op"]
    if kind == "mirror":
        for cop in _mirror(w, op):
            yield cop
    elif kind == "twin":
        x = pick(w, op["x"])
        p = pick(w, op["p"])
        w.last["twin_orig"] = None
        w.last["twin_copy"] = None
        if x is None or x == -1 or p == -1 or len(w.objs) > MAX_OBJS_MACRO:
            return
        o = w.objs[x]
        k = w.kind(o)
        if k == "doc" or not isinstance(o.id, str):
            return
        w.last["twin_orig"] = x
        n = len(w.objs)
        cop = {"op": "construct", "kind": k,
               "name": o.id if op.get("namesake") else spec_of(o.name),
               "oid": None if op.get("namesake") else o.id, "fresh": "", "parent": p, "args_ok": True,
               "via": "ctor", "macro": "twin"}
        if k == "sec":
            cop["stype"] = o.type
        cop.update(_attrs(o, k))
        yield cop
        if len(w.objs) == n + 1:
            w.last["twin_copy"] = n
    else:
        cop = resolve(w, op)
        if cop is not None:
            yield cop


def _attrs(o, k):
    """Attributes that make == answer (they play no role for the tree structure and are not in the
    model; only the extended executor of c03.py sets them)."""
    try:
        if k == "sec":
            return {"defn": o.definition}
        if k == "prop":
            vals = o.values
            json.dumps(vals)
            return {"unit": o.unit, "vals": vals, "dt": o.dtype, "ref": o.reference}
    except Exception:
        pass
    return {}


def _mirror(w, op):
    x = pick(w, op["x"])
    p = pick(w, op["p"])
    w.last["mirror_orig"] = None
    w.last["mirror_copy"] = None
    if x is None or x == -1 or p == -1 or len(w.objs) > MAX_OBJS_MACRO:
        return
    root = w.objs[x]
    if w.kind(root) == "prop":
        return
    w.last["mirror_orig"] = x
    nodes = [(root, None)]         # (original, index of its parent's entry)
    i = 0
    while i < len(nodes) and len(nodes) < 7:
        cur = nodes[i][0]
        if w.kind(cur) != "prop":
            kids = list(cur.sections) + (list(cur.properties) if w.kind(cur) == "sec" else [])
            for c in kids:
                if len(nodes) < 7 and not any(c is n[0] for n in nodes):
                    nodes.append((c, i))
        i += 1
    made = {}
    for i, (o, pi) in enumerate(nodes):
        if i > 0 and pi not in made:
            continue               # the copy of its parent was refused
        k = w.kind(o)
        n = len(w.objs)
        cop = {"op": "construct", "kind": k, "name": "" if k == "doc" else spec_of(o.name), "oid": None,
               "fresh": "", "parent": (None if k == "doc" else p) if i == 0 else made[pi],
               "args_ok": True, "via": "ctor", "macro": "mirror"}
        if k == "sec":
            cop["stype"] = o.type
        cop.update(_attrs(o, k))
        yield cop
        if len(w.objs) == n + 1:
            made[i] = n
            if i == 0:
                w.last["mirror_copy"] = n


# ----------------------------------------------------------------------------- derived queries
Q_MODES = ["all", "all", "all", "sparse", "sparse", "end"]


def q_plan(rng):
    """The query plan of one history (part of the case, so a replay asks the same questions)."""
    return {"mode": rng.choice(Q_MODES), "seed": rng.randrange(1 << 30)}


class Queries(object):
    """Asks the derived queries between the operations of a history.

    mode "all": `.document` of every object after every operation (an answer computed at any point
    of the history is checked again after every later operation); "sparse": of some objects at some
    points (objects are also left unasked for a while: nothing may rely on the query having run);
    "end": only after the last operation. Independently of the mode some objects are asked for
    get_path(), itersections(), iterproperties() and an absolute path lookup (these walk the tree
    and ask for documents inside the library); they only have to come back."""

    def __init__(self, plan=None):
        import random
        plan = plan or {"mode": "all", "seed": 0}
        self.mode = plan.get("mode", "all")
        self.rng = random.Random(plan.get("seed", 0))

    @staticmethod
    def document(w, o):
        try:
            d = o.document
        except RecursionError:
            return "!RecursionError"
        except Exception as exc:
            return "!" + fw.exc_name(exc)
        return None if d is None else w.handle_of(d)

    @staticmethod
    def warm(w, o):
        k = w.kind(o)
        calls = []
        if k != "prop":
            calls.append(lambda: len(list(o.itersections())))
            calls.append(lambda: len(list(o.iterproperties())))
        if k == "sec":
            calls.append(lambda: o.get_section_by_path(o.get_path()))
            calls.append(lambda: o.get_section_by_path("/"))
        calls.append(o.get_path)
        out = []
        for call in calls:
            try:
                call()
                out.append("ok")
            except RecursionError:
                out.append("RecursionError")
            except Exception:
                out.append("raised")        # e.g. "/".join over a name that is not a text
        return out

    broken = False
    cyclic = False

    def after(self, w, snap):
        """The queries after one operation. Once the tree is not well-formed any more (that is
        reported by the oracle; nothing is expected beyond it) no further question is asked: on a
        cyclic structure the walks of the library do not come back."""
        if not self.broken:
            fails = wf_failures([_LOST if o is None else o for o in snap])
            if fails:
                self.broken = True
                # an object that is its own ancestor: the history ends here (the break is reported by
                # the oracle at this step; every later operation that walks up - _check_no_cycle,
                # get_path - would spin until the case timeout, and nothing beyond a broken tree is
                # judged anyway)
                self.cyclic = any("own ancestor" in f for f in fails)
        return {} if self.broken else self.ask(w)

    def finish(self, w, trace):
        if trace and not self.broken and self.mode != "all":
            trace[-1]["q"] = self.ask(w, final=True)

    def ask(self, w, final=False):
        r = self.rng
        live = [(i, o) for i, o in enumerate(w.objs) if o is not None]
        warmed = []
        for i, o in live:
            if r.random() < (0.15 if self.mode == "all" else 0.3):
                warmed.append([i, self.warm(w, o)])
        if final or self.mode == "all":
            chosen = live
        elif self.mode == "sparse" and r.random() < 0.6:
            chosen = [x for x in live if r.random() < 0.5]
        else:
            chosen = []
        return {"doc": [[i, self.document(w, o)] for i, o in chosen], "warm": warmed}


_LOST = {"kind": "sec", "name": "#lost", "id": "", "parent": None, "secs": [], "props": []}


def split_docs(msnap):
    """A model snapshot -> (snapshot without the answers of the query model, the answers)."""
    docs = []
    for o in msnap:
        docs.append(o.pop("doc", None) if isinstance(o, dict) else None)
    return msnap, docs


def doc_disagreements(q, mdocs):
    return ["object %d: .document is %r, the model of the query answers %r" % (i, a, mdocs[i])
            for i, a in (q or {}).get("doc", []) if i < len(mdocs) and a != mdocs[i]]


def doc_failures(snap, q):
    """`an object's document is the root of its parent chain` over one well-formed snapshot: the
    root is found by walking the `parent` entries of the snapshot (what `.parent` answered)."""
    fails = []
    for i, ans in (q or {}).get("doc", []):
        if i >= len(snap) or snap[i] is None:
            continue
        cur, steps = i, 0
        while cur is not None and cur != "?" and snap[cur]["parent"] is not None and steps <= len(snap):
            cur = snap[cur]["parent"]
            steps += 1
        if cur is None or cur == "?" or steps > len(snap):
            continue
        want = cur if snap[cur]["kind"] == "doc" else None
        if ans != want:
            fails.append("object %d: .document is %s, the root of its parent chain is object %d (%s): expected %s"
                         % (i, ans, cur, snap[cur]["kind"], want))
    for i, outs in (q or {}).get("warm", []):
        if "RecursionError" in outs:
            fails.append("object %d: a path / traversal query did not terminate (RecursionError)" % i)
    return fails


def run_history(ops, plan=None):
    """-> (trace, resolved ops): per executed op {"out", "snap", "q"}; ops that cannot be resolved are
    dropped. "q": what the derived queries answered after the op (see Queries)."""
    w = World()
    trace = []
    done = []
    qs = Queries(plan)
    for op in ops:
        for cop in expand(w, op):
            try:
                w.apply(cop)
                out = "ok"
            except RecursionError:
                out = "RecursionError"
            except Exception as exc:
                out = fw.exc_name(exc)
            snap = w.snapshot()
            trace.append({"out": out, "snap": snap, "q": qs.after(w, snap)})
            done.append(cop)
            if qs.cyclic:
                return trace, done
    qs.finish(w, trace)
    return trace, done


def model_ops(done):
    """Concrete ops for the model (API-variant keys removed; digits of other scripts in id texts
    translated, see model_text)."""
    out = []
    for op in done:
        m = dict((k, v) for k, v in op.items()
                 if k not in ("via", "macro", "form", "iter_of", "mark", "novals", "badarg", "dt", "ref"))
        if isinstance(m.get("oid"), str):
            m["oid"] = model_text(m["oid"])
        out.append(m)
    return out


# ----------------------------------------------------------------------------- oracles
def wf_failures(snap):
    """C03 + C04 over a snapshot (handles), independent of the model."""
    fails = []
    n = len(snap)
    where = {}
    for i, o in enumerate(snap):
        for lst in ("secs", "props"):
            for c in o[lst]:
                where.setdefault(c, []).append((i, lst))
    for i, o in enumerate(snap):
        par = o["parent"]
        spots = where.get(i, [])
        if par is not None:
            if par == "?":
                fails.append("object %d reports a parent that is not a known object" % i)
                continue
            want = "secs" if o["kind"] == "sec" else "props"
            if spots.count((par, want)) != 1:
                fails.append("object %d reports parent %s but is listed there %d times"
                             % (i, par, spots.count((par, want))))
            others = [s for s in spots if s != (par, want)]
            if others:
                fails.append("object %d is also listed in %s" % (i, others))
        elif spots:
            fails.append("object %d has no parent but is listed in %s" % (i, spots))
        for lst in ("secs", "props"):
            for c in o[lst]:
                if c == "?" or snap[c]["parent"] != i:
                    fails.append("container %d lists %s whose parent is %s"
                                 % (i, c, "?" if c == "?" else snap[c]["parent"]))
            names = [snap[c]["name"] for c in o[lst] if c != "?"]
            if len(set(names)) != len(names):
                fails.append("container %d has duplicate %s names %s" % (i, lst, names))
        if o["kind"] != "doc" and not o["name"]:
            fails.append("object %d has an empty name" % i)
        # ancestors
        seen = set()
        cur = i
        while cur is not None and cur != "?":
            if cur in seen:
                fails.append("object %d is its own ancestor" % i)
                break
            seen.add(cur)
            cur = snap[cur]["parent"]
    return fails


def first_wf_break(trace):
    for k, step in enumerate(trace):
        f = wf_failures(step["snap"])
        if f:
            return k, f
    return None, []
