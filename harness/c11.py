# -*- coding: utf-8 -*-
"""
C11 - Copies handed out are equal to, and independent of, the original.

Tie between lean/OdmlModel/Model/Clone.lean and /repo: generated documents x every node as
clone / export_leaf root x flags x edit sequences applied to the copy or to the original
(value edits incl. in-place edits of lists returned by `values`, of their inner tuple lists and
of lists passed in as `values`, writes to the stored tuple items through the bracket access
`prop[i][j] = s`, renames, attribute and cardinality changes, dtype changes, structural edits),
optionally after a history of edits of the original, or alternating between both sides. After every operation both worlds are snapshotted completely (every
parentless object as a tree with object identities, every list the caller holds) and compared
with the compiled model; the oracle (independent of the model) checks the laws of the property
on the implementation's snapshots alone.

Round 3: the edits also move objects from one side to the other (see `cross_move`, `move_law`).
Round 4: copies put back into the tree of their original and ids repeated along a path (`nest_ops`,
`dup_ids`); the counterfactual clause (`counterfactual`): each case of the stream `+cf` is also run without
the operations of one side, and the other side must behave the same - state no snapshot shows included.
Round 5: repositories - the attribute a Section inherits from the Sections above it and from the Document
(`Gen.repos`, every third document; every such document is also a template file for
TemplateHandler.clone_section), written through its setter on both sides, unresolvable includes, what each
object answers for `get_repository()` in every snapshot (model: `inherited`, theorem
`clone_inherits_nothing`); the handler asked for what does not exist (`clone_missing`).
Record tie: the record a merge keeps (`_merged_attrs`, the dict a copy shares with its original) is part of
every snapshot compared with the model (items and identity of the dict); merge / unmerge / clean steps of the
counterfactual stream are model operations where the merged Section has no children and no link is to be
rewritten (block RECORD TIE, `Gen.rec_cases`).
"""
import os
import shutil
import sys
import tempfile

import framework as fw

SEC_KEYS = ["type", "definition", "reference", "repository", "link", "include",
            "sec_cardinality", "prop_cardinality"]
PROP_KEYS = ["dtype", "unit", "uncertainty", "reference", "definition", "dependency",
             "dependency_value", "value_origin", "val_cardinality"]
DOC_KEYS = ["author", "version", "date", "repository"]
NAMES = ["a", "b", "c", "ab", "k"]
WIDE_NAMES = ["n%d" % i for i in range(12)]
# all tokens are in the normal form of an item of an odML tuple (no ';', no brackets, no blanks at
# the ends): a value edited in place through the bracket access stays a value the library accepts
TOKENS = ["a", "b", "c", "x1", "Y", "zz", u"\u00fc", "a b", u"\u65e5\u672c"]
TUP_N = {"tup": 2, "tup1": 1, "tup3": 3, "tup10": 10}
FAMILY_DTYPE = {"str": "string", "int": "int", "tup": "2-tuple", "tup1": "1-tuple", "tup3": "3-tuple",
                "tup10": "10-tuple", "float": "float", "bool": "boolean", "date": "date",
                "datetime": "datetime", "time": "time", "url": "url", "person": "person"}
DTYPE_FAMILY = dict((v, k) for k, v in FAMILY_DTYPE.items())
DTYPE_FAMILY["text"] = "str"
GEN_FAMILIES = ["str", "str", "int", "tup", "tup", "tup", "tup3", "tup3", "tup10", "tup1", "float", "bool",
                "date", "datetime", "time", "url", "person"]
LIST_FAMILIES = ["str", "int", "tup", "tup", "tup3", "tup3", "tup10", "float", "date"]
INTS = [-3, 10, 1000, 12345678901234567890]
FLOATS = [0.5, -1.25, 3.0, 1e+20, 0.1]
DATES = [(2011, 12, 1), (999, 1, 2), (1, 1, 1), (2024, 2, 29), (1970, 1, 1)]
TIMES = [(0, 0, 0), (12, 0, 1), (23, 59, 59)]

# round 5: repositories (an attribute a Section INHERITS from the Sections above it and from the Document
# when it has none of its own: `get_repository`). None of them can be reached: the loader thread the
# `repository` setter starts fails at once, nothing leaves the machine. "<inc>" stands for the terminology
# file of the case (reachable), where there is one.
REPOS = ["file:///nonexistent/c11/terms.xml", "file:///nonexistent/c11/terms.xml#amplifier",
         "file:///nonexistent/c11/other.xml", u"file:///nonexistent/c11/t\u00e9rm.xml", "a", "not a url"]
DOC_DATES = ["2011-12-01", "0999-01-02", ""]

# "clone_missing": TemplateHandler.clone_section asked for a Section / a file that does not exist - it
# has to refuse and, like every producer, change nothing that exists
PRODUCERS = ("clone", "export", "get_values", "new_list", "new_obj", "clone_missing")
LIST_MUTATORS = ("list_append", "list_set", "list_del", "list_inner_set")
FREE_OPS = ("insert", "reorder", "set_card", "prop_extend", "prop_remove", "prop_insert", "clean",
            "create_section", "create_property", "set_parent", "extend", "values_retype", "sec_merge",
            # round 2: direct (bracket) access to the stored values in every spelling, items held
            # across a copy, copies made by Section.merge from the other side, links, lists passed
            # in through the other entry points
            "inner_edit", "inner_edit", "hold_item", "held_set", "held_set", "merge_across", "merge_across",
            "set_link", "finalize", "ctor_from_list", "extend_from_list", "set_values_wrapped",
            "value_alias",
            # round 3: objects that cross the boundary between the original and the copy (every
            # entry point that re-parents an object), children grown in one twin, the twin of a
            # child given to remove, the child lists edited through the list objects handed out
            "cross_move", "cross_move", "cross_move", "grow", "grow", "remove_twin", "child_list_edit",
            "values_across", "values_across",
            # round 4: the merged state of a Section taken back directly
            "unmerge")
# operations that have operands on both sides (or choose by what the other side holds): not part of
# the histories of the counterfactual stream, in which each side must evolve on its own
BOTH_SIDES_OPS = ("cross_move", "grow", "remove_twin", "merge_across", "values_across")
CROSS_HOWS = ("append", "append", "insert", "insert", "extend1", "extend_tuple", "extend_iter", "extend2",
              "parent", "parent", "setitem", "extend_childlist")
GROW_HOWS = ("new_append", "create", "ctor_parent", "new_insert", "new_parent")
GROW_NAMES = ["g0", "g1", "g2", "g3", "extra", u"n\u00e9w", "a", "b"]
POSITIONS = [0, 0, 1, 2, -1, -2, 3, 10, 11, -11, 100, -100]


def enc_atom(v):
    return "%s:%r" % (type(v).__name__, v)


def enc_values(vals):
    return [[str(x) for x in v] if isinstance(v, (list, tuple)) else enc_atom(v) for v in vals]


def family_of(dtype):
    if dtype is None:
        return None
    return DTYPE_FAMILY.get(dtype)


def kind_of(obj):
    from odml.doc import BaseDocument
    from odml.section import BaseSection
    from odml.property import BaseProperty
    if isinstance(obj, BaseDocument):
        return "doc"
    if isinstance(obj, BaseSection):
        return "sec"
    if isinstance(obj, BaseProperty):
        return "prop"
    return None


def ancestors(obj):
    out, cur, guard = [], obj, 0
    while cur is not None and guard < 2000:
        out.append(cur)
        cur = cur.parent
        guard += 1
    return out


def related(a, b):
    """One of the two objects lies on the path from the other to its root."""
    return any(x is b for x in ancestors(a)) or any(x is a for x in ancestors(b))


def linked_sections(root, limit=2000):
    """The Sections below (and including) root that carry a link."""
    out, todo = [], [root]
    while todo and limit > 0:
        cur = todo.pop()
        limit -= 1
        if kind_of(cur) == "sec" and cur.link is not None:
            out.append(cur)
        todo.extend(list(cur.sections))
    return out


def attrs_of(obj, kind):
    keys = {"doc": DOC_KEYS, "sec": SEC_KEYS, "prop": PROP_KEYS}[kind]
    return [repr(getattr(obj, k, "<missing>")) for k in keys]


# ----------------------------------------------------------------------------- literals
def py_and_lit(family, r, allow_list_form=True, json_safe=False):
    """A value of the family: (python input for the API, stored python form, model literal).
    allow_list_form: the input may be a spelling only the `values` setter takes (a tuple value as a
    list, a date as text); append / insert / prop[i] = v get the stored form or the tuple text.
    json_safe: the input is JSON (document specs are part of the case)."""
    import datetime
    if family == "int":
        v = r.randrange(0, 10)
        if r.random() < 0.15:
            v = r.choice(INTS)
        return v, v, {"a": enc_atom(v)}
    if family in TUP_N:
        items = [r.choice(TOKENS) for _ in range(TUP_N[family])]
        if allow_list_form and r.random() < 0.5:
            return list(items), list(items), {"t": list(items)}
        return "(%s)" % ";".join(items), list(items), {"t": list(items)}
    if family == "float":
        v = r.choice(FLOATS)
        py = repr(v) if allow_list_form and r.random() < 0.3 else v
        return py, v, {"a": enc_atom(v)}
    if family == "bool":
        v = r.random() < 0.5
        py = ("true" if v else "False") if allow_list_form and r.random() < 0.3 else v
        return py, v, {"a": enc_atom(v)}
    if family in ("date", "datetime", "time"):
        d, t = r.choice(DATES), r.choice(TIMES)
        if family == "date":
            v = datetime.date(*d)
            text = "%04d-%02d-%02d" % d
        elif family == "time":
            v = datetime.time(*t)
            text = "%02d:%02d:%02d" % t
        else:
            v = datetime.datetime(*(d + t))
            text = "%04d-%02d-%02d %02d:%02d:%02d" % (d + t)
        py = text if json_safe or (allow_list_form and r.random() < 0.4) else v
        return py, v, {"a": enc_atom(v)}
    v = r.choice(TOKENS)
    return v, v, {"a": enc_atom(v)}


# ----------------------------------------------------------------------------- the world
class World(object):
    """Objects and caller-held lists of one case, addressed by table index (the Lean driver keeps
    the same two tables)."""

    def __init__(self):
        self.objs = []
        self.lists = []
        self.side_obj = {}       # table index -> "orig" / "copy"
        self.side_list = {}
        self.list_family = {}
        self.scrub = None        # private temp directory of the case: not part of what is observed

    def attrs(self, obj, kind):
        out = attrs_of(obj, kind)
        if self.scrub:
            out = [a.replace(self.scrub, "<tmp>") for a in out]
        return out

    def idx(self, obj):
        for i, o in enumerate(self.objs):
            if o is obj:
                return i
        return None

    def register_tree(self, obj, side):
        """node, sections (recursively), properties - the order of the driver's `register`."""
        self.side_obj.setdefault(len(self.objs), side)
        self.objs.append(obj)
        kind = kind_of(obj)
        if kind in ("doc", "sec"):
            for s in list(obj.sections):
                self.register_tree(s, side)
        if kind == "sec":
            for p in list(obj.properties):
                self.side_obj.setdefault(len(self.objs), side)
                self.objs.append(p)

    def register_list(self, lst, side, family):
        self.side_list[len(self.lists)] = side
        self.list_family[len(self.lists)] = family
        self.lists.append(lst)
        return len(self.lists) - 1

    def tree(self, obj, depth=0):
        kind = kind_of(obj)
        if depth > 40:
            # a well-formed leaf, so that everything that walks snapshots can go on
            return {"h": self.idx(obj), "k": kind, "n": "<too deep>", "id": "<too deep>", "a": [],
                    "v": None, "m": None, "r": None, "s": [], "p": [], "too_deep": True}
        node = {"h": self.idx(obj), "k": kind, "n": "" if kind == "doc" else obj.name, "id": obj.id,
                "a": self.attrs(obj, kind), "v": None, "m": None, "r": None, "s": [], "p": []}
        if kind in ("doc", "sec"):
            # what the object answers for its repository: its own, or what it inherits from the
            # nearest object above it that has one (round 5; the model: `inherited`)
            try:
                eff = obj.get_repository()
                node["r"] = None if eff is None else repr(eff)
            except Exception as exc:
                node["r"] = "<%s>" % fw.exc_name(exc)
            if self.scrub and node["r"]:
                node["r"] = node["r"].replace(self.scrub, "<tmp>")
        if kind == "prop":
            node["v"] = enc_values(obj.values)
        if kind == "sec":
            m = obj.get_merged_equivalent()
            node["m"] = self.idx(m) if m is not None else None
            if m is not None and node["m"] is None:
                node["m"] = -1
            # the record of a merge (the one piece of state a copy shares with its original): items and
            # identity of the dict, compared with the model only (RECORD TIE below; the oracle does not
            # look at them). Opportunistic: a library without such a dict is not asked about it.
            if hasattr(obj, "_merged_attrs"):
                node.update(rec_node_fields(obj))
        if kind in ("doc", "sec"):
            node["s"] = [self.tree(s, depth + 1) for s in obj.sections]
        if kind == "sec":
            node["p"] = [self.tree(p, depth + 1) for p in obj.properties]
        return node

    def snap(self):
        roots = {}
        for i, o in enumerate(self.objs):
            if self.idx(o) != i:
                continue                          # registered twice: shared with an older object
            if o.parent is None:
                roots[str(i)] = self.tree(o)
        return {"roots": roots, "lists": [enc_values(l) for l in self.lists]}

    def init_table(self):
        out = []
        classes = rec_classes(self.objs)
        for i, o in enumerate(self.objs):
            kind = kind_of(o)
            par = o.parent if kind != "doc" else None
            ent = {"kind": kind, "name": "" if kind == "doc" else o.name, "id": o.id,
                   "attrs": self.attrs(o, kind), "parent": self.idx(par) if par is not None else None,
                   "vals": None, "merged": None}
            if kind == "prop":
                ent["vals"] = [{"t": [str(x) for x in v]} if isinstance(v, list) else {"a": enc_atom(v)}
                               for v in o.values]
            if kind == "sec":
                m = o.get_merged_equivalent()
                ent["merged"] = self.idx(m) if m is not None else None
                if hasattr(o, "_merged_attrs"):
                    ent["ma"] = rec_items(o)          # the record of a merge made before the case starts
                    ent["mc"] = classes[i]            # same number = the same dict
            out.append(ent)
        return out


def build_doc(spec, inc_url=None):
    import odml
    def repo(val):
        # "<inc>": the terminology file of the case (a repository that can be reached)
        if val == "<inc>":
            return inc_url
        return val
    doc = odml.Document(author=spec.get("author"), version=spec.get("version"), date=spec.get("date"),
                        oid=spec.get("oid"), repository=repo(spec.get("repository")))

    def add_sec(parent, s):
        # "ulink": the link is given to the constructor, which stores it unresolved
        # "uinc": an include that cannot be resolved (the file does not exist); it stays an attribute
        sec = odml.Section(name=s["name"], type=s.get("type", "t"), parent=parent,
                           definition=s.get("definition"), oid=s.get("oid"),
                           reference=s.get("reference"), link=s.get("ulink"),
                           repository=repo(s.get("repository")),
                           include=s.get("uinc") if not s.get("ulink") else None)
        if s.get("sec_card") is not None:
            sec.sec_cardinality = tuple(s["sec_card"])
        if s.get("prop_card") is not None:
            sec.prop_cardinality = tuple(s["prop_card"])
        for p in s.get("props", []):
            prop = odml.Property(name=p["name"], values=p.get("values"), dtype=p.get("dtype"),
                                 unit=p.get("unit"), definition=p.get("definition"), parent=sec,
                                 oid=p.get("oid"), uncertainty=p.get("uncertainty"),
                                 reference=p.get("reference"), dependency=p.get("dependency"),
                                 dependency_value=p.get("dependency_value"),
                                 value_origin=p.get("value_origin"))
            if p.get("val_card") is not None:
                prop.val_cardinality = tuple(p["val_card"])
        for sub in s.get("sections", []):
            add_sec(sec, sub)
        if s.get("link"):
            links.append((sec, s["link"]))
        if s.get("inc") and inc_url is not None:
            incs.append((sec, inc_url + "#" + s["inc"]))
        return sec

    links = []
    incs = []
    for s in spec.get("sections", []):
        add_sec(doc, s)
    for sec, target in incs:
        try:
            sec.include = target               # public setter: loads the file, merges the Section at once
        except Exception:
            pass
    if spec.get("finalize"):
        for sec, path in links:
            try:
                sec.link = path                # public setter: resolves the link (merge) at once
            except Exception:
                pass
    return doc


# ----------------------------------------------------------------------------- generation
class Gen(object):
    def __init__(self, rng):
        self.r = rng
        self.idn = 0

    def oid(self):
        import uuid
        self.idn += 1
        return str(uuid.UUID(int=(self.idn * 2654435761 + self.r.randrange(1 << 60)) % (1 << 128)))

    def prop(self, name):
        r = self.r
        fam = r.choice(GEN_FAMILIES)
        n = r.choice([0, 1, 1, 2, 3])
        if r.random() < 0.06:
            n = r.choice([10, 11, 12])          # a tenth value and beyond
        vals = []
        for _ in range(n):
            py, _st, _lit = py_and_lit(fam, r, json_safe=True)
            vals.append(py)
        p = {"name": name, "dtype": FAMILY_DTYPE[fam], "values": vals}
        if fam == "str" and r.random() < 0.3:
            p["dtype"] = "text"
        if r.random() < 0.3:
            p["unit"] = r.choice(["mV", "s"])
        if r.random() < 0.2:
            p["definition"] = r.choice(TOKENS)
        if r.random() < 0.2:
            # incl. bounds the values do not meet (cardinalities only warn) and min == max
            p["val_card"] = r.choice([[None, 5], [1, None], [0, 4], [None, 1], [3, None], [2, 2]])
        for key in ("uncertainty", "reference", "dependency", "dependency_value", "value_origin"):
            if r.random() < 0.08:
                p[key] = r.choice(TOKENS)
        if r.random() < 0.85:
            p["oid"] = self.oid()
        if r.random() < 0.1:
            p["name"] = None              # unnamed: the library names it by its id
        return p

    def sec(self, name, depth, budget, shape=None):
        r = self.r
        s = {"name": name, "type": r.choice(["t", "u", "t/v"]), "props": [], "sections": []}
        if r.random() < 0.3:
            s["definition"] = r.choice(TOKENS)
        if r.random() < 0.08:
            s["reference"] = r.choice(TOKENS)
        if r.random() < 0.15:
            s["sec_card"] = r.choice([[None, 4], [1, None], [None, 1], [2, 2]])
        if r.random() < 0.1:
            s["prop_card"] = r.choice([[None, 4], [1, None], [None, 1], [2, 2]])
        if r.random() < 0.85:
            s["oid"] = self.oid()
        wide = shape == "wide" and depth == 1 and not budget[1]
        if wide:
            budget[1] = True                   # one Section with a tenth child and beyond
            names = WIDE_NAMES[:r.choice([10, 11, 12])]
        else:
            names = r.sample(NAMES, r.choice([0, 1, 1, 2, 3]))
        for nm in names:
            if budget[0] <= 0:
                break
            budget[0] -= 1
            s["props"].append(self.prop(nm))
        if depth > 1 and r.random() < 0.1:
            s["name"] = None              # unnamed Section below the top level (named by its id)
        if shape == "deep":
            # a chain (the path export_leaf copies): 7 levels, a Property here and there
            if depth < 7:
                s["sections"].append(self.sec(r.choice(NAMES), depth + 1, budget, shape))
                if r.random() < 0.3 and budget[0] > 0:
                    budget[0] -= 1
                    s["sections"].append(self.sec("side", 7, budget, None))
        elif depth < 3:
            names = WIDE_NAMES[:r.choice([10, 11])] if wide and r.random() < 0.5 else \
                r.sample(NAMES, r.choice([0, 0, 1, 1, 2]))
            for nm in names:
                if budget[0] <= 0:
                    break
                budget[0] -= 1
                s["sections"].append(self.sec(nm, depth + 1, budget if not wide else [0, True]))
        return s

    def doc(self, linked=False, shape=None):
        r = self.r
        budget = [r.choice([3, 6, 10, 14]), False]
        if shape == "wide":
            budget[0] = 30
        if shape == "deep":
            budget[0] = 12
        d = {"author": r.choice([None, "me"]), "version": r.choice([None, "1"]), "sections": []}
        if r.random() < 0.15:
            d["date"] = r.choice(["2011-12-01", "0999-01-02"])
        for nm in r.sample(NAMES, r.choice([1, 2, 2, 3]) if shape is None else r.choice([1, 2])):
            budget[0] -= 1
            d["sections"].append(self.sec(nm, 1, budget, shape))
        if linked and len(d["sections"]) >= 2:
            src = d["sections"][0]
            tgt = d["sections"][1]
            if r.random() < 0.3:
                # the same link left unresolved (constructor argument); Document.finalize or a
                # load of the written file (template / include stream) resolves it
                src["ulink"] = "/" + tgt["name"]
            else:
                src["link"] = "/" + tgt["name"]
                d["finalize"] = True
        return d

    def sel(self, what):
        return {"sel": what, "n": self.r.randrange(0, 1000)}

    def edit(self, free):
        r = self.r
        x = r.random()
        seed = r.randrange(1 << 30)
        if free and x < 0.45:
            o = r.choice(FREE_OPS)
            return {"o": o, "p": self.sel("cont"), "x": self.sel("child"), "q": self.sel("prop"),
                    "pos": r.randrange(-3, 4), "seed": seed, "name": r.choice(NAMES),
                    "t": self.sel("tupprop"), "i": r.randrange(0, 3), "j": r.randrange(0, 3),
                    "s": r.choice(TOKENS), "l": r.randrange(1000), "y": self.sel("sec"),
                    "wrap": r.random() < 0.8,
                    # round 3
                    "how": r.randrange(1000), "tw": r.random() < 0.6, "push": r.random() < 0.3,
                    "x2": self.sel("secprop"), "kind": r.choice(["sec", "prop"]),
                    "family": r.choice(LIST_FAMILIES), "n": r.choice([0, 1, 2]),
                    "gname": r.choice(GROW_NAMES), "at": r.choice(POSITIONS), "k": r.randrange(1000),
                    "same": r.random() < 0.1}
        table = [
            (0.10, {"o": "get_values", "p": self.sel("prop")}),
            (0.07, {"o": "set_values_from", "p": self.sel("prop"), "l": r.randrange(1000)}),
            (0.08, {"o": "set_values", "p": self.sel("prop"), "seed": seed, "n": r.choice([0, 1, 2, 3])}),
            (0.07, {"o": "append_value", "p": self.sel("prop"), "seed": seed}),
            (0.06, {"o": "set_value_at", "p": self.sel("prop"), "i": r.randrange(0, 4), "seed": seed}),
            (0.05, {"o": "set_dtype", "p": self.sel("prop")}),
            (0.04, {"o": "new_list", "family": r.choice(LIST_FAMILIES), "seed": seed,
                    "n": r.choice([0, 1, 2, 3])}),
            # prop[i][j] = s: the bracket access hands out the stored tuple item itself
            (0.10, {"o": "value_inner_set", "p": self.sel("tupprop"), "i": r.randrange(0, 12),
                    "j": r.randrange(0, 12), "s": r.choice(TOKENS), "wrap": r.random() < 0.8}),
            (0.07, {"o": "list_append", "l": r.randrange(1000), "seed": seed}),
            (0.06, {"o": "list_set", "l": r.randrange(1000), "i": r.randrange(0, 4), "seed": seed}),
            (0.05, {"o": "list_del", "l": r.randrange(1000), "i": r.randrange(0, 4)}),
            (0.09, {"o": "list_inner_set", "l": r.randrange(1000), "i": r.randrange(0, 3),
                    "j": r.randrange(0, 3), "s": r.choice(TOKENS)}),
            (0.05, {"o": "new_obj", "kind": r.choice(["sec", "prop"]), "name": r.choice(NAMES),
                    "family": r.choice(LIST_FAMILIES), "seed": seed, "n": r.choice([0, 1, 2])}),
            (0.06, {"o": "append", "p": self.sel("cont"), "x": self.sel("secprop")}),
            (0.05, {"o": "remove", "p": self.sel("cont"), "x": self.sel("child"), "k": r.randrange(1000)}),
            (0.06, {"o": "rename", "x": self.sel("secprop"), "new": r.choice(NAMES)}),
            (0.07, {"o": "set_attr", "x": self.sel("any"), "which": r.randrange(0, 6),
                    "val": r.choice(TOKENS + ["card1", "card2", "none"])}),
            # round 5: the repository (Document and Sections: its own setter, '' means None) and the
            # date of the Document
            (0.03, {"o": "set_attr", "x": self.sel("cont"), "which": r.randrange(0, 6),
                    "attr": r.choice(["repository", "repository", "repository", "date"]),
                    "val": r.choice(REPOS + ["", "none"]), "k": r.randrange(1000)}),
            (0.02, {"o": "set_attr", "x": self.sel("prop"), "which": r.randrange(0, 6),
                    "attr": r.choice(["uncertainty", "dependency_value"]),
                    "val": r.choice(TOKENS), "k": r.randrange(1000)}),
            (0.02, {"o": "new_id", "x": self.sel("any")}),
            (0.03, {"o": "clone", "x": self.sel("any"), "children": r.random() < 0.7,
                    "keep": r.random() < 0.4, "style": r.choice(["kw", "pos"])}),
            (0.02, {"o": "export", "x": self.sel("secprop")}),
            # round 3, in the vocabulary of the model (new_obj / append / remove with handles): an
            # object of the other side is appended here (or one from here over there), a new child
            # grows in a container that has a twin, the twin of a child is given to remove
            (0.04, self.round3("cross_move", seed)),
            (0.03, self.round3("grow", seed)),
            (0.02, self.round3("remove_twin", seed)),
            # round 4: a copy is put back into the tree it was taken from (below its original, a
            # descendant or an ancestor of it), objects inside such a copy are exported
            (0.02, {"o": "append", "p": self.sel(r.choice(["lastsrc", "lastsrc_tree", "lastsrc_up"])),
                    "x": self.sel("lastcopy")}),
            (0.02, {"o": "export", "x": self.sel("in_lastcopy")}),
        ]
        tot = sum(w for w, _ in table)
        y = r.random() * tot
        for w, op in table:
            y -= w
            if y <= 0:
                return op
        return table[0][1]

    def free_op(self, o):
        while True:
            op = self.edit(True)
            if op["o"] in FREE_OPS and "m" not in op:
                op["o"] = o
                return op

    def hold_then_edit(self, case):
        """A tuple item obtained from the original (item = prop[i]) before the copy is made and
        written to afterwards."""
        case.setdefault("pre", []).append(self.free_op("hold_item"))
        for _ in range(self.r.choice([1, 2])):
            op = self.free_op("held_set")
            if case["side"] == "mixed":
                op["sd"] = "orig"
            case["ops"].insert(self.r.randrange(0, len(case["ops"]) + 1), op)

    def round3(self, o, seed):
        """cross_move / grow / remove_twin in the form the model can follow."""
        r = self.r
        if o == "cross_move":
            op = {"o": o, "m": True, "p": self.sel("cont"), "x": self.sel("secprop"),
                  "tw": r.random() < 0.6, "push": r.random() < 0.3}
            if r.random() < 0.1:
                op["same"], op["tw"] = True, True
            return op
        if o == "grow":
            return {"o": o, "m": True, "p": self.sel("cont"), "kind": r.choice(["sec", "prop"]),
                    "gname": r.choice(GROW_NAMES), "family": r.choice(LIST_FAMILIES), "seed": seed,
                    "n": r.choice([0, 1, 2]), "tw": r.random() < 0.6}
        return {"o": o, "m": True, "p": self.sel("cont"), "k": r.randrange(1000)}

    def directed(self, o, free):
        """One edit of the given round 3 kind, in the modelled form unless the case is free."""
        if free:
            return self.free_op(o)
        return self.round3(o, self.r.randrange(1 << 30))

    def on_moved(self, free):
        """An edit, copy or export of an object that has changed sides (if there is one)."""
        r = self.r
        while True:
            op = self.edit(False)
            if op["o"] in ("rename", "set_attr", "new_id", "clone", "export"):
                op["x"] = self.sel("moved")
                return op
            if op["o"] in ("append", "remove") and r.random() < 0.5:
                op["p"] = self.sel("moved")
                return op
            if free and r.random() < 0.1:
                op = self.free_op(r.choice(["create_property", "create_section", "clean", "set_card"]))
                op["p"] = self.sel("moved")
                op["x"] = self.sel("moved")
                return op

    def twin_ops(self, free):
        """Histories around the moment at which copy and original are still twins: right after the
        copy (or after very few edits) a new child grows in one of them and is moved over to the
        other one by one of the re-parenting entry points; then the moved object is edited, copied,
        exported through its new side, both sides are edited at random, and it may go back."""
        r = self.r
        sides = ["copy", "orig"]
        out = []
        for _ in range(r.choice([0, 0, 0, 1, 2])):
            op = self.edit(free)
            op["sd"] = r.choice(sides)
            out.append(op)
        again = r.random() < 0.25
        if again:
            # a copy of the copy / a second copy of the original: twins on one side
            out.append({"o": "clone", "x": self.sel("cont"), "children": r.random() < 0.8,
                        "keep": r.random() < 0.4, "style": "kw", "sd": r.choice(sides)})
        for _ in range(r.choice([1, 1, 2, 3])):
            sa = r.choice(sides)
            sb = "orig" if sa == "copy" else "copy"
            if r.random() < 0.85:
                g = self.directed("grow", free)
                g["sd"], g["tw"] = sa, r.random() < 0.9
                out.append(g)
            if r.random() < 0.25:
                op = self.edit(free)
                op["sd"] = r.choice(sides)
                out.append(op)
            c = self.directed("cross_move", free)
            c["tw"] = r.random() < 0.9
            c["push"] = r.random() < 0.25
            c["sd"] = sa if c["push"] else sb        # the destination is the side that did not grow
            c["same"] = False
            if again and r.random() < 0.5:
                c["same"], c["sd"] = True, sa
            out.append(c)
            for _ in range(r.choice([1, 2, 3])):
                op = self.on_moved(free) if r.random() < 0.6 else self.edit(free)
                op["sd"] = sb if r.random() < 0.7 else sa
                out.append(op)
            if r.random() < 0.3:
                t = self.directed("remove_twin", free)
                t["sd"] = r.choice(sides)
                out.append(t)
        return out

    # -- round 4 ------------------------------------------------------------------------------
    def dup_ids(self, d):
        """Ids that occur more than once in one document (a file that repeats an id, the result of
        clone(keep_id=True) put into the same tree): along a path - a Section with the id of its
        parent, of a farther ancestor or of the Document, a Property with the id of its Section or of
        an ancestor - and among siblings. Only named objects (an unnamed one is named by its id)."""
        r = self.r
        if r.random() < 0.6:
            d["oid"] = self.oid()

        def walk(s, anc):
            known = [a for a in anc if a]
            if s.get("name") is not None and known and r.random() < 0.4:
                s["oid"] = r.choice([known[-1], known[-1], known[0], r.choice(known)])
            mine = s.get("oid")
            prev = None
            for p in s["props"]:
                cands = known + ([mine] * 3 if mine else []) + ([prev] if prev else [])
                if p.get("name") is not None and cands and r.random() < 0.25:
                    p["oid"] = r.choice(cands)
                prev = p.get("oid")
            prev = None
            for sub in s["sections"]:
                walk(sub, anc + [mine])
                if prev and sub.get("name") is not None and r.random() < 0.15:
                    sub["oid"] = prev
                prev = sub.get("oid")
        for s in d["sections"]:
            walk(s, [d.get("oid")])
        return d

    # -- round 5 ------------------------------------------------------------------------------
    def repos(self, d, reachable=False):
        """Repositories, the attribute a Section inherits from its surroundings: on the Document (as
        the published templates have it; mostly), on Sections at every level - none of their own
        (inherited from the Document / from a Section above), their own, the very URL the Document
        or the Section above carries, another one - and, rarely, an include that cannot be resolved.
        A copy is detached: it carries what the object itself carries, whatever the surroundings say."""
        r = self.r
        if r.random() < 0.8:
            d["repository"] = "<inc>" if reachable and r.random() < 0.5 else r.choice(REPOS[:4])

        def walk(s, above, depth):
            x = r.random()
            mine = None
            if x < (0.25 if depth == 1 else 0.2):
                mine = r.choice(REPOS)
            elif x < 0.35 and above:
                mine = above                    # its own, and equal to what it would inherit
            if mine:
                s["repository"] = mine
            if r.random() < 0.05 and not any(k in s for k in ("link", "ulink", "inc")):
                s["uinc"] = r.choice(["file:///nonexistent/c11/inc.xml", "file:///nonexistent/c11/inc.xml#/T"])
            for sub in s["sections"]:
                walk(sub, mine or above, depth + 1)
        for s in d["sections"]:
            walk(s, d.get("repository"), 1)
        if not d.get("repository") and not any("repository" in s for s in d["sections"]) and d["sections"]:
            d["sections"][-1]["repository"] = r.choice(REPOS)
        return d

    def nest_ops(self):
        """A copy is made and put back into the tree of its original: below the original itself,
        below a descendant, beside it (renamed), below an ancestor; a copy of a Property beside the
        Property; once or twice (a snapshot inside a snapshot). With keep_id the path to the nested
        copy carries the same id more than once."""
        r = self.r
        out = []
        for rnd in range(r.choice([1, 1, 2])):
            is_prop = r.random() < 0.2
            if rnd == 0 or r.random() < 0.4:
                x = self.sel("prop" if is_prop else "sec")
            else:
                x = self.sel(r.choice(["lastcopy", "in_lastcopy", "lastsrc"]))
            out.append({"o": "clone", "x": x, "children": r.random() < 0.85, "keep": r.random() < 0.7,
                        "style": r.choice(["kw", "kw", "pos"])})
            where = r.choice(["lastsrc", "lastsrc", "lastsrc", "lastsrc_tree", "lastsrc_par", "lastsrc_up"])
            if is_prop:
                where = r.choice(["lastsrc_par", "lastsrc_par", "lastsrc_up", "cont"])
            if r.random() < (0.85 if where == "lastsrc_par" else 0.4):
                out.append({"o": "rename", "x": self.sel("lastcopy"),
                            "new": r.choice(["snap", "snapshot", "k", "ab", u"c\u00f6py"])})
            if r.random() < 0.2:
                out.append(self.edit(False))
            out.append({"o": "append", "p": self.sel(where), "x": self.sel("lastcopy")})
        return out

    def all_oids(self, d):
        """Every object gets an id of its own in the spec (unnamed objects are named by their id: the
        names are then the same in every run of the case)."""
        def walk(s):
            s.setdefault("oid", self.oid())
            for p in s["props"]:
                p.setdefault("oid", self.oid())
            for sub in s["sections"]:
                walk(sub)
        d.setdefault("oid", self.oid())
        for s in d["sections"]:
            walk(s)

    def link_doc(self):
        """A document with resolved (or still unresolved) links in many configurations: the target
        carries a definition / reference, the linking Section has none, the same one or one of its
        own; both have an equally named sub-Section (merged recursively); one or two links, to the
        same target or in a row; the linking Section at the top level or one level down."""
        r = self.r
        d = self.doc(linked=False)
        used = [s["name"] for s in d["sections"]]
        while len(d["sections"]) < 2 + (r.random() < 0.4):
            nm = [n for n in NAMES + ["t1", "t2"] if n not in used][0]
            used.append(nm)
            d["sections"].append(self.sec(nm, 1, [r.choice([1, 3]), False]))
        secs = d["sections"]
        tgt = secs[1]
        srcs = [secs[0]]
        if secs[0]["sections"] and secs[0]["sections"][0].get("name") and r.random() < 0.3:
            srcs = [secs[0]["sections"][0]]
        if len(secs) > 2 and r.random() < 0.6:
            srcs.append(secs[2])
        for k, src in enumerate(srcs):
            goal = tgt
            if k == 1 and r.random() < 0.4:
                # links in a row: the target of the first link is itself linked to the third Section
                src, goal = tgt, secs[2]
            if r.random() < 0.85:
                goal["definition"] = r.choice(["def of target", "a", u"d\u00e9f"])
            if r.random() < 0.5:
                goal["reference"] = r.choice(["ref of target", "b"])
            x = r.random()
            if x < 0.6:
                src.pop("definition", None)
                src.pop("reference", None)
            elif x < 0.75 and goal.get("definition"):
                src["definition"] = goal["definition"]
            if r.random() < 0.5:
                src["type"] = goal["type"]
            if r.random() < 0.75:
                names = [p["name"] for p in goal["props"]]
                for p in src["props"]:
                    if p.get("name") is not None and p["name"] in names:
                        p["name"] = "s_" + p["name"]
            if r.random() < 0.5:
                if not any(x.get("name") == "sub" for x in goal["sections"]):
                    goal["sections"].append({"name": "sub", "type": "t", "definition": "def of sub",
                                             "props": [{"name": "sp", "dtype": "int", "values": [1]}],
                                             "sections": []})
                if r.random() < 0.6 and not any(x.get("name") == "sub" for x in src["sections"]):
                    src["sections"].append({"name": "sub", "type": "t", "sections": [],
                                            "props": [{"name": "own", "dtype": "string", "values": ["o"]}]})
            src.pop("link", None)
            src.pop("ulink", None)
            if r.random() < 0.85:
                src["link"] = "/" + goal["name"]
                d["finalize"] = True
            else:
                src["ulink"] = "/" + goal["name"]
        self.all_oids(d)
        return d

    def inc_pair(self):
        """(terminology document, document): Sections of the document include Sections of the
        terminology file - the other way the library merges a Section with another one."""
        r = self.r
        term = self.doc(linked=False)
        for t in term["sections"]:
            t["name"] = "T" + t["name"]
            if r.random() < 0.85:
                t["definition"] = r.choice(["def of term", "a"])
            if r.random() < 0.5:
                t["reference"] = r.choice(["ref of term", "b"])
        d = self.doc(linked=False)
        for k, src in enumerate(d["sections"][:r.choice([1, 1, 2])]):
            goal = r.choice(term["sections"])
            if r.random() < 0.6:
                src.pop("definition", None)
                src.pop("reference", None)
            if r.random() < 0.75:
                names = [p["name"] for p in goal["props"]]
                for p in src["props"]:
                    if p.get("name") is not None and p["name"] in names:
                        p["name"] = "s_" + p["name"]
            src["inc"] = "/" + goal["name"]
        self.all_oids(term)
        self.all_oids(d)
        return term, d

    def cf_ops(self):
        """Histories for the counterfactual stream: both sides are edited in turn; what the link
        resolution has left in a Section is taken back, set up again and edited (clean, unmerge, the
        link set and unset, finalize, merge, definition / reference written), between ordinary edits.
        No operation has operands on both sides."""
        r = self.r
        out = []
        for _ in range(r.randrange(3, 10)):
            x = r.random()
            if x < 0.35:
                op = self.free_op("clean")
                op["p"] = self.sel(r.choice(["mroot", "mroot", "merged", "cont"]))
            elif x < 0.45:
                op = self.free_op("unmerge")
            elif x < 0.57:
                op = self.free_op(r.choice(["set_link", "set_link", "finalize", "sec_merge"]))
            elif x < 0.67:
                op = {"o": "set_attr", "x": self.sel(r.choice(["merged", "sec"])), "which": r.choice([1, 2]),
                      "val": r.choice(["def of target", "mine", "none"])}
            elif x < 0.75:
                op = {"o": r.choice(["clone", "export"]), "x": self.sel(r.choice(["merged", "secprop"])),
                      "children": r.random() < 0.7, "keep": r.random() < 0.4, "style": "kw"}
            else:
                op = self.edit(r.random() < 0.5)
                while op["o"] in BOTH_SIDES_OPS or op.get("via_handler"):
                    op = self.edit(r.random() < 0.5)
            op["sd"] = r.choice(["copy", "orig"])
            out.append(op)
        return out

    def unlinked(self, d):
        """A copy of the document spec without its links; most Sections carry a definition."""
        import json
        d = json.loads(json.dumps(d))
        d.pop("finalize", None)

        def walk(sec):
            for key in ("link", "ulink", "inc"):
                sec.pop(key, None)
            if self.r.random() < 0.6:
                sec.setdefault("definition", self.r.choice(["def of target", "a", u"d\u00e9f"]))
            if self.r.random() < 0.3:
                sec.setdefault("reference", self.r.choice(["ref of target", "b"]))
            for sub in sec["sections"]:
                walk(sub)
        for sec in d["sections"]:
            walk(sec)
        return d

    def late_merge(self, out):
        """A directed history woven into `out` (the order of the four steps is kept): a Section that
        was NOT merged when the copy was made is linked on one side after the copy; its counterpart on
        the other side (same position: the same selector numbers pick it when the copy is a copy of
        the Document) gets a definition / reference of its own - possibly the very text the link has
        filled in over there -, is merged itself and cleaned. Whatever the merge on the first side has
        recorded must not count on the second side."""
        r = self.r
        n, m = r.randrange(1000), r.randrange(1000)
        sa = r.choice(["copy", "orig"])
        sb = "orig" if sa == "copy" else "copy"
        link_a = dict(self.free_op("set_link"), y={"sel": "sec", "n": n}, l=m, pos=0, sd=sa)
        own = {"o": "set_attr", "x": {"sel": "sec", "n": n}, "which": r.choice([1, 1, 2]),
               "val": r.choice(["def of target", "a", "ref of target", "b", u"d\u00e9f"]), "sd": sb}
        if r.random() < 0.7:
            own["from"] = m                    # the text the Section that will be linked carries
        if r.random() < 0.7:
            merge_b = dict(self.free_op("set_link"), y={"sel": "sec", "n": n}, l=m, pos=0, sd=sb)
        else:
            merge_b = dict(self.free_op("sec_merge"), p={"sel": "sec", "n": n}, pos=m % 50, sd=sb)
        clean_b = dict(self.free_op("clean"), p={"sel": r.choice(["sec", "mroot"]), "n": n}, sd=sb)
        at = sorted(r.randrange(0, len(out) + 1) for _ in range(4))
        for k, op in enumerate([link_a, own, merge_b, clean_b]):
            out.insert(at[k] + k, op)
        return out

    # -- the record of a merge, directed (RECORD TIE) -------------------------------------------------
    def rec_cases(self, rounds):
        """Link-free histories every step of which the model follows: a Section "s" (no definition /
        reference, one of its own, or the very text the other Section carries) is merged with a Section
        without children that has a definition / reference - before the copy is made or only afterwards,
        on one side or on both, with different Sections -, copied (clone with / without children, clone of
        the Document, export_leaf), and both sides are unmerged (clean of the Section / of the Document,
        unmerge), merged again, edited and copied again, in every order."""
        import itertools
        r = self.r
        out = []

        def named(name, n=0):
            return {"sel": "named", "name": name, "n": n}

        def free(o, psel, **kw):
            op = {"o": o, "p": psel, "x": self.sel("child"), "q": self.sel("prop"), "pos": 0, "how": 1,
                  "l": 0, "seed": 0}
            op.update(kw)
            return op

        for rnd in range(rounds):
            for variant in ("none", "own", "same"):
                for first_kind in ("clone", "clone_doc", "export"):
                    for pre_merged in (True, False):
                        sdef = {"none": None, "own": "mine", "same": "D"}[variant]
                        ssec = {"name": "s", "type": "t", "props": [], "sections": []}
                        if sdef:
                            ssec["definition"] = sdef
                        if r.random() < 0.3:
                            ssec["reference"] = r.choice(["R", "own ref"])
                        for nm in r.sample(NAMES, r.choice([0, 1, 2])):
                            ssec["props"].append(self.prop(nm))
                        if r.random() < 0.3:
                            ssec["sections"].append({"name": "sub", "type": "t", "props": [], "sections": []})
                        tgt = {"name": "tgt", "type": r.choice(["t", "u"]), "props": [], "sections": [],
                               "definition": "D"}
                        if r.random() < 0.7:
                            tgt["reference"] = "R"
                        tgt2 = {"name": "tgt2", "type": "t", "props": [], "sections": [],
                                "definition": r.choice(["D2", "D"]), "reference": r.choice(["R2", "R"])}
                        if r.random() < 0.2:
                            del tgt2["definition"]
                        order = [ssec, tgt, tgt2]
                        if r.random() < 0.3:
                            order = [tgt, ssec, tgt2]
                        doc = {"author": "me", "version": None, "sections": order}
                        self.all_oids(doc)
                        if first_kind == "clone":
                            first = {"o": "clone", "root": 0, "children": r.random() < 0.7, "keep": r.random() < 0.4,
                                     "style": r.choice(["kw", "pos"]), "x": named("s")}
                        elif first_kind == "clone_doc":
                            first = {"o": "clone", "root": 0, "children": True, "keep": r.random() < 0.4,
                                     "style": "kw", "x": self.sel("doc")}
                        else:
                            first = {"o": "export", "root": 0, "x": named("s")}
                        # the Section a copy is merged with: its own one where the copy has one (copy of the
                        # Document), else the one of the original document
                        osd = None if first_kind == "clone_doc" else "orig"

                        def unmerge(sd):
                            how = r.choice(["clean", "clean", "unmerge", "clean_doc"])
                            if how == "unmerge":
                                return free("unmerge", named("s"), sd=sd)
                            if how == "clean_doc" and (sd == "orig" or first_kind != "clone"):
                                return free("clean", self.sel("doc"), sd=sd)
                            return free("clean", named("s"), sd=sd)

                        def merge(sd, name):
                            op = free("sec_merge", named("s"), other=named(name), sd=sd,
                                      how=r.choice([1, 1, 1, 1, 1, 1, 1, 0]))    # (0: strict)
                            if sd == "copy" and osd:
                                op["other_sd"] = osd
                            return op

                        def edit(sd):
                            return {"o": "set_attr", "x": named("s"), "which": r.choice([1, 1, 2]),
                                    "val": r.choice(["Z", "D", "R", "none"]), "sd": sd}

                        def again(sd):
                            return {"o": r.choice(["clone", "clone", "export"]), "x": named("s", r.choice([0, -1])),
                                    "children": r.random() < 0.7, "keep": r.random() < 0.5, "style": "kw", "sd": sd}

                        pre = [dict(merge("orig", "tgt"), sd=None)] if pre_merged else []
                        if pre_merged:
                            base = [unmerge("copy"), unmerge("orig")]
                            extras = [merge("copy", "tgt2"), merge("orig", "tgt2"), edit("copy"), edit("orig"),
                                      again("copy"), again("orig"), unmerge("copy"), unmerge("orig")]
                            base += r.sample(extras, r.choice([1, 1, 2]))
                        else:
                            # merged only after the copy was made: with different Sections on the two sides
                            a, b = r.choice([("tgt", "tgt2"), ("tgt2", "tgt"), ("tgt", "tgt")])
                            base = [merge("orig", a), merge("copy", b), unmerge("copy"), unmerge("orig")]
                            if r.random() < 0.4:
                                base.append(r.choice([edit("copy"), edit("orig"), again("copy")]))
                        perms = list(itertools.permutations(range(len(base))))
                        if len(perms) > 6:
                            perms = r.sample(perms, 6)
                        for perm in perms:
                            ops = [dict(base[k]) for k in perm]
                            case = {"stream": "free", "cf": True, "rec": True, "doc": doc, "side": "mixed",
                                    "first": first, "ops": ops}
                            if pre:
                                case["pre"] = [dict((k, v) for k, v in op.items() if k != "sd") for op in pre]
                            out.append(case)
        return out

    def ops(self, n, free, mixed=False, handler=False):
        out = [self.edit(free) for _ in range(n)]
        if mixed:
            # a history that goes back and forth between the copy and the original
            for op in out:
                op["sd"] = self.r.choice(["copy", "orig"])
        if handler:
            # the same TemplateHandler is asked again after the edits
            for _ in range(self.r.choice([1, 1, 2])):
                out.insert(self.r.randrange(0, len(out) + 1),
                           {"o": "clone", "via_handler": True, "x": self.sel("sec"),
                            "children": self.r.random() < 0.7, "keep": self.r.random() < 0.5,
                            "style": self.r.choice(["kw", "pos"])})
            if free and self.r.random() < 0.5:
                # round 5: the handler is asked for a Section / a file that does not exist (refused;
                # the state a refused call leaves behind), and asked again afterwards
                at = self.r.randrange(0, len(out) + 1)
                out.insert(at, {"o": "clone_missing", "what": self.r.choice(["name", "name", "url", "nested"]),
                                "x": self.sel("sec"), "children": self.r.random() < 0.7,
                                "keep": self.r.random() < 0.5})
                out.insert(self.r.randrange(at + 1, len(out) + 1),
                           {"o": "clone", "via_handler": True, "x": self.sel("sec"),
                            "children": self.r.random() < 0.7, "keep": self.r.random() < 0.5, "style": "kw"})
        return out


# ----------------------------------------------------------------------------- execution
class Exec(object):
    def __init__(self, case):
        import random
        self.case = case
        self.w = World()
        self.side = case.get("side", "copy")
        self.steps = []
        self.laws = []
        self.rng_cls = random.Random
        self.cur_side = None     # the side the running operation belongs to (recorded in the op)
        self.handles = []        # (tuple item obtained by prop[i] and kept by the caller, side, Property)
        self.handler = None      # TemplateHandler of the template stream, used again later on
        self.url = None
        self.loaded = None
        self.twin = {}           # table index -> index of the object it was copied from / to
        self.moved = []          # objects that have changed sides
        self.last_clone = {}     # side of the result -> (table index of the source, of the copy)
        self.guarded = False     # an operation was left out because the case has grown too large
        self.tmps = []           # private temp directories of the case

    def pick(self, sel, side):
        w = self.w
        what = sel["sel"]
        kinds = {"sec": ("sec",), "prop": ("prop",), "cont": ("doc", "sec", "sec"), "any": ("doc", "sec", "prop"),
                 "secprop": ("sec", "prop"), "child": ("sec", "prop"), "tupprop": ("prop",),
                 "doc": ("doc",), "moved": ("sec", "prop"),
                 # round 4: relative to the most recent copy made on this side; merged Sections
                 "lastcopy": ("sec", "prop"), "in_lastcopy": ("sec", "prop"), "lastsrc": ("sec", "prop"),
                 "lastsrc_tree": ("doc", "sec"), "lastsrc_par": ("doc", "sec"), "lastsrc_up": ("doc", "sec"),
                 "merged": ("sec",), "mroot": ("doc", "sec"),
                 # the Sections of that name (directed histories: `Gen.rec_cases`)
                 "named": ("sec",)}[what]
        cands = [i for i, o in enumerate(w.objs) if w.side_obj.get(i) == side and w.idx(o) == i
                 and kind_of(o) in kinds]
        if what == "named":
            cands = [i for i in cands if w.objs[i].name == sel["name"]]
        if what in ("lastcopy", "in_lastcopy", "lastsrc", "lastsrc_tree", "lastsrc_par", "lastsrc_up"):
            src, ret = self.last_clone.get(side, (None, None))
            rel = []
            if src is not None:
                if what == "lastcopy":
                    rel = [ret]
                elif what == "in_lastcopy":
                    rel = self.subtree(w.objs[ret])
                elif what == "lastsrc":
                    rel = [src]
                elif what == "lastsrc_tree":
                    inside = set(self.subtree(w.objs[ret]))
                    rel = [h for h in self.subtree(w.objs[src]) if h not in inside]
                elif what == "lastsrc_par":
                    rel = [w.idx(a) for a in ancestors(w.objs[src])[1:2]]
                else:
                    rel = [w.idx(a) for a in ancestors(w.objs[src])[1:]]
            rel = [h for h in rel if h in cands]
            cands = rel or cands
        if what in ("merged", "mroot"):
            mg = [i for i in cands if kind_of(w.objs[i]) == "sec" and w.objs[i].get_merged_equivalent() is not None]
            if what == "mroot":
                mg = [i for i in cands if w.objs[i].parent is None] + mg
            cands = mg or cands
        if what == "moved":
            # objects that came over from the other side, most recent first, if there are any
            mv = [i for i in reversed(self.moved) if i in cands]
            cands = mv or cands
        if what == "tupprop":
            # Properties holding at least one tuple value, if there are any
            tups = [i for i in cands if (w.objs[i].dtype or "").endswith("-tuple") and len(w.objs[i]) > 0]
            cands = tups or cands
        if not cands:
            return None
        return cands[sel["n"] % len(cands)]

    def pick_list(self, n, side, fam=None):
        cands = [i for i in range(len(self.w.lists)) if self.w.side_list.get(i) == side
                 and (fam is None or self.w.list_family[i] == fam)]
        if not cands:
            return None
        return cands[n % len(cands)]

    def record(self, rop, out, extra=None):
        st = {"op": rop, "out": out, "snap": self.w.snap()}
        if extra:
            st.update(extra)
        self.steps.append(st)

    def do(self, rop, fn, reg=None):
        """Runs one resolved op on the implementation, registers what it returns."""
        n_objs, n_lists = len(self.w.objs), len(self.w.lists)
        if self.cur_side is not None:
            rop["side"] = self.cur_side
        try:
            ret = fn()
            out = {"ok": None}
        except Exception as exc:
            ret = None
            out = {"raised": fw.exc_name(exc)}
        extra = {"n_objs": n_objs, "n_lists": n_lists}
        if "ok" in out and reg is not None:
            extra.update(reg(ret) or {})
        self.record(rop, out, extra)
        return ret

    # -- the copy-producing operations ---------------------------------------
    def op_clone(self, x, children, keep, side, via=None, style="kw"):
        w = self.w
        obj = w.objs[x]
        kind = kind_of(obj)
        rop = {"o": "clone", "x": x, "children": True if kind == "prop" else children, "keep": keep}
        self.cur_side = side

        def fn():
            if via is not None:
                return via()
            if style == "pos":                  # the flags by position
                if kind == "prop":
                    return obj.clone(keep)
                return obj.clone(children, keep)
            if kind == "prop":
                return obj.clone(keep_id=keep)
            return obj.clone(children=children, keep_id=keep)

        def reg(ret):
            w.register_tree(ret, side)
            eq = None
            try:
                eq = [bool(ret == obj), bool(obj == ret), bool(ret != obj)]
            except Exception as exc:
                eq = "raised " + fw.exc_name(exc)
            self.pair(obj, ret, True)
            self.last_clone[side] = (x, w.idx(ret))
            return {"ret": w.idx(ret), "src": x, "eq": eq}
        return self.do(rop, fn, reg)

    def pair(self, a, b, deep):
        """Remembers which object is the copy of which (position by position): the generator
        uses it to find the counterpart of a container on the other side."""
        w = self.w
        try:
            ia, ib = w.idx(a), w.idx(b)
            if ia is None or ib is None or ia == ib or kind_of(a) != kind_of(b):
                return
            self.twin[ia], self.twin[ib] = ib, ia
            kind = kind_of(a)
            if deep and kind in ("doc", "sec"):
                for sa, sb in zip(list(a.sections), list(b.sections)):
                    self.pair(sa, sb, True)
            if kind == "sec":
                for pa, pb in zip(list(a.properties), list(b.properties)):
                    self.pair(pa, pb, False)
        except Exception:
            pass

    def op_export(self, x, side):
        w = self.w
        obj = w.objs[x]
        rop = {"o": "export", "x": x}
        self.cur_side = side
        chain = []
        cur = obj if kind_of(obj) != "prop" else obj.parent
        guard = 0
        while cur is not None and guard < 50:
            chain.insert(0, w.idx(cur))
            cur = cur.parent
            guard += 1

        def reg(ret):
            w.register_tree(ret, side)
            node = ret
            for h in chain:                     # the levels of the export and of the path
                if node is None or h is None or kind_of(node) == "prop":
                    break
                self.pair(w.objs[h], node, False)
                node = node.sections[0] if len(node.sections) else None
            return {"ret": w.idx(ret), "src": x, "chain": chain}
        return self.do(rop, obj.export_leaf, reg)

    # -- edits -----------------------------------------------------------------
    def edit(self, op, side):
        import odml
        w = self.w
        o = op["o"]
        r = self.rng_cls(op.get("seed", 0))
        self.cur_side = side
        if o == "clone" and op.get("via_handler"):
            # TemplateHandler.clone_section once more on the handler of the first operation: a
            # copy of a Section of the cached document as it is now
            if self.handler is None:
                return
            tops = [i for i, ob in enumerate(w.objs) if kind_of(ob) == "sec" and ob.parent is self.loaded
                    and w.idx(ob) == i]
            if not tops:
                return
            x = tops[op["x"]["n"] % len(tops)]
            name, handler, url = w.objs[x].name, self.handler, self.url
            if op.get("style") == "pos":
                return self.op_clone(x, op["children"], op["keep"], "copy",
                                     via=lambda: handler.clone_section(url, name, op["children"], op["keep"]))
            return self.op_clone(x, op["children"], op["keep"], "copy",
                                 via=lambda: handler.clone_section(url, name, children=op["children"],
                                                                   keep_id=op["keep"]))
        if o == "clone_missing":
            # clone_section for a name that is not a root Section of the template (no such name; the
            # name of a Section further down) or for a file that does not exist: refused
            if self.handler is None:
                return
            handler, url = self.handler, self.url
            name = "no such section"
            if op["what"] == "url":
                url = "file:///nonexistent/c11/no_template.xml"
                tops = [ob for ob in self.loaded.sections]
                name = tops[op["x"]["n"] % len(tops)].name if tops else name
            elif op["what"] == "nested":
                tops = set(ob.name for ob in self.loaded.sections)
                deep = [ob.name for top in self.loaded.sections for ob in top.itersections()
                        if ob.name not in tops]
                name = deep[op["x"]["n"] % len(deep)] if deep else name
            self.cur_side = "copy"

            def reg(ret):
                w.register_tree(ret, "copy")
                return {"ret": w.idx(ret)}
            return self.do({"o": o, "free": True, "what": op["what"]},
                           lambda: handler.clone_section(url, name, children=op["children"],
                                                         keep_id=op["keep"]), reg)
        if o == "clone":
            x = self.pick(op["x"], side)
            if x is None:
                return
            return self.op_clone(x, op["children"], op["keep"], side, style=op.get("style", "kw"))
        if o == "value_inner_set":
            p = self.pick(op["p"], side)
            if p is None:
                return
            prop = w.objs[p]
            i, j = self.wrap_ij(prop, op)

            def fn():
                prop[i][j] = op["s"]
            return self.do({"o": o, "p": p, "i": i, "j": j, "s": op["s"]}, fn)
        if o == "export":
            x = self.pick(op["x"], side)
            if x is None:
                return
            return self.op_export(x, side)
        if o in ("get_values", "set_values_from", "set_values", "append_value", "set_value_at", "set_dtype"):
            p = self.pick(op["p"], side)
            if p is None:
                return
            prop = w.objs[p]
            fam = family_of(prop.dtype)
            if fam is None:
                return
            if o == "get_values":
                return self.do({"o": o, "p": p}, lambda: prop.values,
                               lambda ret: {"ret": w.register_list(ret, side, fam)})
            if o == "set_values_from":
                l = self.pick_list(op["l"], side, fam)
                if l is None or w.list_family[l] != fam:
                    return
                lst = w.lists[l]

                def fn():
                    prop.values = lst
                return self.do({"o": o, "p": p, "l": l}, fn)
            if o == "set_values":
                if r.random() < 0.5:
                    # a list the caller builds, passes in as `values` and keeps (edited later on)
                    trip = [py_and_lit(fam, r) for _ in range(op["n"])]
                    pys = [t[1] for t in trip]
                    self.do({"o": "new_list", "v": [t[2] for t in trip]}, lambda: pys,
                            lambda ret: {"ret": w.register_list(ret, side, fam)})
                    l = len(w.lists) - 1

                    def fn():
                        prop.values = pys
                    return self.do({"o": "set_values_from", "p": p, "l": l}, fn)
                trip = [py_and_lit(fam, r) for _ in range(op["n"])]
                pys = [t[0] for t in trip]

                def fn():
                    prop.values = pys
                return self.do({"o": o, "p": p, "v": [t[2] for t in trip]}, fn)
            if o == "append_value":
                py, _st, lit = py_and_lit(fam, r, allow_list_form=False)
                return self.do({"o": o, "p": p, "v": lit}, lambda: prop.append(py))
            if o == "set_value_at":
                py, _st, lit = py_and_lit(fam, r, allow_list_form=False)

                def fn():
                    prop[op["i"]] = py
                return self.do({"o": o, "p": p, "i": op["i"], "v": lit}, fn)
            if o == "set_dtype":
                new = {"string": "text", "text": "string"}.get(prop.dtype, prop.dtype)

                def fn():
                    prop.dtype = new
                return self.do({"o": o, "p": p, "v": repr(new)}, fn)
        if o == "new_list":
            fam = op["family"]
            trip = [py_and_lit(fam, r) for _ in range(op["n"])]
            pys = [t[1] for t in trip]
            return self.do({"o": o, "v": [t[2] for t in trip]}, lambda: pys,
                           lambda ret: {"ret": w.register_list(ret, side, fam)})
        if o in LIST_MUTATORS:
            l = self.pick_list(op["l"], side)
            if l is None:
                return
            lst = w.lists[l]
            fam = w.list_family[l]
            if o == "list_append":
                _py, st, lit = py_and_lit(fam, r)
                return self.do({"o": o, "l": l, "v": lit}, lambda: lst.append(st))
            if o == "list_set":
                _py, st, lit = py_and_lit(fam, r)

                def fn():
                    lst[op["i"]] = st
                return self.do({"o": o, "l": l, "i": op["i"], "v": lit}, fn)
            if o == "list_del":
                def fn():
                    del lst[op["i"]]
                return self.do({"o": o, "l": l, "i": op["i"]}, fn)
            if o == "list_inner_set":
                def fn():
                    item = lst[op["i"]]
                    if not isinstance(item, list):
                        raise TypeError("not a list item")
                    item[op["j"]] = op["s"]
                return self.do({"o": o, "l": l, "i": op["i"], "j": op["j"], "s": op["s"]}, fn)
        if o == "new_obj":
            if op["kind"] == "sec":
                def fn():
                    return odml.Section(name=op["name"], type="t")
                lits = []
            else:
                fam = op["family"]
                trip = [py_and_lit(fam, r) for _ in range(op["n"])]
                lits = [t[2] for t in trip]

                def fn():
                    return odml.Property(name=op["name"], values=[t[0] for t in trip], dtype=FAMILY_DTYPE[fam])
            rop = {"o": o, "kind": op["kind"], "name": op["name"], "attrs": None, "v": lits}

            def reg(ret):
                w.register_tree(ret, side)
                rop["attrs"] = attrs_of(ret, op["kind"])
                return {"ret": w.idx(ret)}
            ret = self.do(rop, fn, reg)
            if rop["attrs"] is None:
                rop["attrs"] = []
            return ret
        if o == "append":
            p, x = self.pick(op["p"], side), self.pick(op["x"], side)
            if p is None or x is None or kind_of(w.objs[p]) == "prop":
                return                          # ("moved" may select a Property: not a container)
            return self.do({"o": o, "p": p, "x": x}, lambda: w.objs[p].append(w.objs[x]))
        if o == "remove":
            p = self.pick(op["p"], side)
            if p is None or kind_of(w.objs[p]) == "prop":
                return
            cont = w.objs[p]
            kids = list(cont.sections) + (list(cont.properties) if kind_of(cont) == "sec" else [])
            if kids and op["k"] % 5 != 0:
                x = w.idx(kids[op["k"] % len(kids)])
            else:
                x = self.pick(op["x"], side)
            if x is None:
                return
            return self.do({"o": o, "p": p, "x": x}, lambda: cont.remove(w.objs[x]))
        if o == "rename":
            x = self.pick(op["x"], side)
            if x is None:
                return

            def fn():
                w.objs[x].name = op["new"]
            return self.do({"o": o, "x": x, "new": op["new"]}, fn)
        if o == "set_attr":
            x = self.pick(op["x"], side)
            if x is None:
                return
            obj = w.objs[x]
            kind = kind_of(obj)
            keys = {"doc": ["author", "version"],
                    "sec": ["type", "definition", "reference", "sec_cardinality", "prop_cardinality"],
                    "prop": ["unit", "definition", "reference", "dependency", "value_origin",
                             "val_cardinality"]}[kind]
            key = keys[op["which"] % len(keys)]
            val = op["val"]
            if op.get("attr") == "repository" and kind in ("doc", "sec"):
                key = "repository"
                if val == "none":
                    val = None
                elif op.get("k", 0) % 4 == 0:
                    # the repository this object inherits at the moment / the Document's: its own
                    # from now on (it looks the same from inside the tree, not on a detached copy)
                    try:
                        inh = obj.get_repository() if kind == "sec" else None
                        if inh is None and kind == "sec" and obj.document is not None:
                            inh = obj.document.repository
                        val = inh or val
                    except Exception:
                        pass
            elif op.get("attr") == "date" and kind == "doc":
                key = "date"
                val = DOC_DATES[op.get("k", 0) % len(DOC_DATES)]
            elif op.get("attr") == "uncertainty" and kind == "prop":
                key = "uncertainty"               # a number, as text or as a number; '' is None
                val = ["0.5", 12, "", "1e+20", 0.25][op.get("k", 0) % 5]
            elif op.get("attr") == "dependency_value" and kind == "prop":
                key = "dependency_value"
                val = "" if op.get("k", 0) % 5 == 0 else val
            if op.get("from") is not None and not key.endswith("cardinality"):
                # the value another Section of this side carries for the attribute, if it has one
                other = self.pick({"sel": "sec", "n": op["from"]}, side)
                if other is not None and isinstance(getattr(w.objs[other], key, None), str):
                    val = getattr(w.objs[other], key)
            if key.endswith("cardinality"):
                val = {"card1": (1, 3), "card2": (None, 2)}.get(val, None)
            elif val in ("card1", "card2", "none") or (val in REPOS[:4] + [""] and key not in
                                                       ("repository", "date", "uncertainty", "dependency_value")):
                val = "w"
            allk = {"doc": DOC_KEYS, "sec": SEC_KEYS, "prop": PROP_KEYS}[kind]
            rop = {"o": o, "x": x, "i": allk.index(key), "v": None, "key": key}

            def fn():
                setattr(obj, key, val)
                rop["v"] = repr(getattr(obj, key))
            ret = self.do(rop, fn)
            if rop["v"] is None:
                rop["v"] = repr(getattr(obj, key))
            return ret
        if o == "new_id":
            x = self.pick(op["x"], side)
            if x is None:
                return
            return self.do({"o": o, "x": x}, lambda: w.objs[x].new_id())
        if o == "cross_move":
            return self.cross_move(op, side)
        if o == "grow":
            return self.grow(op, side, r)
        if o == "remove_twin":
            return self.remove_twin(op, side)
        if o in FREE_OPS:
            return self.free_edit(op, side, r)
        raise ValueError(o)

    # -- round 3: objects that cross the boundary between original and copy ---------
    def containers(self, side):
        w = self.w
        return [i for i, o in enumerate(w.objs) if w.side_obj.get(i) == side and w.idx(o) == i
                and kind_of(o) in ("doc", "sec")]

    def twin_of(self, i, side):
        """The counterpart of container i on the given side, if it is (still) a container there."""
        t = self.twin.get(i)
        if t is None or self.w.side_obj.get(t) != side or kind_of(self.w.objs[t]) not in ("doc", "sec"):
            return None
        return t

    def subtree(self, obj, out=None, depth=0):
        out = [] if out is None else out
        out.append(self.w.idx(obj))
        kind = kind_of(obj)
        if depth < 60 and kind in ("doc", "sec"):
            for s in list(obj.sections):
                self.subtree(s, out, depth + 1)
        if kind == "sec":
            for p in list(obj.properties):
                out.append(self.w.idx(p))
        return out

    def cross_move(self, op, side):
        """An object of one side is given to a container of the other side by one of the entry
        points that re-parent: append, insert, extend (list / tuple / iterator, one or two
        objects), the parent setter, assignment to a position of the child list. `push`: the
        container is on the other side, the object on this one."""
        w = self.w
        other = "orig" if side == "copy" else "copy"
        dst_side, src_side = (other, side) if op.get("push") else (side, other)
        if op.get("same"):
            # between an object and a copy of it made on the same side (a copy of the copy, a
            # second copy of the original): the copy that was cloned is the original of its clone
            dst_side = src_side = side
        pairs = []
        if op.get("tw"):
            # children of the counterpart that this container does not have (by name)
            for pi in self.containers(dst_side):
                ti = self.twin_of(pi, src_side)
                if ti is None:
                    continue
                cont, tw = w.objs[pi], w.objs[ti]
                have = [c.name for c in cont.sections]
                pairs += [(pi, w.idx(c)) for c in tw.sections if c.name not in have]
                if kind_of(cont) == "sec" and kind_of(tw) == "sec":
                    have = [c.name for c in cont.properties]
                    pairs += [(pi, w.idx(c)) for c in tw.properties if c.name not in have]
            pairs = [(a, b) for a, b in pairs if b is not None]
        if pairs:
            p, x = pairs[op["x"]["n"] % len(pairs)]
        elif op.get("same"):
            return
        else:
            p, x = self.pick(op["p"], dst_side), self.pick(op["x"], src_side)
        if p is None or x is None:
            return
        cont, obj = w.objs[p], w.objs[x]
        how = "append" if op.get("m") else CROSS_HOWS[op["how"] % len(CROSS_HOWS)]
        xs, objs2 = [x], [obj]
        if how == "extend2":
            x2 = self.pick(op["x2"], src_side if op["how"] % 2 else dst_side)
            if x2 is not None and x2 != x and x2 != p:
                xs.append(x2)
                objs2.append(w.objs[x2])
        if how == "extend_childlist":
            # the child list of the other side itself is the argument (it shrinks while the
            # objects are taken over): all siblings of the object
            par = obj.parent
            src_list = None if par is None else (par.properties if kind_of(obj) == "prop" else par.sections)
            if src_list is not None:
                objs2 = list(src_list)
                xs = [w.idx(o2) for o2 in objs2]
                if None in xs or p in xs:
                    return
        moved = []
        for o2 in objs2:
            moved += [h for h in self.subtree(o2) if h is not None]
        if len(moved) > 400:
            return
        rop = {"o": "append" if how == "append" else "cross_move", "p": p, "x": x, "cross": True,
               "xs": xs, "moved": sorted(set(moved)), "to": dst_side, "how": how, "replaced": None}
        if how != "append":
            rop["free"] = True
        pos = op.get("at", 0)
        if how == "setitem":
            lst = cont.properties if kind_of(obj) == "prop" and kind_of(cont) == "sec" else cont.sections
            if len(lst):
                pos = pos % len(lst)
                rop["replaced"] = w.idx(lst[pos])

        def fn():
            if how == "append":
                cont.append(obj)
            elif how == "insert":
                cont.insert(pos, obj)
            elif how in ("extend1", "extend2"):
                cont.extend(list(objs2))
            elif how == "extend_tuple":
                cont.extend(tuple(objs2))
            elif how == "extend_iter":
                cont.extend(o2 for o2 in objs2)
            elif how == "extend_childlist":
                cont.extend(src_list if src_list is not None else [obj])
            elif how == "parent":
                obj.parent = cont
            else:
                lst[pos] = obj
        ret = self.do(rop, fn)
        if "ok" in self.steps[-1]["out"]:
            for h in rop["moved"]:
                w.side_obj[h] = dst_side
            for h in xs:
                if h in self.moved:
                    self.moved.remove(h)
                self.moved.append(h)
        return ret

    def grow(self, op, side, r):
        """A new child (fresh name, mostly) in a container of this side, preferably one that has a
        counterpart on the other side: made outside and appended (the form the model follows),
        create_section / create_property, the constructor with parent=, insert, the parent setter."""
        import odml
        w = self.w
        other = "orig" if side == "copy" else "copy"
        conts = self.containers(side)
        if op.get("tw"):
            conts = [i for i in conts if self.twin_of(i, other) is not None] or conts
        if not conts:
            return
        p = conts[op["p"]["n"] % len(conts)]
        cont = w.objs[p]
        kind = "sec" if kind_of(cont) == "doc" and op["n"] != 0 else op["kind"]
        name = op["gname"]
        how = "new_append" if op.get("m") else GROW_HOWS[op["how"] % len(GROW_HOWS)]
        fam = op["family"]
        trip = [py_and_lit(fam, r) for _ in range(op["n"])] if kind == "prop" else []
        if how.startswith("new_"):
            self.edit({"o": "new_obj", "kind": kind, "name": name, "family": fam, "seed": op.get("seed", 0),
                       "n": op["n"]}, side)
            if "ok" not in self.steps[-1]["out"]:
                return
            x = len(w.objs) - 1
            obj = w.objs[x]
            if how == "new_append":
                return self.do({"o": "append", "p": p, "x": x}, lambda: cont.append(obj))
            if how == "new_insert":
                return self.do({"o": "grow", "free": True, "how": how}, lambda: cont.insert(op.get("at", 0), obj))

            def fn():
                obj.parent = cont
            return self.do({"o": "grow", "free": True, "how": how}, fn)

        def fn():
            if how == "create":
                if kind == "sec":
                    return cont.create_section(name, "t")
                return cont.create_property(name, values=[t[0] for t in trip], dtype=FAMILY_DTYPE[fam])
            if kind == "sec":
                return odml.Section(name=name, type="t", parent=cont)
            return odml.Property(name=name, values=[t[0] for t in trip], dtype=FAMILY_DTYPE[fam], parent=cont)
        ret = self.do({"o": "grow", "free": True, "how": how}, fn)
        self.reregister(side)
        return ret

    def remove_twin(self, op, side):
        """container.remove(obj) with the counterpart of one of its children: an object of the
        other side that is equal to a child but is not the child."""
        w = self.w
        other = "orig" if side == "copy" else "copy"
        cands = []
        for pi in self.containers(side):
            ti = self.twin_of(pi, other)
            if ti is None:
                continue
            tw = w.objs[ti]
            kids = list(tw.sections) + (list(tw.properties) if kind_of(tw) == "sec" else [])
            cands += [(pi, w.idx(k)) for k in kids if w.idx(k) is not None]
        if not cands:
            return
        p, x = cands[op["k"] % len(cands)]
        rop = {"o": "remove", "p": p, "x": x}
        if not op.get("m"):
            rop["free"] = True
        return self.do(rop, lambda: w.objs[p].remove(w.objs[x]))

    @staticmethod
    def wrap_ij(prop, op):
        """Indices of a tuple item: mostly brought into range (the value is only read here)."""
        i, j = op["i"], op["j"]
        if op.get("wrap"):
            try:
                i = i % len(prop)
                j = j % len(prop[i])
            except Exception:
                pass
        return i, j

    def free_edit(self, op, side, r):
        """Operations outside the model (oracle only)."""
        import odml
        w = self.w
        o = op["o"]
        p = self.pick(op["p"], side)
        x = self.pick(op["x"], side)
        q = self.pick(op["q"], side)
        rop = {"o": o, "free": True}
        if o in ("sec_merge", "merge_across", "set_link", "finalize") and len(w.objs) > 300:
            self.guarded = True
            return                              # these copy whole subtrees: keep the case small
        if o in ("insert", "extend", "create_section", "create_property", "clean", "sec_merge") and p is None:
            return
        if o in ("insert", "reorder") and op.get("how", 0) % 3 == 0:
            op = dict(op, pos=op.get("at", op["pos"]))     # the tenth position, far beyond both ends
        if o == "insert" and x is not None:
            return self.do(rop, lambda: w.objs[p].insert(op["pos"], w.objs[x]))
        if o == "extend" and x is not None:
            return self.do(rop, lambda: w.objs[p].extend([w.objs[x]]))
        if o == "reorder" and x is not None:
            return self.do(rop, lambda: w.objs[x].reorder(op["pos"]))
        if o == "set_card" and x is not None:
            obj = w.objs[x]

            def fn():
                if kind_of(obj) == "prop":
                    obj.set_values_cardinality(1, 4)
                else:
                    obj.set_sections_cardinality(None, 3)
                    obj.set_properties_cardinality(1, None)
            return self.do(rop, fn)
        if o in ("prop_extend", "prop_remove", "prop_insert", "values_retype") and q is not None:
            prop = w.objs[q]
            fam = family_of(prop.dtype)
            if fam is None:
                return
            py, st, _lit = py_and_lit(fam, r, allow_list_form=False)
            if o == "prop_extend":
                return self.do(rop, lambda: prop.extend([py]))
            if o == "prop_insert":
                return self.do(rop, lambda: prop.insert(0, py))
            if o == "prop_remove":
                return self.do(rop, lambda: prop.remove(prop.values[0] if prop.values else st))

            def fn():
                if fam == "int":
                    prop.dtype = "float"
                elif fam == "str":
                    prop.dtype = "text"
            return self.do(rop, fn)
        # clean / unmerge / sec_merge: what the model can follow (RECORD TIE: every merged Section involved
        # is merged with a Section without children, no link to rewrite) is noted in the operation as
        # the model operations it amounts to ("mops", decided BEFORE the call); otherwise oracle only
        if o == "clean":
            rec_note(rop, rec_plan_clean(w, p))
            return self.do(rop, lambda: w.objs[p].clean())
        if o == "unmerge":
            # what clean() does for a merged Section, called directly
            y = self.pick({"sel": "merged", "n": op["l"]}, side)
            if y is None or w.objs[y].get_merged_equivalent() is None:
                return
            rec_note(rop, rec_plan_unmerge(w, y))
            return self.do(rop, lambda: w.objs[y].unmerge(w.objs[y].get_merged_equivalent()))
        if o == "sec_merge":
            # ("other": the Section to merge with, by selector; "other_sd": it is a Section of the other
            # side - a copy merged with a Section of the original document, which is only read)
            other = self.pick(op["other"], op.get("other_sd") or side) if "other" in op else \
                self.pick({"sel": "sec", "n": op["pos"] + 7}, side)
            if other is None or kind_of(w.objs[p]) != "sec" or other == p:
                return
            strict = op.get("how", 1) % 4 == 0
            rec_note(rop, rec_plan_merge(w, p, other, strict))

            def fn():
                # (strict or not: with strict the attributes of equally named Properties must agree)
                w.objs[p].merge(w.objs[other], strict=strict)
            ret = self.do(rop, fn)
            self.reregister(side)
            return ret
        if o == "create_section":
            ret = self.do(rop, lambda: w.objs[p].create_section(op["name"], "t"))
            self.reregister(side)
            return ret
        if o == "create_property" and kind_of(w.objs[p]) == "sec":
            ret = self.do(rop, lambda: w.objs[p].create_property(op["name"], values=[1]))
            self.reregister(side)
            return ret
        if o == "set_parent" and x is not None:
            def fn():
                w.objs[x].parent = None if p is None or op["pos"] < -1 else w.objs[p]
            return self.do(rop, fn)
        if o == "child_list_edit" and p is not None:
            # `sections` / `properties` hand out the child list itself: order changes and
            # replacements through the list object are structural edits of this side
            cont = w.objs[p]
            how = op["how"] % 6
            rop["how"] = how
            lst = cont.properties if kind_of(cont) == "sec" and op["how"] % 2 else cont.sections

            def fn():
                if how in (0, 1):
                    lst.sort()
                elif how in (2, 3):
                    lst.reverse()
                elif how == 4:
                    lst.sort(reverse=True)
                else:
                    new = odml.Section(name=op["gname"], type="t")
                    w.register_tree(new, side)
                    cont.sections[op["at"] % max(1, len(cont.sections))] = new
            return self.do(rop, fn)
        # ---- round 2 -----------------------------------------------------------------------
        other_side = "orig" if side == "copy" else "copy"
        t = self.pick(op["t"], side) if "t" in op else None
        if o == "inner_edit" and t is not None:
            # every spelling of the direct access to a stored tuple item; all of them keep the
            # length of the item (a 2-tuple with three items is not a value the library accepts)
            prop = w.objs[t]
            i, j = self.wrap_ij(prop, op)
            sv = op["s"]
            how = op["seed"] % 7
            rop["how"] = how

            def fn():
                if how == 0:
                    prop[-1][-1] = sv                       # negative indices
                elif how == 1:
                    part = prop[0:2]                        # a slice: a new list of the same items
                    part[i % len(part)][-(1 + j % len(part[i % len(part)]))] = sv
                elif how == 2:
                    for item in prop:                       # iteration goes through __getitem__
                        if isinstance(item, list):
                            item[j % len(item)] = sv
                elif how == 3:
                    prop[i].reverse()
                elif how == 4:
                    item = prop[i]
                    item[:] = [sv] + item[1:]               # slice assignment inside the item
                elif how == 5:
                    prop[i].sort()
                else:
                    item = prop[i]
                    item[0], item[j] = item[j], item[0]
            return self.do(rop, fn)
        if o == "hold_item" and t is not None:
            prop = w.objs[t]

            i, _j = self.wrap_ij(prop, op)

            def fn():
                item = prop[i if op["pos"] >= 0 else -1]
                if not isinstance(item, list):
                    raise TypeError("not a tuple item")
                self.handles.append((item, side, t))
            return self.do(rop, fn)
        if o == "held_set":
            # the item belongs to the side its Property is on now (it may have been moved over)
            mine = [h for h, sd, pi in self.handles if w.side_obj.get(pi, sd) == side]
            if not mine:
                return
            item = mine[op["l"] % len(mine)]
            j = op["j"] % len(item) if op.get("wrap") and len(item) else op["j"]

            def fn():
                item[j] = op["s"]
            return self.do(rop, fn)
        if o == "values_across" and t is not None and "how" in op:
            # the values of a Property of the other side are handed to a Property of this side:
            # the stored items themselves (bracket access) as a list, as arguments of extend / the
            # constructor, the Property itself as the argument of extend / merge. This side must
            # get copies: the write to the last item that follows must not reach the other side.
            dst = w.objs[t]
            tw = self.twin.get(t)
            cands = [i for i, ob in enumerate(w.objs) if w.side_obj.get(i) == other_side and w.idx(ob) == i
                     and kind_of(ob) == "prop" and ob.dtype == dst.dtype and len(ob) > 0]
            if not cands:
                return
            si = tw if tw in cands and op["how"] % 3 else cands[op["l"] % len(cands)]
            src = w.objs[si]
            how = op["how"] % 6
            rop.update({"how": how, "src": si, "dst": t})

            def fn():
                if how == 0:
                    dst.values = [src[k] for k in range(len(src))]
                elif how == 1:
                    dst.extend(src)
                elif how == 2:
                    dst.extend([src[k] for k in range(len(src))])
                elif how == 3:
                    dst.merge(src, strict=False)
                elif how == 4:
                    dst.values = src.values
                else:
                    return odml.Property(name=op["gname"], values=[src[k] for k in range(len(src))],
                                         dtype=src.dtype)
            made = self.do(rop, fn, (lambda ret: w.register_tree(ret, side)) if how == 5 else None)
            tgt = made if how == 5 else dst
            if tgt is None or "ok" not in self.steps[-1]["out"]:
                return

            def fn2():
                item = tgt[-1]
                if not isinstance(item, list):
                    raise TypeError("not a tuple item")
                item[op["j"] % len(item)] = op["s"]
            return self.do({"o": "inner_edit", "free": True, "after": "values_across"}, fn2)
        if o == "merge_across" and "y" in op:
            # Section.merge copies what the destination does not have (clone) and extends
            # Properties it has (values): the source is on the other side and must stay as it is,
            # now and under every later edit of the destination - and the other way round
            dst = self.pick(op["y"], side)
            src = self.pick({"sel": "sec", "n": op["l"]}, other_side)
            if dst is None or src is None:
                return

            def fn():
                w.objs[dst].merge(w.objs[src], strict=op["pos"] > 1)
            ret = self.do(rop, fn)
            self.reregister(side)
            return ret
        if o == "set_link" and "y" in op:
            x1 = self.pick(op["y"], side)
            tgt = self.pick({"sel": "sec", "n": op["l"]}, side)
            if x1 is None or tgt is None:
                return
            if related(w.objs[x1], w.objs[tgt]):
                return                          # a Section that includes a copy of what it lies in

            def fn():
                w.objs[x1].link = None if op["pos"] < -1 else w.objs[tgt].get_path()
            ret = self.do(rop, fn)
            self.reregister(side)
            return ret
        if o == "finalize":
            d = self.pick({"sel": "doc", "n": 0}, side)
            if d is None:
                return
            # Document.finalize resolves links while it walks the tree, incl. those of the copies it
            # has just merged in: a link whose target contains the linking Section never comes to
            # an end (RecursionError after a long time). Only documents with at most one link, and
            # that one between unrelated Sections, are finalized here.
            linked = linked_sections(w.objs[d])
            if len(linked) > 1:
                return
            for sec in linked:
                try:
                    target = sec.get_section_by_path(sec.link)
                except Exception:
                    continue
                if target is None or related(sec, target):
                    return
            ret = self.do(rop, lambda: w.objs[d].finalize())
            self.reregister(side)
            return ret
        if o == "value_alias" and q is not None:
            # `value`, the deprecated spelling of `values` (getter and setter), as long as it exists
            prop = w.objs[q]
            fam = family_of(prop.dtype)
            if fam is None:
                return
            if op["pos"] >= 0:
                return self.do({"o": "get_values", "p": q, "free": True, "alias": True}, lambda: prop.value,
                               lambda ret: {"ret": w.register_list(ret, side, fam)})
            l = self.pick_list(op["l"], side, fam)
            if l is None:
                return
            lst = w.lists[l]

            def fn():
                prop.value = lst
            return self.do(rop, fn)
        if o in ("ctor_from_list", "extend_from_list", "set_values_wrapped"):
            # the other ways a list of values is passed in: the constructor, create_property,
            # extend, and the setter with a tuple / an iterator over the caller's items
            if o == "ctor_from_list":
                l = self.pick_list(op["l"], side)
                if l is None:
                    return
                lst, fam = w.lists[l], w.list_family[l]
                if p is not None and kind_of(w.objs[p]) == "sec" and op["pos"] >= 0:
                    ret = self.do(rop, lambda: w.objs[p].create_property(op["name"], values=lst,
                                                                         dtype=FAMILY_DTYPE[fam]))
                    self.reregister(side)
                    return ret
                if op["pos"] == -2:             # the deprecated constructor argument `value`
                    return self.do(rop, lambda: odml.Property(name=op["name"], value=lst, dtype=FAMILY_DTYPE[fam]),
                                   lambda ret: w.register_tree(ret, side))
                return self.do(rop, lambda: odml.Property(name=op["name"], values=lst, dtype=FAMILY_DTYPE[fam]),
                               lambda ret: w.register_tree(ret, side))
            if q is None:
                return
            prop = w.objs[q]
            fam = family_of(prop.dtype)
            l = self.pick_list(op["l"], side, fam)
            if l is None:
                return
            lst = w.lists[l]
            if o == "extend_from_list":
                return self.do(rop, lambda: prop.extend(lst))

            def fn():
                if op["pos"] >= 1:
                    prop.values = tuple(lst)
                elif op["pos"] >= -1:
                    prop.values = iter(lst)
                else:
                    prop.values = (v for v in lst)
            return self.do(rop, fn)
        return

    def reregister(self, side):
        """Objects created inside the library by a free op join the side of the op."""
        w = self.w
        for i in [i for i, s in list(w.side_obj.items()) if s == side]:
            obj = w.objs[i]
            kind = kind_of(obj)
            kids = []
            if kind in ("doc", "sec"):
                kids += list(obj.sections)
            if kind == "sec":
                kids += list(obj.properties)
            for k in kids:
                if w.idx(k) is None:
                    w.register_tree(k, side)
        if self.steps:
            self.steps[-1]["snap"] = w.snap()

    # -- a whole case ------------------------------------------------------------
    @staticmethod
    def join_loaders():
        """The `repository` setter starts a loader thread per URL (all URLs of this check fail at
        once): none is left running when the case ends, and the table of loader threads of the
        process does not grow from case to case."""
        try:
            import odml.terminology as terminology
            table = terminology.terminologies.loading
            for url, thread in list(table.items()):
                thread.join(5)
                if not thread.is_alive() and (url in REPOS or str(url).startswith("file:///nonexistent/c11/")):
                    table.pop(url, None)
        except Exception:
            pass

    def write_xml(self, doc, fname):
        from odml.tools.odmlparser import ODMLWriter
        tmp = tempfile.mkdtemp(prefix="c11_")
        self.tmps.append(tmp)
        tempfile.tempdir = tmp                    # the library's cache directory goes there too
        path = os.path.join(tmp, fname)
        ODMLWriter("XML").write_file(doc, path)
        return tmp, "file://" + path

    def run(self):
        case = self.case
        w = self.w
        tmp = None
        old_tmp = tempfile.tempdir
        term_url = None
        try:
            term_doc = None
            if case.get("term") is not None:
                # a terminology file in a private directory; Sections of the document include
                # Sections of it (resolved when the document is built). The cached terminology
                # document is part of the original side.
                try:
                    import odml.terminology as terminology
                    tmp, url = self.write_xml(build_doc(case["term"]), "terms.xml")
                    term_doc = terminology.load(url)
                    term_url = url
                    if term_doc is None or len(term_doc.sections) == 0:
                        return {"skipped": "terminology could not be loaded"}
                except Exception as exc:
                    return {"skipped": "terminology preparation failed: %s" % fw.exc_name(exc)}
                w.scrub = tmp
                doc = build_doc(case["doc"], inc_url=url)
            else:
                doc = build_doc(case["doc"])
            first = case["first"]
            pre = case.get("pre", [])
            if first["o"] == "template":
                try:
                    import odml.templates as templates
                    tmp, url = self.write_xml(doc, "template.xml")
                    handler = templates.TemplateHandler()
                    loaded = handler.load(url)
                    if loaded is None or len(loaded.sections) == 0:
                        return {"skipped": "template could not be loaded"}
                except Exception as exc:
                    return {"skipped": "template preparation failed: %s" % fw.exc_name(exc)}
                self.handler, self.url, self.loaded = handler, url, loaded
                w.register_tree(loaded, "orig")
                init = w.init_table()
                self.record(None, None)
                for op in pre:                     # the cached document has a history of its own
                    self.edit(op, "orig")
                tops = [i for i, o in enumerate(w.objs) if kind_of(o) == "sec" and o.parent is loaded
                        and w.idx(o) == i]
                if tops:
                    x = tops[first["root"] % len(tops)]
                    if "x" in first and self.pick(first["x"], "orig") in tops:
                        x = self.pick(first["x"], "orig")
                    name = w.objs[x].name
                    if first.get("style") == "pos":
                        via = lambda: handler.clone_section(url, name, first["children"], first["keep"])
                    else:
                        via = lambda: handler.clone_section(url, name, children=first["children"],
                                                            keep_id=first["keep"])
                    self.op_clone(x, first["children"], first["keep"], "copy", via=via)
            elif first["o"] == "include":
                # Section.include: the Sections of a terminology file, cached by the library for the
                # whole process, are merged (copied) into a Section of another document
                try:
                    import odml
                    import odml.terminology as terminology
                    tmp, url = self.write_xml(doc, "terms.xml")
                    loaded = terminology.load(url)
                    term_url = url
                    if loaded is None or len(loaded.sections) == 0:
                        return {"skipped": "terminology could not be loaded"}
                except Exception as exc:
                    return {"skipped": "terminology preparation failed: %s" % fw.exc_name(exc)}
                w.register_tree(loaded, "orig")
                init = w.init_table()
                self.record(None, None)
                for op in pre:
                    self.edit(op, "orig")
                self.cur_side = "copy"
                ndoc = self.do({"o": "new_doc", "free": True}, lambda: odml.Document(author="inc"),
                               lambda ret: w.register_tree(ret, "copy"))
                nsec = self.do({"o": "new_sec", "free": True},
                               lambda: odml.Section(name="inc", type="t", parent=ndoc),
                               lambda ret: w.register_tree(ret, "copy"))
                tops = [o for o in loaded.sections]
                if nsec is not None and tops:
                    target = url
                    if first["root"] % 3 != 0:
                        target = url + "#" + tops[first["root"] % len(tops)].get_path()

                    def fn():
                        nsec.include = target
                    self.do({"o": "include", "free": True}, fn)
                    self.reregister("copy")
            else:
                w.register_tree(doc, "orig")
                if term_doc is not None:
                    w.register_tree(term_doc, "orig")
                init = w.init_table()
                self.record(None, None)
                for op in pre:                     # what happened to the original before the copy
                    self.edit(op, "orig")
                if first["o"] == "clone":
                    x = self.pick(first["x"], "orig") if "x" in first else None
                    if x is None:
                        x = first["root"] % len(w.objs)
                    self.op_clone(x, first["children"], first["keep"], "copy", style=first.get("style", "kw"))
                elif first["o"] == "export":
                    cands = [i for i, o in enumerate(w.objs) if kind_of(o) != "doc"]
                    x = self.pick(first["x"], "orig") if "x" in first else None
                    if x is None or x not in cands:
                        x = cands[first["root"] % len(cands)]
                    self.op_export(x, "copy")
                elif first["o"] == "detached_export":
                    # a Property / Section outside any document
                    self.edit({"o": "new_obj", "kind": first["kind"], "name": "k",
                               "family": first.get("family", "tup"),
                               "seed": first["root"], "n": 2}, "orig")
                    self.op_export(len(w.objs) - 1, "copy")
            for op in case["ops"]:
                side = op.get("sd") or self.side
                self.edit(op, side if side in ("copy", "orig") else "copy")
            return {"init": init, "steps": self.steps}
        finally:
            self.join_loaders()
            tempfile.tempdir = old_tmp
            if term_url is not None:
                try:
                    import odml.terminology as terminology
                    terminology.terminologies.pop(term_url, None)
                except Exception:
                    pass
            if tmp is not None:
                shutil.rmtree(tmp, ignore_errors=True)
            for t in self.tmps:
                shutil.rmtree(t, ignore_errors=True)


# ----------------------------------------------------------------------------- counterfactual runs
def cf_project(ex, side):
    """What one side of a finished run looked like after each of its own operations: the outcome
    (carried out / refused), every parentless tree of the side (content, ids numbered by first
    occurrence, whether a Section is merged) and every list the caller holds on that side. `inputs`
    is what the side could legitimately read from the other side when the operation started: the
    Sections of the other side its Sections are merged with (a merged Section keeps a reference to
    the Section it was merged with; the copy of a merged Section refers to the same one) - their
    content and their place in their tree."""
    w = ex.w
    out = []
    steps = ex.steps

    def content(node, seen):
        return {"k": node["k"], "n": node["n"], "a": node["a"], "v": node["v"],
                "id": seen.setdefault(node["id"], len(seen)), "mg": node["m"] is not None,
                "s": [content(c, seen) for c in node["s"]], "p": [content(c, seen) for c in node["p"]]}

    def locate(snap, h):
        for key in sorted(snap["roots"], key=int):
            todo = [(snap["roots"][key], [])]
            while todo:
                n, path = todo.pop()
                if n["h"] == h:
                    return path + [n["n"]], n
                for c in n["s"]:
                    todo.append((c, path + [n["n"]]))
        return None, None

    def inputs(snap):
        res = []
        for key in sorted(snap["roots"], key=int):
            if w.side_obj.get(int(key)) != side:
                continue
            for n in walk_nodes(snap["roots"][key]):
                m = n.get("m")
                if m is None:
                    continue
                if m < 0:
                    res.append("unknown")
                elif w.side_obj.get(m) != side:
                    path, node = locate(snap, m)
                    res.append({"path": path, "tree": strip(node) if node is not None else None})
        return res

    for i in range(1, len(steps)):
        st = steps[i]
        if st["op"] is None or st["op"].get("side") != side:
            continue
        snap = st["snap"]
        seen = {}
        trees = [content(snap["roots"][key], seen) for key in sorted(snap["roots"], key=int)
                 if w.side_obj.get(int(key)) == side]
        lists = [l for li, l in enumerate(snap["lists"]) if w.side_list.get(li) == side]
        out.append({"o": st["op"]["o"], "ok": "ok" in st["out"], "trees": trees, "lists": lists,
                    "inputs": inputs(steps[i - 1]["snap"])})
    return out


# ----------------------------------------------------------------------------- canonical forms
def canon_ids(snap):
    """Replaces ids by the index of their first occurrence (uuid4 values are never compared)."""
    seen = {}

    def walk(node):
        out = dict(node)
        out["id"] = seen.setdefault(node["id"], len(seen))
        out["s"] = [walk(s) for s in node["s"]]
        out["p"] = [walk(p) for p in node["p"]]
        return out
    roots = {}
    for key in sorted(snap["roots"], key=int):
        roots[key] = walk(snap["roots"][key])
    return {"roots": roots, "lists": snap["lists"]}


def strip(node, ids=False):
    """Content of a tree: no identities, ids only on request."""
    out = {"k": node["k"], "n": node["n"], "a": node["a"], "v": node["v"],
           "s": [strip(s, ids) for s in node["s"]], "p": [strip(p, ids) for p in node["p"]]}
    if ids:
        out["id"] = node["id"]
    return out


def shallow(node):
    return {"k": node["k"], "n": node["n"], "a": node["a"], "v": node["v"], "id": node["id"]}


def walk_nodes(node):
    yield node
    for s in node["s"]:
        for n in walk_nodes(s):
            yield n
    for p in node["p"]:
        yield p


def find_node(snap, h):
    for root in snap["roots"].values():
        for n in walk_nodes(root):
            if n["h"] == h:
                return n
    return None


# ----------------------------------------------------------------------------- the check
class C11(fw.Check):
    prop = "C11"
    lean_targets = ["OdmlModel.Props.C11"]
    obligations = ["C11." + t for t in [
        "clone_writes_only_new",
        "clone_detached_new",
        "clone_separate",
        "edit_copy_preserves_original",
        "edit_original_preserves_copy",
        "clone_no_children",
        "clone_root_equal",
        "clone_property_equal",
        "clone_ids_fresh",
        "clone_scoped",
        "export_writes_only_new",
        "export_separate",
        "edit_export_preserves_original",
        "edit_original_preserves_export",
        "values_get_new_equal",
        "values_get_edits_preserve_store",
        "store_edits_preserve_values_got",
        "values_get_shallow_counterexample",
        "values_set_copies",
        "edits_of_passed_list_preserve_property",
        "step_scoped",
        "run_scoped",
        "step_wf",
        "run_wf",
        "reachable_wf",
        "edit_original_preserves_copy_reachable",
        "edit_original_preserves_export_reachable",
        "store_edits_preserve_values_got_reachable",
        "clone_tree_equal",
        "clone_ids_kept",
        "clone_ids_fresh_tree",
        "clone_tree_equal_reachable",
        "edit_original_preserves_copy_tree",
        "edit_copy_preserves_original_tree",
        "export_leaf_chain",
        "export_leaf_detached_property",
        "export_leaf_chain_reachable",
        "clone_tree_equal_illtyped_counterexample",
        "export_leaf_chain_repeated_ids",
        "clone_inherits_nothing",
        "clone_inherits_nothing_template",
        "record_dicts_never_written",
        "clone_makes_no_dict",
        "clone_shares_record",
        "edit_copy_preserves_original_record",
        "edit_original_preserves_copy_record",
        "record_independent_reachable",
        "unmerge_original_unaffected_by_copy_edits",
        "unmerge_copy_unaffected_by_original_edits",
        "merge_original_unaffected_by_copy_edits",
        "merge_copy_unaffected_by_original_edits",
        "edit_export_preserves_original_record",
        "edit_original_preserves_export_record",
        "unmerge_copy_then_original_witness",
        "unmerge_in_place_counterexample",
        "merge_in_place_counterexample"]]
    case_timeout = 30
    trusted_base = [
        "Lean 4.33.0 kernel; axioms propext, Classical.choice, Quot.sound only (audited per theorem)",
        "hand-written model lean/OdmlModel/Model/Clone.lean, tied to /repo by this correspondence run",
        "Driver/C11.lean JSON glue (object / list tables, snapshots); harness/framework.py, harness/c11.py",
        "uuid.uuid4 returns an id that is not in use (modelled as a counter)",
    ]
    assumptions = [
        "values and attribute values are opaque to the model: the values handed to it are in the normal "
        "form of the dtype, on which the re-conversion done by the values setter is the identity (C05)",
        "Section.export_leaf compares `curr != self` deeply; the model uses object identity (an ancestor "
        "has more descendants than the object, so both agree on trees)",
        "the store is a forest when clone is called (C03); on a cyclic store the model reports that "
        "the recursion does not end",
    ]
    rule = ("random documents (<= 15 objects, depth <= 4; every tenth one wide: a Section with 10-12 "
            "Properties / sub-Sections, every tenth one a chain of 7 levels; Properties of every dtype "
            "incl. 1-/2-/3-/10-tuples, dates before the year 1000, 0-12 values, all attributes, "
            "cardinalities met and not met, optional resolved or unresolved link) x every object as "
            "clone root x children x keep_id (flags by keyword or by position), every Section / "
            "Property as export_leaf root, TemplateHandler.clone_section on a file: URL (and again on "
            "the same handler later), Section.include of a cached terminology file, detached objects; "
            "optionally a history of edits of the original before the copy; followed by random edit "
            "sequences on the copy, on the original, or alternating between both, incl. writes to "
            "stored tuple items through the bracket access (prop[i][j] = s and its other spellings, "
            "items held across the copy), Section.merge from the other side, links, lists passed in "
            "through every entry point; objects that cross the boundary between original and copy "
            "(append / insert / extend with lists, tuples, iterators, two objects, the child list of "
            "the other side itself / the parent setter / assignment to a position of the child list, "
            "both directions, Sections and Properties, below Documents and Sections, also between a "
            "copy and its own copy), directed histories in which a child grows in one of two still "
            "equal twins and is moved to the other one and edited there, the twin of a child given "
            "to remove, child lists edited through the list handed out, values taken from a "
            "Property of the other side; copies (keep_id or not) put back below / beside / above their "
            "original, once or twice, then exported and cloned; ids repeated along a path and among "
            "siblings; counterfactual stream: documents with links / includes in many configurations "
            "(and merges made only after the copy), copy of a merged Section / the Document / a "
            "template Section, both sides cleaned, un-merged, linked, finalized, merged and edited in "
            "turn, each case run again without the operations of either side; every third document "
            "with repositories on the Document and / or on Sections at every level (none of their own = "
            "inherited, their own, the same as the one they would inherit), rarely an include that "
            "cannot be resolved, each of them also as a template file; the repository written through "
            "its setter ('' and None included), Document date, Property uncertainty and "
            "dependency_value among the edits; TemplateHandler.clone_section for a name / a file that "
            "does not exist, then again for one that does; link-free histories (a Section without / with a "
            "definition of its own merged with childless Sections before or after the copy, clone / Document "
            "clone / export_leaf, both sides unmerged, merged again, edited, copied again, in every order) "
            "that the model follows to the end, the record of the merge (items, identity of the dict) "
            "compared after every step; "
            "every parentless object and every caller-held list is "
            "snapshotted after every operation. Non-trivial = the case has at least one edit that "
            "was carried out; distinct = distinct canonical JSON of the case.")

    # -- generation ----------------------------------------------------------
    def generate(self, tier, rng):
        g = Gen(rng)
        cases = []
        n_docs = 160 if tier == "quick" else 900
        for di in range(n_docs):
            shape = {7: "wide", 3: "deep"}.get(di % 10)
            doc = g.doc(linked=(di % 5 == 4), shape=shape)
            if di % 5 == 2:
                g.dup_ids(doc)                # ids repeated along a path / among siblings
            with_repos = di % 3 == 1
            if with_repos:
                g.repos(doc)                  # round 5: repositories on the Document / on Sections
            n_nodes = 1 + self.count(doc)
            roots = list(range(n_nodes)) if tier == "thorough" or n_nodes <= 6 else \
                sorted(rng.sample(range(n_nodes), 6))
            for root in roots:
                for children in (True, False):
                    keep = rng.random() < 0.5
                    side = rng.choice(["copy", "copy", "orig", "mixed"])
                    free = rng.random() < 0.3
                    case = {"stream": "free" if free else "clone", "doc": doc, "side": side,
                            "first": {"o": "clone", "root": root, "children": children, "keep": keep,
                                      "style": rng.choice(["kw", "kw", "pos"])},
                            "ops": g.ops(rng.randrange(2, 14), free, mixed=(side == "mixed"))}
                    if rng.random() < 0.3:
                        # the original has a history before the copy is made
                        case["pre"] = g.ops(rng.randrange(1, 6), free)
                    if free and side in ("orig", "mixed") and rng.random() < 0.5:
                        g.hold_then_edit(case)
                    cases.append(case)
                if rng.random() < 0.7:
                    side = rng.choice(["copy", "orig", "mixed"])
                    free = rng.random() < 0.25
                    case = {"stream": "free" if free else "export", "doc": doc, "side": side,
                            "first": {"o": "export", "root": root},
                            "ops": g.ops(rng.randrange(2, 12), free, mixed=(side == "mixed"))}
                    if rng.random() < 0.3:
                        case["pre"] = g.ops(rng.randrange(1, 6), free)
                    if free and side in ("orig", "mixed") and rng.random() < 0.5:
                        g.hold_then_edit(case)
                    cases.append(case)
            cases.append({"stream": "values", "doc": doc, "side": "orig", "first": {"o": "none"},
                          "ops": g.ops(rng.randrange(4, 16), False)})
            # round 3: copy and original while they are still twins - a child grows in one of them
            # and is moved over to the other one (every re-parenting entry point, both directions),
            # then both sides are edited; the containers are the Document, Sections at any depth,
            # copies without children, exports (the chain) and template copies
            for _ in range(3 if tier == "quick" else 6):
                free = rng.random() < 0.4
                kind = rng.choice(["clone", "clone", "clone", "clone", "export", "template"])
                if kind == "clone":
                    first = {"o": "clone", "root": rng.choice([0, rng.randrange(n_nodes)]),
                             "children": rng.random() < 0.8, "keep": rng.random() < 0.4,
                             "style": rng.choice(["kw", "kw", "pos"])}
                elif kind == "export":
                    first = {"o": "export", "root": rng.randrange(n_nodes)}
                else:
                    first = {"o": "template", "root": rng.randrange(100), "children": rng.random() < 0.8,
                             "keep": rng.random() < 0.5, "style": rng.choice(["kw", "pos"])}
                case = {"stream": "free" if free else kind, "twins": True, "doc": doc, "side": "mixed",
                        "first": first, "ops": g.twin_ops(free)}
                if rng.random() < 0.2:
                    case["pre"] = g.ops(rng.randrange(1, 4), free)
                cases.append(case)
            for _ in range((di % 4 == 0) + with_repos):
                # (round 5: every document with repositories is also a template file)
                free = rng.random() < 0.25
                side = rng.choice(["copy", "orig", "mixed"])
                case = {"stream": "free" if free else "template", "doc": doc, "side": side,
                        "first": {"o": "template", "root": rng.randrange(100),
                                  "children": rng.random() < 0.7, "keep": rng.random() < 0.5,
                                  "style": rng.choice(["kw", "pos"])},
                        "ops": g.ops(rng.randrange(2, 10), free, mixed=(side == "mixed"), handler=True)}
                if rng.random() < 0.3:
                    case["pre"] = g.ops(rng.randrange(1, 5), free)
                cases.append(case)
            if di % 6 == 0:
                cases.append({"stream": "export", "doc": doc, "side": rng.choice(["copy", "orig"]),
                              "first": {"o": "detached_export", "kind": rng.choice(["prop", "sec"]),
                                        "family": rng.choice(["tup", "tup", "tup3", "str", "date"]),
                                        "root": rng.randrange(1000)},
                              "ops": g.ops(rng.randrange(2, 8), False)})
            # round 4: a copy put back into the tree of its original (ids repeated along the path with
            # keep_id), then that tree is the original: export_leaf / clone of the nested copy, of
            # objects inside it, of the Sections around it. All in the vocabulary of the model.
            for _ in range(2 if tier == "quick" else 4):
                side = rng.choice(["copy", "orig", "mixed"])
                if rng.random() < 0.75:
                    first = {"o": "export", "root": rng.randrange(n_nodes),
                             "x": g.sel(rng.choice(["in_lastcopy", "in_lastcopy", "lastcopy", "secprop"]))}
                else:
                    first = {"o": "clone", "root": rng.randrange(n_nodes), "children": rng.random() < 0.8,
                             "keep": rng.random() < 0.5, "style": "kw",
                             "x": g.sel(rng.choice(["lastsrc", "lastsrc_up", "lastcopy", "doc"]))}
                case = {"stream": first["o"], "nest": True, "doc": doc, "side": side, "first": first,
                        "pre": g.nest_ops(), "ops": g.ops(rng.randrange(1, 8), False, mixed=(side == "mixed"))}
                for _k in range(rng.choice([0, 1, 1, 2])):
                    # further exports out of the nested copy, from both sides
                    case["ops"].insert(rng.randrange(0, len(case["ops"]) + 1),
                                       {"o": "export", "x": g.sel("in_lastcopy"), "sd": rng.choice(["orig", "copy"])}
                                       if side == "mixed" else {"o": "export", "x": g.sel("in_lastcopy")})
                cases.append(case)
            if di % 5 == 1:
                # Section.include (oracle only): the terminology cache of the process is the original
                side = rng.choice(["copy", "orig", "mixed"])
                cases.append({"stream": "free", "doc": doc, "side": side,
                              "first": {"o": "include", "root": rng.randrange(100)},
                              "ops": g.ops(rng.randrange(3, 10), True, mixed=(side == "mixed"))})
        # round 4, counterfactual stream (oracle only): documents with links in many configurations (and
        # every third time an ordinary document), a copy of a merged Section / of the Document / of
        # any object, or an export; then both sides are edited in turn, the merged state taken back
        # and set up again on both. Each case is run three times: as it is, without the operations
        # on the copy, without the operations on the original (see `counterfactual`).
        for ci in range(75 if tier == "quick" else 500):
            if ci % 3 == 2:
                doc = g.doc(linked=(ci % 2 == 0), shape={5: "deep", 11: "wide"}.get(ci % 12))
                g.all_oids(doc)
            else:
                doc = g.link_doc()
            term = None
            if ci % 6 == 3:
                term, doc = g.inc_pair()       # merged through `include` instead of `link`
            if ci % 4 == 1:
                # round 5: repositories (the merged / included Sections and their targets carry and
                # inherit them; with a terminology file the Document's may be that file)
                g.repos(doc, reachable=term is not None)
            n_nodes = 1 + self.count(doc)
            for _ in range(3):
                x = rng.random()
                if x < 0.65:
                    first = {"o": "clone", "root": rng.randrange(n_nodes), "children": rng.random() < 0.75,
                             "keep": rng.random() < 0.4, "style": rng.choice(["kw", "kw", "pos"]),
                             "x": g.sel(rng.choice(["merged", "merged", "doc", "any", "sec"]))}
                else:
                    first = {"o": "export", "root": rng.randrange(n_nodes),
                             "x": g.sel(rng.choice(["merged", "merged", "secprop"]))}
                if ci % 5 == 4 and term is None:
                    # the document cached by a TemplateHandler is the original (the links of the file
                    # are resolved when it is loaded), the Section clone_section hands out the copy
                    first = {"o": "template", "root": rng.randrange(100), "children": rng.random() < 0.8,
                             "keep": rng.random() < 0.5, "style": rng.choice(["kw", "pos"]),
                             "x": g.sel(rng.choice(["merged", "merged", "sec"]))}
                case = {"stream": "free", "cf": True, "doc": doc, "side": "mixed", "first": first,
                        "ops": g.cf_ops()}
                if rng.random() < 0.3:
                    case["pre"] = [op for op in g.cf_ops()[:3]]
                if term is not None:
                    case["term"] = term
                if rng.random() < 0.2 and first["o"] != "template":
                    # merged only after the copy was made (see late_merge); the copy is the Document's
                    case["first"] = {"o": "clone", "root": 0, "children": True, "keep": rng.random() < 0.4,
                                     "style": "kw", "x": g.sel("doc")}
                    case["ops"] = g.late_merge(case["ops"][:rng.randrange(0, 4)])
                    case["doc"] = g.unlinked(doc)
                    case.pop("term", None)
                cases.append(case)
        # the record of a merge, directed: link-free histories the model follows step by step (RECORD TIE)
        cases += g.rec_cases(1 if tier == "quick" else 6)
        return cases

    @staticmethod
    def count(doc):
        def cs(s):
            return 1 + len(s.get("props", [])) + sum(cs(x) for x in s.get("sections", []))
        return sum(cs(s) for s in doc["sections"])

    # -- implementation ------------------------------------------------------
    def impl(self, case):
        ex = Exec(case)
        obs = ex.run()
        if case.get("cf") and "steps" in obs:
            # the counterfactual runs: the same case with the operations of the other side left out
            cf = {}
            for side in ("orig", "copy"):
                ctl = Exec(dict(case, ops=[op for op in case["ops"] if op.get("sd") == side]))
                cobs = ctl.run()
                if "steps" not in cobs or ex.guarded or ctl.guarded:
                    continue
                cf[side] = {"full": cf_project(ex, side), "ctl": cf_project(ctl, side)}
            obs["cf"] = cf
        return obs

    # -- model ---------------------------------------------------------------
    @staticmethod
    def modelled(case, obs):
        # the counterfactual stream (link-rich documents, clean / unmerge / merge histories on both sides,
        # the directed histories of `Gen.rec_cases`) is followed by the model as far as it goes: up to
        # the first operation outside the model (see `rec_plan`); the other free streams are oracle only
        if case["stream"] == "free":
            return bool(case.get("cf"))
        return True

    def model_requests(self, case, obs):
        if "steps" not in obs or not self.modelled(case, obs):
            return []
        ids = {}
        init = []
        for ent in obs["init"]:
            e = dict(ent)
            e["id"] = ids.setdefault(ent["id"], len(ids))
            init.append(e)
        with_rec, ops, _at = rec_plan(obs)
        return [{"p": "C11", "rec": with_rec, "init": init, "ops": ops}]

    def compare(self, case, obs, answers):
        if not answers:
            return []
        out = []
        msteps = answers[0]["steps"]
        _with_rec, _ops, at = rec_plan(obs)
        if len(msteps) != at[-1] + 1:
            return ["the model answered %d steps, %d operations were sent" % (len(msteps), at[-1])]
        for i in range(len(at)):
            ist, mst = obs["steps"][i], msteps[at[i]]
            if i > 0:
                # (a step that amounts to several model operations is carried out iff all of them are)
                iok = "ok" in ist["out"]
                bad = [m["out"] for m in msteps[at[i - 1] + 1:at[i] + 1] if "ok" not in m["out"]]
                if iok != (not bad):
                    out.append("step %d %s: implementation %s, model %s"
                               % (i, ist["op"], ist["out"], bad[0] if bad else mst["out"]))
                    break
            a = rec_canon(canon_ids(ist["snap"]))
            b = rec_canon(canon_ids(mst["snap"]))
            if fw.canon(a) != fw.canon(b):
                out.append("step %d %s: snapshots differ: implementation %s model %s"
                           % (i, ist["op"], fw.canon(a)[:1500], fw.canon(b)[:1500]))
                break
        return out

    # -- oracle (property over the public API, independent of the model) ------
    def oracle(self, case, obs):
        if "steps" not in obs:
            return []
        out = []
        steps = obs["steps"]
        if any("ma" in ent for ent in obs["init"]):
            # the record fields are for the tie with the model only: the oracle speaks about what the
            # public API shows (and about the counterfactual runs)
            steps = [dict(st, snap=rec_strip(st["snap"])) for st in steps]
        side_of = {}            # table index -> side, rebuilt from the steps
        n0 = len(obs["init"])
        for i in range(n0):
            side_of[i] = "orig"
        edit_side = case.get("side", "copy")
        first_copy_done = False
        for i in range(1, len(steps)):
            prev, cur = steps[i - 1], steps[i]
            op = cur["op"]
            o = op["o"]
            ok = "ok" in cur["out"]
            psnap, csnap = prev["snap"], cur["snap"]
            tag = "step %d %s" % (i, {k: v for k, v in op.items() if k != "attrs"})
            # which side does this op belong to
            op_side = edit_side if first_copy_done or case["first"]["o"] in ("none",) else "copy"
            if not first_copy_done and case["first"]["o"] == "detached_export" and o == "new_obj":
                op_side = "orig"
            if op.get("side") in ("copy", "orig"):
                # the side the operation was applied to (histories before the copy, histories that
                # alternate between copy and original)
                op_side = op["side"]
            for key in csnap["roots"]:
                for n in walk_nodes(csnap["roots"][key]):
                    if n["h"] is not None and n["h"] >= 0:
                        side_of.setdefault(n["h"], op_side)
            # ---- laws of the copy-producing operations
            if o in ("clone", "export") and not op.get("free"):
                if ok:
                    out += self.copy_laws(tag, op, cur, psnap, csnap)
                elif not self.refusal_expected(op, psnap):
                    out.append("%s raised %s on a well-formed tree" % (tag, cur["out"]["raised"]))
                if o in ("clone", "export") and not first_copy_done:
                    first_copy_done = True
            if o == "clone_missing" and ok:
                # no Section of that name anywhere / no such file: there is no original the object
                # handed out could be a copy of. A name that exists further down (the library says
                # the Section has to be a root Section; the property does not - weaker reading):
                # whatever is handed out must at least be detached and consist of new objects only.
                got = csnap["roots"].get(str(cur.get("ret")))
                if op.get("what") in ("name", "url"):
                    out.append("%s: clone_section handed out an object for a Section / a file that does "
                               "not exist" % tag)
                elif got is None or any(n["h"] is None or n["h"] < cur["n_objs"] for n in walk_nodes(got)):
                    out.append("%s: clone_section handed out an object that is not a detached, new one" % tag)
            if o == "get_values" and ok:
                src = find_node(psnap, op["p"])
                got = csnap["lists"][cur["ret"]]
                if src is not None and got != src["v"]:
                    out.append("%s: values returned %s, the Property holds %s" % (tag, got, src["v"]))
            # ---- an object changes sides: exactly that happens, nothing is shared afterwards
            if op.get("cross"):
                out += self.move_law(tag, op, ok, psnap, csnap)
                if ok:
                    for h in op.get("moved", []):
                        side_of[h] = op["to"]
            # ---- independence
            for key, root in psnap["roots"].items():
                if op.get("cross"):
                    break                         # both sides are operands: move_law says what may change
                after = csnap["roots"].get(key)
                root_side = side_of.get(int(key), "orig")
                must_keep = (o in PRODUCERS or o in LIST_MUTATORS or root_side != op_side)
                if o in LIST_MUTATORS and after != root:
                    out.append("%s (edit of a list held by the caller) changed the tree of object %s: %s -> %s"
                               % (tag, key, fw.canon(root)[:600], fw.canon(after)[:600]))
                elif o in PRODUCERS and after != root:
                    out.append("%s changed the existing tree of object %s: %s -> %s"
                               % (tag, key, fw.canon(root)[:600], fw.canon(after)[:600]))
                elif must_keep and after != root:
                    out.append("%s on the %s changed the %s (tree of object %s): %s -> %s"
                               % (tag, op_side, root_side, key, fw.canon(root)[:600], fw.canon(after)[:600]))
            if o not in LIST_MUTATORS:
                for li, before in enumerate(psnap["lists"]):
                    if li < len(csnap["lists"]) and csnap["lists"][li] != before:
                        out.append("%s changed list %d held by the caller: %s -> %s"
                                   % (tag, li, before, csnap["lists"][li]))
            else:
                pass
            if len(out) > 6:
                break
        out += self.counterfactual(obs)
        return out

    @staticmethod
    def counterfactual(obs):
        """Independence over the rest of the history, hidden state included: what the original does
        under its own operations is the same whether or not the copy is edited in between (and what
        the copy does is the same whether or not the original is edited): the run with the operations
        of the other side left out must show the same outcomes, trees and lists on this side, step
        by step. Weaker reading where one side legitimately reads the other: a Section keeps a
        reference to the Section it is merged with, and the copy of a merged Section refers to the
        same one; from the first operation on at which such a Section of the other side (content or
        place) is not what it is in the run without the other side's edits, nothing more is
        demanded of this side."""
        out = []
        for side, runs in sorted((obs.get("cf") or {}).items()):
            full, ctl = runs["full"], runs["ctl"]
            other = "copy" if side == "orig" else "original"
            this = "original" if side == "orig" else "copy"
            k = 0
            for k, (a, b) in enumerate(zip(full, ctl)):
                if a["inputs"] != b["inputs"] or "unknown" in a["inputs"]:
                    k = None
                    break
                if a["o"] != b["o"]:
                    out.append("counterfactual: operation %d on the %s is %s, without the edits of the %s it is %s"
                               % (k, this, a["o"], other, b["o"]))
                    k = None
                    break
                if (a["ok"], a["trees"], a["lists"]) != (b["ok"], b["trees"], b["lists"]):
                    out.append("counterfactual: after operation %d (%s) on the %s its state depends on whether the "
                               "%s was edited in between: %s %s %s, without those edits: %s %s %s"
                               % (k, a["o"], this, other, a["ok"], fw.canon(a["trees"])[:700], a["lists"],
                                  b["ok"], fw.canon(b["trees"])[:700], b["lists"]))
                    k = None
                    break
            if k is not None and len(full) != len(ctl):
                out.append("counterfactual: the %s went through %d operations, without the edits of the %s "
                           "through %d" % (this, len(full), other, len(ctl)))
        return out

    @staticmethod
    def refusal_expected(op, psnap):
        return False

    @staticmethod
    def forest(snap):
        """handle -> (own fields, handles of the child Sections, of the Properties, handle of the
        parent), and how often each handle occurs in the snapshot."""
        info, count, deep = {}, {}, []

        def walk(n, parent):
            h = n["h"]
            if n.get("too_deep"):
                deep.append(h)
            count[h] = count.get(h, 0) + 1
            if h not in info:
                info[h] = ({"k": n["k"], "n": n["n"], "a": n["a"], "v": n["v"], "id": n["id"], "m": n["m"]},
                           [c["h"] for c in n["s"]], [c["h"] for c in n["p"]], parent)
            for c in n["s"] + n["p"]:
                walk(c, h)
        for key in sorted(snap["roots"], key=int):
            walk(snap["roots"][key], None)
        return info, count, deep

    def move_law(self, tag, op, ok, psnap, csnap):
        """container.append(obj) / insert / extend / obj.parent = container / child_list[i] = obj
        with an object of the other side. Copy and original are both operands, so both may change -
        but only by the object changing its place: afterwards every object is held by exactly one
        parent (an object left in the child list it came from would be shared by the original and
        the copy: every later edit of it through one side changes the other), no object has
        changed in itself, and every child list holds what it held, in the same order, apart from
        the objects moved. If the call is refused the weaker reading applies: the objects named in
        the call may be found at their old place, at the new one or without parent - never at two."""
        out = []
        pinfo, pcount, pdeep = self.forest(psnap)
        cinfo, ccount, cdeep = self.forest(csnap)
        if pdeep or cdeep:
            return out
        xs = [h for h in op.get("xs", []) if h is not None]
        gone = set(xs)
        if op.get("replaced") is not None:
            gone.add(op["replaced"])
        for h, n in ccount.items():
            if h is not None and h >= 0 and n > 1 and pcount.get(h, 0) <= 1:
                out.append("%s: object %s (%s %r) is now held by %d parents: it is shared between the "
                           "trees it was moved between" % (tag, h, cinfo[h][0]["k"], cinfo[h][0]["n"], n))
        for h, (fields, secs, props, _par) in pinfo.items():
            if h is None or h < 0:
                continue
            if h not in cinfo:
                out.append("%s: object %s (%s %r) is in no tree any more" % (tag, h, fields["k"], fields["n"]))
                continue
            cf, csecs, cprops, _cpar = cinfo[h]
            if cf != fields:
                out.append("%s: moving an object changed object %s itself: %s -> %s" % (tag, h, fields, cf))
            if [c for c in csecs if c not in gone] != [c for c in secs if c not in gone] or \
                    [c for c in cprops if c not in gone] != [c for c in props if c not in gone]:
                out.append("%s: the children of object %s (%s %r) changed beyond the objects moved: "
                           "%s %s -> %s %s" % (tag, h, fields["k"], fields["n"], secs, props, csecs, cprops))
        if ok:
            for x in xs:
                if x in cinfo and cinfo[x][3] != op["p"]:
                    out.append("%s: succeeded, but object %s is held by %s, not by the container %s"
                               % (tag, x, cinfo[x][3], op["p"]))
            r = op.get("replaced")
            if r is not None and r not in xs and r in cinfo and cinfo[r][3] is not None:
                out.append("%s: the replaced object %s is still held by %s" % (tag, r, cinfo[r][3]))
        return out[:4]

    def copy_laws(self, tag, op, cur, psnap, csnap):
        out = []
        ret = cur.get("ret")
        n_before = cur["n_objs"]
        copy = csnap["roots"].get(str(ret)) if ret is not None else None
        if copy is None:
            return ["%s: the returned object is not a detached, new object (table index %s)" % (tag, ret)]
        src = find_node(psnap, cur["src"])
        old_ids = set()
        for root in psnap["roots"].values():
            for n in walk_nodes(root):
                old_ids.add(n["id"])
        nodes = list(walk_nodes(copy))
        for n in nodes:
            if n["h"] is None or n["h"] < n_before:
                out.append("%s: the copy contains an object that existed before (%s %r)" % (tag, n["k"], n["n"]))
        if copy["k"] in ("doc", "sec") and len(copy["a"]) > 3 and "r" in copy:
            # detached: the copy has no surroundings to take a repository from - what it answers
            # (get_repository) is what it carries itself (and that is what the original carries
            # itself: the comparison of the attributes below)
            own = None if copy["a"][3] == "None" else copy["a"][3]
            if copy["r"] != own:
                out.append("%s: the copy answers get_repository() with %s but carries %s: it is not detached "
                           "from the surroundings of the original" % (tag, copy["r"], own))
        if op["o"] == "clone":
            if op["children"]:
                if strip(copy) != strip(src):
                    out.append("%s: the copy differs from the original: %s vs %s"
                               % (tag, fw.canon(strip(copy))[:700], fw.canon(strip(src))[:700]))
                if cur.get("eq") != [True, True, False]:
                    out.append("%s: copy == original gives %s" % (tag, cur.get("eq")))
            else:
                if copy["s"] or copy["p"]:
                    out.append("%s: children=False but the copy has children" % tag)
                a, b = shallow(copy), shallow(src)
                a.pop("id"), b.pop("id")
                if a != b:
                    out.append("%s: the copy differs from the original: %s vs %s" % (tag, a, b))
            if op["keep"]:
                src_nodes = list(walk_nodes(src)) if op["children"] else [src]
                if [n["id"] for n in nodes] != [n["id"] for n in src_nodes]:
                    out.append("%s: keep_id=True but the ids differ" % tag)
            else:
                for n in nodes:
                    if n["id"] in old_ids:
                        out.append("%s: keep_id=False but %s %r carries an id that was in use"
                                   % (tag, n["k"], n["n"]))
                if len(set(n["id"] for n in nodes)) != len(nodes):
                    out.append("%s: keep_id=False but two objects of the copy share an id" % tag)
        else:
            chain = [find_node(psnap, h) for h in cur["chain"]]
            node = copy
            for depth, orig in enumerate(chain):
                if node is None or orig is None:
                    out.append("%s: the export is shorter than the path to the root" % tag)
                    break
                a, b = shallow(node), shallow(orig)
                if a != b:
                    out.append("%s: level %d of the export is %s, the original is %s" % (tag, depth, a, b))
                if [strip(p, True) for p in node["p"]] != [strip(p, True) for p in orig["p"]]:
                    out.append("%s: level %d of the export has Properties %s, the original %s"
                               % (tag, depth, [p["n"] for p in node["p"]], [p["n"] for p in orig["p"]]))
                last = depth == len(chain) - 1
                if last:
                    if node["s"]:
                        out.append("%s: the exported object has sub-Sections %s" % (tag, [s["n"] for s in node["s"]]))
                else:
                    if len(node["s"]) != 1:
                        out.append("%s: level %d of the export has %d Sections, expected exactly the next "
                                   "element of the path" % (tag, depth, len(node["s"])))
                        break
                    node = node["s"][0]
            if not chain:
                # a Property without parent: the export is a copy of it with its id
                if strip(copy, True) != strip(src, True):
                    out.append("%s: the export of a detached Property differs from it" % tag)
        return out

    def tag(self, case, obs):
        if "steps" not in obs:
            return (case["stream"] + ":failed", False)
        done = sum(1 for s in obs["steps"][1:] if "ok" in s["out"])
        extra = "".join("+" + k for k in ("twins", "nest", "cf", "rec") if case.get(k))
        if self.modelled(case, obs):
            # "+mtie<n>": n merge / unmerge / clean steps of this case (n <= 3, "3" = three or more) are
            # followed by the model (RECORD TIE); the sum over the tags = cases that reach such a step
            n = rec_tied_steps(obs)
            if n:
                extra += "+mtie%d" % min(n, 3)
        return ("%s%s:%s:%s" % (case["stream"], extra, case["first"]["o"], case.get("side")), done >= 2)

    def finding_key(self, case, obs, failure):
        return None


# ============================================================================= RECORD TIE
# Added 2026-09-30 (proof extension: the record of a merge, `_merged_attrs`, in the model).
# WIRED IN (2026-09-30): World.tree / World.init_table carry "ma" / "mc", Exec.free_edit notes for every
# clean / unmerge / sec_merge the model operations it amounts to ("mops": rec_plan_clean / rec_plan_unmerge /
# rec_plan_merge, decided before the call), C11.model_requests / compare follow the modelled prefix of the
# counterfactual stream (rec_plan), Gen.rec_cases adds link-free histories the model follows to the end;
# the oracle does not look at the record fields (rec_strip).
#
# The model (Model/Clone.lean) has the dicts `_merged_attrs` as a fourth address space and the driver
# (Driver/C11.lean) speaks about them when the request carries "rec": true:
#   * every init entry of a Section may carry  "ma": rec_items(sec)   and  "mc": <class number>
#     (objects whose `_merged_attrs` IS the same dict get the same number: rec_classes);
#   * every Section node of every snapshot of the answer carries "ma" (items, sorted) and "mc" (address of
#     the dict; number by first occurrence with rec_canon before comparing);
#   * two more ops:  {"o": "merge_attrs", "x": i, "s": j, "record": b}   for `objs[i].merge(objs[j],
#     strict=False)` when rec_merge_modelled(x, s) - `s` has no children - with b = rec_record_flag(x)
#     taken BEFORE the call;  {"o": "unmerge_attrs", "x": i}  for `objs[i].unmerge(t)` when
#     rec_unmerge_modelled(x, t) - `t` has no children, `x._link` is None, `x != t`.
# To tie the merge / unmerge / clean steps of the free+cf stream: World.tree would add rec_node_fields(obj)
# to Section nodes, World.init_table would add "ma"/"mc", model_requests would send "rec": True and
# translate the free ops `merge` / `unmerge` / `clean` (of a Section whose `_merged` is childless) into the
# two ops when the predicates hold (and stop the modelled prefix otherwise, as it does at a free op now),
# compare would apply rec_canon to both snapshots. record_tie_selftest() does all that on a fixed history.
REC_POS = {"definition": 1, "reference": 2}          # SEC_KEYS positions


def rec_items(sec):
    """`_merged_attrs` in the vocabulary of the model: [[attribute position, repr(value)] ...], sorted."""
    d = getattr(sec, "_merged_attrs", None) or {}
    return sorted([REC_POS[k], repr(v)] for k, v in d.items() if k in REC_POS)


def rec_classes(objs):
    """table index -> class number; two Sections are in one class iff they hold the SAME dict."""
    seen, out = {}, {}
    for i, o in enumerate(objs):
        if kind_of(o) == "sec":
            out[i] = seen.setdefault(id(getattr(o, "_merged_attrs", None)), len(seen))
    return out


def rec_node_fields(sec):
    return {"ma": rec_items(sec), "mc": id(getattr(sec, "_merged_attrs", None))}


def rec_canon(snap):
    """Numbers "mc" by first occurrence (roots in table order, node, sections, properties)."""
    seen = {}

    def walk(node):
        out = dict(node)
        if "mc" in out:
            out["mc"] = seen.setdefault(node["mc"], len(seen))
        out["s"] = [walk(x) for x in node["s"]]
        out["p"] = [walk(x) for x in node["p"]]
        return out
    return {"roots": {k: walk(snap["roots"][k]) for k in sorted(snap["roots"], key=int)},
            "lists": snap["lists"]}


def rec_record_flag(sec):
    """What the public `merge` passes on as `record` (to be taken before the call)."""
    return not (sec._merged is not None and sec.can_be_merged)


def rec_merge_modelled(x, s):
    return (kind_of(x) == "sec" and kind_of(s) == "sec" and len(s.sections) == 0
            and len(s.properties) == 0)


def rec_unmerge_modelled(x, t):
    if not (kind_of(x) == "sec" and kind_of(t) == "sec"):
        return False
    return (len(t.sections) == 0 and len(t.properties) == 0 and x._link is None and not (x == t))


def rec_strict_cannot_refuse(x, s):
    """`merge_check` with strict=True compares definition / reference only where both Sections have one
    (identical texts agree under every normalisation; what else it accepts or refuses is not modelled)."""
    return all(getattr(x, k) is None or getattr(s, k) is None or getattr(x, k) == getattr(s, k)
               for k in ("definition", "reference"))


def rec_plan_merge(w, x, s, strict):
    """`objs[x].merge(objs[s], strict)` as model operations, or None (not modelled)."""
    try:
        xo, so = w.objs[x], w.objs[s]
        if not (hasattr(xo, "_merged_attrs") and rec_merge_modelled(xo, so)):
            return None
        if strict and not rec_strict_cannot_refuse(xo, so):
            return None
        return [{"o": "merge_attrs", "x": x, "s": s, "record": bool(rec_record_flag(xo))}]
    except Exception:
        return None


def rec_plan_unmerge(w, x):
    """`objs[x].unmerge(<the Section it is merged with>)` as model operations, or None."""
    try:
        xo = w.objs[x]
        t = xo.get_merged_equivalent()
        if t is None or not hasattr(xo, "_merged_attrs") or not rec_unmerge_modelled(xo, t):
            return None
        return [{"o": "unmerge_attrs", "x": x}]
    except Exception:
        return None


def rec_plan_clean(w, p):
    """`objs[p].clean()`: every merged Section at and below the object is unmerged from the Section it is
    merged with, top down (Section.clean, Sectionable.clean). A list of model operations - empty when
    nothing is merged there: clean changes nothing - or None as soon as one of them is not modelled (an
    unmerge from a Section without children removes no child: the walk sees the tree clean will see)."""
    ops = []

    def walk(obj, depth):
        kind = kind_of(obj)
        if depth > 40:
            raise ValueError("too deep")
        if kind == "sec":
            t = obj.get_merged_equivalent()
            if t is not None:
                i = w.idx(obj)
                if i is None or not hasattr(obj, "_merged_attrs") or not rec_unmerge_modelled(obj, t):
                    raise ValueError("not modelled")
                ops.append({"o": "unmerge_attrs", "x": i})
        if kind in ("doc", "sec"):
            for sub in obj.sections:
                walk(sub, depth + 1)
    try:
        walk(w.objs[p], 0)
    except Exception:
        return None
    return ops


def rec_note(rop, mops):
    if mops is not None:
        rop["mops"] = mops


def rec_plan(obs):
    """The modelled prefix of a run: (model operations, `at`), `at[i]` = number of model operations carried
    out when step i of the implementation is over (at[0] = 0; a step may amount to none or to several).
    The prefix ends at the first operation outside the model."""
    with_rec = any("ma" in ent for ent in obs["init"])
    ops, at = [], [0]
    for st in obs["steps"][1:]:
        rop = st["op"]
        if rop.get("free"):
            if not with_rec or not isinstance(rop.get("mops"), list):
                break
            ops.extend(dict(m) for m in rop["mops"])
        else:
            ops.append(dict((k, v) for k, v in rop.items() if k != "mops"))
        at.append(len(ops))
    return with_rec, ops, at


def rec_tied_steps(obs):
    """How many merge / unmerge / clean steps of the run the model follows (clean of something merged)."""
    _w, _ops, at = rec_plan(obs)
    return sum(1 for i in range(1, len(at)) if obs["steps"][i]["op"].get("mops"))


def rec_strip(snap):
    """The snapshot without the record fields (what the oracle looks at)."""
    def walk(node):
        out = dict((k, v) for k, v in node.items() if k not in ("ma", "mc"))
        out["s"] = [walk(x) for x in node["s"]]
        out["p"] = [walk(x) for x in node["p"]]
        return out
    return {"roots": dict((k, walk(v)) for k, v in snap["roots"].items()), "lists": snap["lists"]}


def record_tie_selftest(verbose=False):
    """A fixed history on the real library and on the model, compared step by step, records included.
    Returns the list of differences (empty = agreement).  `python harness/c11.py`-independent:
        /venv/bin/python -c "import sys; sys.path.insert(0,'harness'); import c11; print(c11.record_tie_selftest())"
    """
    import io
    import json
    import subprocess
    import contextlib
    import odml
    drv = os.path.join(os.path.dirname(os.path.abspath(__file__)), "..", "lean", ".lake", "build", "bin", "drv_c11")
    w = World()

    class RecWorld(World):
        def tree(self, obj, depth=0):
            node = World.tree(self, obj, depth)
            if node["k"] == "sec":
                node.update(rec_node_fields(obj))
            return node
    w = RecWorld()
    sink = io.StringIO()
    with contextlib.redirect_stdout(sink), contextlib.redirect_stderr(sink):
        doc = odml.Document(author="me")
        s = odml.Section(name="s", type="t", parent=doc)
        tgt = odml.Section(name="tgt", type="t", parent=doc, definition="D", reference="R")
        own = odml.Section(name="own", type="t", parent=doc, definition="X")
        odml.Property(name="p", values=[1, 2], parent=s)
        w.register_tree(doc, "orig")
        init = w.init_table()
        cls = rec_classes(w.objs)
        for i, ent in enumerate(init):
            if ent["kind"] == "sec":
                ent["ma"] = rec_items(w.objs[i])
                ent["mc"] = cls[i]
        ids = {}
        for ent in init:
            ent["id"] = ids.setdefault(ent["id"], len(ids))
        snaps = [w.snap()]
        ops = []

        def do(op, fn):
            ops.append(op)
            ret = fn()
            if op["o"] in ("clone", "export"):
                w.register_tree(ret, "copy")
            snaps.append(w.snap())
            return ret
        ix = w.idx
        do({"o": "merge_attrs", "x": ix(s), "s": ix(tgt), "record": rec_record_flag(s)},
           lambda: s.merge(tgt, strict=False))
        c = do({"o": "clone", "x": ix(s), "children": True, "keep": False}, lambda: s.clone())
        assert rec_unmerge_modelled(c, tgt)
        do({"o": "unmerge_attrs", "x": ix(c)}, lambda: c.unmerge(tgt))
        do({"o": "set_attr", "x": ix(c), "i": 1, "v": repr("Z")}, lambda: setattr(c, "definition", "Z"))
        do({"o": "merge_attrs", "x": ix(c), "s": ix(tgt), "record": rec_record_flag(c)},
           lambda: c.merge(tgt, strict=False))
        c2 = do({"o": "clone", "x": ix(c), "children": True, "keep": True}, lambda: c.clone(keep_id=True))
        do({"o": "unmerge_attrs", "x": ix(s)}, lambda: s.unmerge(tgt))
        do({"o": "merge_attrs", "x": ix(own), "s": ix(tgt), "record": rec_record_flag(own)},
           lambda: own.merge(tgt, strict=False))
        c3 = do({"o": "clone", "x": ix(doc), "children": True, "keep": False}, lambda: doc.clone())
        own3 = [x for x in c3.sections if x.name == "own"][0]
        do({"o": "unmerge_attrs", "x": ix(own3)}, lambda: own3.unmerge(tgt))
        do({"o": "unmerge_attrs", "x": ix(c2)}, lambda: c2.unmerge(tgt))
        do({"o": "unmerge_attrs", "x": ix(own)}, lambda: own.unmerge(tgt))
        # the record written AFTER the copy was made; a copy handed out by export_leaf
        c4 = do({"o": "clone", "x": ix(s), "children": False, "keep": True}, lambda: s.clone(children=False, keep_id=True))
        do({"o": "merge_attrs", "x": ix(c4), "s": ix(tgt), "record": rec_record_flag(c4)},
           lambda: c4.merge(tgt, strict=False))
        do({"o": "merge_attrs", "x": ix(s), "s": ix(tgt), "record": rec_record_flag(s)},
           lambda: s.merge(tgt, strict=False))
        e = do({"o": "export", "x": ix(s)}, lambda: s.export_leaf())
        es = e.sections[0]
        do({"o": "unmerge_attrs", "x": ix(es)}, lambda: es.unmerge(tgt))
        do({"o": "unmerge_attrs", "x": ix(s)}, lambda: s.unmerge(tgt))
        do({"o": "unmerge_attrs", "x": ix(c4)}, lambda: c4.unmerge(tgt))
    req = {"p": "C11", "rec": True, "init": init, "ops": ops}
    proc = subprocess.run([drv], input=json.dumps(req) + "\n", capture_output=True, text=True, timeout=60)
    ans = json.loads(proc.stdout.splitlines()[0])
    if "err" in ans:
        return ["driver: " + ans["err"]]
    out = []
    msteps = ans["r"]["steps"]
    if len(msteps) != len(snaps):
        return ["%d model steps, %d implementation steps" % (len(msteps), len(snaps))]
    for i, (isnap, mst) in enumerate(zip(snaps, msteps)):
        a = fw.canon(rec_canon(canon_ids(isnap)))
        b = fw.canon(rec_canon(canon_ids(mst["snap"])))
        if verbose:
            print(i, ops[i - 1] if i else None, "\n  ", a, "\n  ", b)
        if a != b:
            out.append("step %d %s: implementation %s model %s" % (i, ops[i - 1] if i else None, a, b))
            break
    return out
# ============================================================================= end of RECORD TIE


if __name__ == "__main__":
    sys.exit(fw.main(C11(), sys.argv[1:]))
