# -*- coding: utf-8 -*-
"""
C11 - Copies handed out are equal to, and independent of, the original.

Tie between lean/OdmlModel/Model/Clone.lean and /repo: generated documents x every node as
clone / export_leaf root x flags x edit sequences applied to the copy or to the original
(value edits incl. in-place edits of lists returned by `values`, of their inner tuple lists and
of lists passed in as `values`, renames, attribute and cardinality changes, dtype changes,
structural edits). After every operation both worlds are snapshotted completely (every
parentless object as a tree with object identities, every list the caller holds) and compared
with the compiled model; the oracle (independent of the model) checks the laws of the property
on the implementation's snapshots alone.
"""
import os
import shutil
import sys
import tempfile

import framework as fw

SEC_KEYS = ["type", "definition", "reference", "repository", "link", "include",
            "sec_cardinality", "prop_cardinality"]
PROP_KEYS = ["dtype", "unit", "uncertainty", "reference", "definition", "dependency",
             "dependency_value", "value_origin", "val_cardinality"]
DOC_KEYS = ["author", "version", "date", "repository"]
NAMES = ["a", "b", "c", "ab", "k"]
TOKENS = ["a", "b", "c", "x1", "Y", "zz"]
FAMILY_DTYPE = {"str": "string", "int": "int", "tup": "2-tuple"}

PRODUCERS = ("clone", "export", "get_values", "new_list", "new_obj")
LIST_MUTATORS = ("list_append", "list_set", "list_del", "list_inner_set")
FREE_OPS = ("insert", "reorder", "set_card", "prop_extend", "prop_remove", "prop_insert", "clean",
            "create_section", "create_property", "set_parent", "extend", "values_retype", "sec_merge")


def enc_atom(v):
    return "%s:%r" % (type(v).__name__, v)


def enc_values(vals):
    return [[str(x) for x in v] if isinstance(v, (list, tuple)) else enc_atom(v) for v in vals]


def family_of(dtype):
    if dtype is None:
        return None
    if dtype.endswith("-tuple"):
        return "tup" if dtype == "2-tuple" else None
    if dtype in ("string", "text"):
        return "str"
    if dtype == "int":
        return "int"
    return None


def kind_of(obj):
    from odml.doc import BaseDocument
    from odml.section import BaseSection
    from odml.property import BaseProperty
    if isinstance(obj, BaseDocument):
        return "doc"
    if isinstance(obj, BaseSection):
        return "sec"
    if isinstance(obj, BaseProperty):
        return "prop"
    return None


def attrs_of(obj, kind):
    keys = {"doc": DOC_KEYS, "sec": SEC_KEYS, "prop": PROP_KEYS}[kind]
    return [repr(getattr(obj, k, "<missing>")) for k in keys]


# ----------------------------------------------------------------------------- literals
def py_and_lit(family, r, allow_list_form=True):
    """A value of the family: (python input for the API, stored python form, model literal)."""
    if family == "int":
        v = r.randrange(0, 10)
        return v, v, {"a": enc_atom(v)}
    if family == "tup":
        a, b = r.choice(TOKENS), r.choice(TOKENS)
        if allow_list_form and r.random() < 0.5:
            return [a, b], [a, b], {"t": [a, b]}
        return "(%s;%s)" % (a, b), [a, b], {"t": [a, b]}
    v = r.choice(TOKENS)
    return v, v, {"a": enc_atom(v)}


# ----------------------------------------------------------------------------- the world
class World(object):
    """Objects and caller-held lists of one case, addressed by table index (the Lean driver keeps
    the same two tables)."""

    def __init__(self):
        self.objs = []
        self.lists = []
        self.side_obj = {}       # table index -> "orig" / "copy"
        self.side_list = {}
        self.list_family = {}

    def idx(self, obj):
        for i, o in enumerate(self.objs):
            if o is obj:
                return i
        return None

    def register_tree(self, obj, side):
        """node, sections (recursively), properties - the order of the driver's `register`."""
        self.side_obj.setdefault(len(self.objs), side)
        self.objs.append(obj)
        kind = kind_of(obj)
        if kind in ("doc", "sec"):
            for s in list(obj.sections):
                self.register_tree(s, side)
        if kind == "sec":
            for p in list(obj.properties):
                self.side_obj.setdefault(len(self.objs), side)
                self.objs.append(p)

    def register_list(self, lst, side, family):
        self.side_list[len(self.lists)] = side
        self.list_family[len(self.lists)] = family
        self.lists.append(lst)
        return len(self.lists) - 1

    def tree(self, obj, depth=0):
        kind = kind_of(obj)
        if depth > 40:
            return {"too_deep": True}
        node = {"h": self.idx(obj), "k": kind, "n": "" if kind == "doc" else obj.name, "id": obj.id,
                "a": attrs_of(obj, kind), "v": None, "m": None, "s": [], "p": []}
        if kind == "prop":
            node["v"] = enc_values(obj.values)
        if kind == "sec":
            m = obj.get_merged_equivalent()
            node["m"] = self.idx(m) if m is not None else None
            if m is not None and node["m"] is None:
                node["m"] = -1
        if kind in ("doc", "sec"):
            node["s"] = [self.tree(s, depth + 1) for s in obj.sections]
        if kind == "sec":
            node["p"] = [self.tree(p, depth + 1) for p in obj.properties]
        return node

    def snap(self):
        roots = {}
        for i, o in enumerate(self.objs):
            if self.idx(o) != i:
                continue                          # registered twice: shared with an older object
            if o.parent is None:
                roots[str(i)] = self.tree(o)
        return {"roots": roots, "lists": [enc_values(l) for l in self.lists]}

    def init_table(self):
        out = []
        for i, o in enumerate(self.objs):
            kind = kind_of(o)
            par = o.parent if kind != "doc" else None
            ent = {"kind": kind, "name": "" if kind == "doc" else o.name, "id": o.id,
                   "attrs": attrs_of(o, kind), "parent": self.idx(par) if par is not None else None,
                   "vals": None, "merged": None}
            if kind == "prop":
                ent["vals"] = [{"t": [str(x) for x in v]} if isinstance(v, list) else {"a": enc_atom(v)}
                               for v in o.values]
            if kind == "sec":
                m = o.get_merged_equivalent()
                ent["merged"] = self.idx(m) if m is not None else None
            out.append(ent)
        return out


def build_doc(spec):
    import odml
    doc = odml.Document(author=spec.get("author"), version=spec.get("version"))

    def add_sec(parent, s):
        sec = odml.Section(name=s["name"], type=s.get("type", "t"), parent=parent,
                           definition=s.get("definition"), oid=s.get("oid"))
        if s.get("sec_card") is not None:
            sec.sec_cardinality = tuple(s["sec_card"])
        for p in s.get("props", []):
            prop = odml.Property(name=p["name"], values=p.get("values"), dtype=p.get("dtype"),
                                 unit=p.get("unit"), definition=p.get("definition"), parent=sec,
                                 oid=p.get("oid"))
            if p.get("val_card") is not None:
                prop.val_cardinality = tuple(p["val_card"])
        for sub in s.get("sections", []):
            add_sec(sec, sub)
        if s.get("link"):
            links.append((sec, s["link"]))
        return sec

    links = []
    for s in spec.get("sections", []):
        add_sec(doc, s)
    if spec.get("finalize"):
        for sec, path in links:
            try:
                sec.link = path                # public setter: resolves the link (merge) at once
            except Exception:
                pass
    return doc


# ----------------------------------------------------------------------------- generation
class Gen(object):
    def __init__(self, rng):
        self.r = rng
        self.idn = 0

    def oid(self):
        import uuid
        self.idn += 1
        return str(uuid.UUID(int=(self.idn * 2654435761 + self.r.randrange(1 << 60)) % (1 << 128)))

    def prop(self, name):
        r = self.r
        fam = r.choice(["str", "str", "int", "tup", "tup"])
        n = r.choice([0, 1, 1, 2, 3])
        vals = []
        for _ in range(n):
            py, _st, _lit = py_and_lit(fam, r)
            vals.append(py)
        p = {"name": name, "dtype": FAMILY_DTYPE[fam], "values": vals}
        if fam == "str" and r.random() < 0.3:
            p["dtype"] = "text"
        if r.random() < 0.3:
            p["unit"] = r.choice(["mV", "s"])
        if r.random() < 0.2:
            p["definition"] = r.choice(TOKENS)
        if r.random() < 0.2:
            p["val_card"] = r.choice([[None, 5], [1, None], [0, 4]])
        if r.random() < 0.85:
            p["oid"] = self.oid()
        if r.random() < 0.1:
            p["name"] = None              # unnamed: the library names it by its id
        return p

    def sec(self, name, depth, budget):
        r = self.r
        s = {"name": name, "type": r.choice(["t", "u", "t/v"]), "props": [], "sections": []}
        if r.random() < 0.3:
            s["definition"] = r.choice(TOKENS)
        if r.random() < 0.15:
            s["sec_card"] = r.choice([[None, 4], [1, None]])
        if r.random() < 0.85:
            s["oid"] = self.oid()
        for nm in r.sample(NAMES, r.choice([0, 1, 1, 2, 3])):
            if budget[0] <= 0:
                break
            budget[0] -= 1
            s["props"].append(self.prop(nm))
        if depth > 1 and r.random() < 0.1:
            s["name"] = None              # unnamed Section below the top level (named by its id)
        if depth < 3:
            for nm in r.sample(NAMES, r.choice([0, 0, 1, 1, 2])):
                if budget[0] <= 0:
                    break
                budget[0] -= 1
                s["sections"].append(self.sec(nm, depth + 1, budget))
        return s

    def doc(self, linked=False):
        r = self.r
        budget = [r.choice([3, 6, 10, 14])]
        d = {"author": r.choice([None, "me"]), "version": r.choice([None, "1"]), "sections": []}
        for nm in r.sample(NAMES, r.choice([1, 2, 2, 3])):
            budget[0] -= 1
            d["sections"].append(self.sec(nm, 1, budget))
        if linked and len(d["sections"]) >= 2:
            src = d["sections"][0]
            tgt = d["sections"][1]
            src["link"] = "/" + tgt["name"]
            d["finalize"] = True
        return d

    def sel(self, what):
        return {"sel": what, "n": self.r.randrange(0, 1000)}

    def edit(self, free):
        r = self.r
        x = r.random()
        seed = r.randrange(1 << 30)
        if free and x < 0.35:
            o = r.choice(FREE_OPS)
            return {"o": o, "p": self.sel("cont"), "x": self.sel("child"), "q": self.sel("prop"),
                    "pos": r.randrange(-3, 4), "seed": seed, "name": r.choice(NAMES)}
        table = [
            (0.10, {"o": "get_values", "p": self.sel("prop")}),
            (0.07, {"o": "set_values_from", "p": self.sel("prop"), "l": r.randrange(1000)}),
            (0.08, {"o": "set_values", "p": self.sel("prop"), "seed": seed, "n": r.choice([0, 1, 2, 3])}),
            (0.07, {"o": "append_value", "p": self.sel("prop"), "seed": seed}),
            (0.06, {"o": "set_value_at", "p": self.sel("prop"), "i": r.randrange(0, 4), "seed": seed}),
            (0.05, {"o": "set_dtype", "p": self.sel("prop")}),
            (0.04, {"o": "new_list", "family": r.choice(["str", "int", "tup"]), "seed": seed,
                    "n": r.choice([0, 1, 2, 3])}),
            (0.07, {"o": "list_append", "l": r.randrange(1000), "seed": seed}),
            (0.06, {"o": "list_set", "l": r.randrange(1000), "i": r.randrange(0, 4), "seed": seed}),
            (0.05, {"o": "list_del", "l": r.randrange(1000), "i": r.randrange(0, 4)}),
            (0.09, {"o": "list_inner_set", "l": r.randrange(1000), "i": r.randrange(0, 3),
                    "j": r.randrange(0, 3), "s": r.choice(TOKENS)}),
            (0.05, {"o": "new_obj", "kind": r.choice(["sec", "prop"]), "name": r.choice(NAMES),
                    "family": r.choice(["str", "int", "tup"]), "seed": seed, "n": r.choice([0, 1, 2])}),
            (0.06, {"o": "append", "p": self.sel("cont"), "x": self.sel("secprop")}),
            (0.05, {"o": "remove", "p": self.sel("cont"), "x": self.sel("child"), "k": r.randrange(1000)}),
            (0.06, {"o": "rename", "x": self.sel("secprop"), "new": r.choice(NAMES)}),
            (0.07, {"o": "set_attr", "x": self.sel("any"), "which": r.randrange(0, 6),
                    "val": r.choice(TOKENS + ["card1", "card2", "none"])}),
            (0.02, {"o": "new_id", "x": self.sel("any")}),
            (0.03, {"o": "clone", "x": self.sel("any"), "children": r.random() < 0.7,
                    "keep": r.random() < 0.4}),
            (0.02, {"o": "export", "x": self.sel("secprop")}),
        ]
        tot = sum(w for w, _ in table)
        y = r.random() * tot
        for w, op in table:
            y -= w
            if y <= 0:
                return op
        return table[0][1]

    def ops(self, n, free):
        return [self.edit(free) for _ in range(n)]


# ----------------------------------------------------------------------------- execution
class Exec(object):
    def __init__(self, case):
        import random
        self.case = case
        self.w = World()
        self.side = case.get("side", "copy")
        self.steps = []
        self.laws = []
        self.rng_cls = random.Random

    def pick(self, sel, side):
        w = self.w
        what = sel["sel"]
        kinds = {"sec": ("sec",), "prop": ("prop",), "cont": ("doc", "sec", "sec"), "any": ("doc", "sec", "prop"),
                 "secprop": ("sec", "prop"), "child": ("sec", "prop")}[what]
        cands = [i for i, o in enumerate(w.objs) if w.side_obj.get(i) == side and w.idx(o) == i
                 and kind_of(o) in kinds]
        if not cands:
            return None
        return cands[sel["n"] % len(cands)]

    def pick_list(self, n, side):
        cands = [i for i in range(len(self.w.lists)) if self.w.side_list.get(i) == side]
        if not cands:
            return None
        return cands[n % len(cands)]

    def record(self, rop, out, extra=None):
        st = {"op": rop, "out": out, "snap": self.w.snap()}
        if extra:
            st.update(extra)
        self.steps.append(st)

    def do(self, rop, fn, reg=None):
        """Runs one resolved op on the implementation, registers what it returns."""
        n_objs, n_lists = len(self.w.objs), len(self.w.lists)
        try:
            ret = fn()
            out = {"ok": None}
        except Exception as exc:
            ret = None
            out = {"raised": fw.exc_name(exc)}
        extra = {"n_objs": n_objs, "n_lists": n_lists}
        if "ok" in out and reg is not None:
            extra.update(reg(ret) or {})
        self.record(rop, out, extra)
        return ret

    # -- the copy-producing operations ---------------------------------------
    def op_clone(self, x, children, keep, side, via=None):
        w = self.w
        obj = w.objs[x]
        kind = kind_of(obj)
        rop = {"o": "clone", "x": x, "children": True if kind == "prop" else children, "keep": keep}

        def fn():
            if via is not None:
                return via()
            if kind == "prop":
                return obj.clone(keep_id=keep)
            return obj.clone(children=children, keep_id=keep)

        def reg(ret):
            w.register_tree(ret, side)
            eq = None
            try:
                eq = [bool(ret == obj), bool(obj == ret), bool(ret != obj)]
            except Exception as exc:
                eq = "raised " + fw.exc_name(exc)
            return {"ret": w.idx(ret), "src": x, "eq": eq}
        return self.do(rop, fn, reg)

    def op_export(self, x, side):
        w = self.w
        obj = w.objs[x]
        rop = {"o": "export", "x": x}
        chain = []
        cur = obj if kind_of(obj) != "prop" else obj.parent
        guard = 0
        while cur is not None and guard < 50:
            chain.insert(0, w.idx(cur))
            cur = cur.parent
            guard += 1

        def reg(ret):
            w.register_tree(ret, side)
            return {"ret": w.idx(ret), "src": x, "chain": chain}
        return self.do(rop, obj.export_leaf, reg)

    # -- edits -----------------------------------------------------------------
    def edit(self, op, side):
        import odml
        w = self.w
        o = op["o"]
        r = self.rng_cls(op.get("seed", 0))
        if o == "clone":
            x = self.pick(op["x"], side)
            if x is None:
                return
            return self.op_clone(x, op["children"], op["keep"], side)
        if o == "export":
            x = self.pick(op["x"], side)
            if x is None:
                return
            return self.op_export(x, side)
        if o in ("get_values", "set_values_from", "set_values", "append_value", "set_value_at", "set_dtype"):
            p = self.pick(op["p"], side)
            if p is None:
                return
            prop = w.objs[p]
            fam = family_of(prop.dtype)
            if fam is None:
                return
            if o == "get_values":
                return self.do({"o": o, "p": p}, lambda: prop.values,
                               lambda ret: {"ret": w.register_list(ret, side, fam)})
            if o == "set_values_from":
                l = self.pick_list(op["l"], side)
                if l is None or w.list_family[l] != fam:
                    return
                lst = w.lists[l]

                def fn():
                    prop.values = lst
                return self.do({"o": o, "p": p, "l": l}, fn)
            if o == "set_values":
                if r.random() < 0.5:
                    # a list the caller builds, passes in as `values` and keeps (edited later on)
                    trip = [py_and_lit(fam, r) for _ in range(op["n"])]
                    pys = [t[1] for t in trip]
                    self.do({"o": "new_list", "v": [t[2] for t in trip]}, lambda: pys,
                            lambda ret: {"ret": w.register_list(ret, side, fam)})
                    l = len(w.lists) - 1

                    def fn():
                        prop.values = pys
                    return self.do({"o": "set_values_from", "p": p, "l": l}, fn)
                trip = [py_and_lit(fam, r) for _ in range(op["n"])]
                pys = [t[0] for t in trip]

                def fn():
                    prop.values = pys
                return self.do({"o": o, "p": p, "v": [t[2] for t in trip]}, fn)
            if o == "append_value":
                py, _st, lit = py_and_lit(fam, r, allow_list_form=False)
                return self.do({"o": o, "p": p, "v": lit}, lambda: prop.append(py))
            if o == "set_value_at":
                py, _st, lit = py_and_lit(fam, r, allow_list_form=False)

                def fn():
                    prop[op["i"]] = py
                return self.do({"o": o, "p": p, "i": op["i"], "v": lit}, fn)
            if o == "set_dtype":
                new = {"string": "text", "text": "string"}.get(prop.dtype, prop.dtype)

                def fn():
                    prop.dtype = new
                return self.do({"o": o, "p": p, "v": repr(new)}, fn)
        if o == "new_list":
            fam = op["family"]
            trip = [py_and_lit(fam, r) for _ in range(op["n"])]
            pys = [t[1] for t in trip]
            return self.do({"o": o, "v": [t[2] for t in trip]}, lambda: pys,
                           lambda ret: {"ret": w.register_list(ret, side, fam)})
        if o in LIST_MUTATORS:
            l = self.pick_list(op["l"], side)
            if l is None:
                return
            lst = w.lists[l]
            fam = w.list_family[l]
            if o == "list_append":
                _py, st, lit = py_and_lit(fam, r)
                return self.do({"o": o, "l": l, "v": lit}, lambda: lst.append(st))
            if o == "list_set":
                _py, st, lit = py_and_lit(fam, r)

                def fn():
                    lst[op["i"]] = st
                return self.do({"o": o, "l": l, "i": op["i"], "v": lit}, fn)
            if o == "list_del":
                def fn():
                    del lst[op["i"]]
                return self.do({"o": o, "l": l, "i": op["i"]}, fn)
            if o == "list_inner_set":
                def fn():
                    item = lst[op["i"]]
                    if not isinstance(item, list):
                        raise TypeError("not a list item")
                    item[op["j"]] = op["s"]
                return self.do({"o": o, "l": l, "i": op["i"], "j": op["j"], "s": op["s"]}, fn)
        if o == "new_obj":
            if op["kind"] == "sec":
                def fn():
                    return odml.Section(name=op["name"], type="t")
                lits = []
            else:
                fam = op["family"]
                trip = [py_and_lit(fam, r) for _ in range(op["n"])]
                lits = [t[2] for t in trip]

                def fn():
                    return odml.Property(name=op["name"], values=[t[0] for t in trip], dtype=FAMILY_DTYPE[fam])
            rop = {"o": o, "kind": op["kind"], "name": op["name"], "attrs": None, "v": lits}

            def reg(ret):
                w.register_tree(ret, side)
                rop["attrs"] = attrs_of(ret, op["kind"])
                return {"ret": w.idx(ret)}
            ret = self.do(rop, fn, reg)
            if rop["attrs"] is None:
                rop["attrs"] = []
            return ret
        if o == "append":
            p, x = self.pick(op["p"], side), self.pick(op["x"], side)
            if p is None or x is None:
                return
            return self.do({"o": o, "p": p, "x": x}, lambda: w.objs[p].append(w.objs[x]))
        if o == "remove":
            p = self.pick(op["p"], side)
            if p is None:
                return
            cont = w.objs[p]
            kids = list(cont.sections) + (list(cont.properties) if kind_of(cont) == "sec" else [])
            if kids and op["k"] % 5 != 0:
                x = w.idx(kids[op["k"] % len(kids)])
            else:
                x = self.pick(op["x"], side)
            if x is None:
                return
            return self.do({"o": o, "p": p, "x": x}, lambda: cont.remove(w.objs[x]))
        if o == "rename":
            x = self.pick(op["x"], side)
            if x is None:
                return

            def fn():
                w.objs[x].name = op["new"]
            return self.do({"o": o, "x": x, "new": op["new"]}, fn)
        if o == "set_attr":
            x = self.pick(op["x"], side)
            if x is None:
                return
            obj = w.objs[x]
            kind = kind_of(obj)
            keys = {"doc": ["author", "version"],
                    "sec": ["type", "definition", "reference", "sec_cardinality", "prop_cardinality"],
                    "prop": ["unit", "definition", "reference", "dependency", "value_origin",
                             "val_cardinality"]}[kind]
            key = keys[op["which"] % len(keys)]
            val = op["val"]
            if key.endswith("cardinality"):
                val = {"card1": (1, 3), "card2": (None, 2)}.get(val, None)
            elif val in ("card1", "card2", "none"):
                val = "w"
            allk = {"doc": DOC_KEYS, "sec": SEC_KEYS, "prop": PROP_KEYS}[kind]
            rop = {"o": o, "x": x, "i": allk.index(key), "v": None, "key": key}

            def fn():
                setattr(obj, key, val)
                rop["v"] = repr(getattr(obj, key))
            ret = self.do(rop, fn)
            if rop["v"] is None:
                rop["v"] = repr(getattr(obj, key))
            return ret
        if o == "new_id":
            x = self.pick(op["x"], side)
            if x is None:
                return
            return self.do({"o": o, "x": x}, lambda: w.objs[x].new_id())
        if o in FREE_OPS:
            return self.free_edit(op, side, r)
        raise ValueError(o)

    def free_edit(self, op, side, r):
        """Operations outside the model (oracle only)."""
        import odml
        w = self.w
        o = op["o"]
        p = self.pick(op["p"], side)
        x = self.pick(op["x"], side)
        q = self.pick(op["q"], side)
        rop = {"o": o, "free": True}
        if o in ("insert", "extend", "create_section", "create_property", "clean", "sec_merge") and p is None:
            return
        if o == "insert" and x is not None:
            return self.do(rop, lambda: w.objs[p].insert(op["pos"], w.objs[x]))
        if o == "extend" and x is not None:
            return self.do(rop, lambda: w.objs[p].extend([w.objs[x]]))
        if o == "reorder" and x is not None:
            return self.do(rop, lambda: w.objs[x].reorder(op["pos"]))
        if o == "set_card" and x is not None:
            obj = w.objs[x]

            def fn():
                if kind_of(obj) == "prop":
                    obj.set_values_cardinality(1, 4)
                else:
                    obj.set_sections_cardinality(None, 3)
                    obj.set_properties_cardinality(1, None)
            return self.do(rop, fn)
        if o in ("prop_extend", "prop_remove", "prop_insert", "values_retype") and q is not None:
            prop = w.objs[q]
            fam = family_of(prop.dtype)
            if fam is None:
                return
            py, st, _lit = py_and_lit(fam, r, allow_list_form=False)
            if o == "prop_extend":
                return self.do(rop, lambda: prop.extend([py]))
            if o == "prop_insert":
                return self.do(rop, lambda: prop.insert(0, py))
            if o == "prop_remove":
                return self.do(rop, lambda: prop.remove(prop.values[0] if prop.values else st))

            def fn():
                if fam == "int":
                    prop.dtype = "float"
                elif fam == "str":
                    prop.dtype = "text"
            return self.do(rop, fn)
        if o == "clean":
            return self.do(rop, lambda: w.objs[p].clean())
        if o == "sec_merge":
            other = self.pick({"sel": "sec", "n": op["pos"] + 7}, side)
            if other is None or kind_of(w.objs[p]) != "sec" or other == p:
                return

            def fn():
                w.objs[p].merge(w.objs[other], strict=False)
            ret = self.do(rop, fn)
            self.reregister(side)
            return ret
        if o == "create_section":
            ret = self.do(rop, lambda: w.objs[p].create_section(op["name"], "t"))
            self.reregister(side)
            return ret
        if o == "create_property" and kind_of(w.objs[p]) == "sec":
            ret = self.do(rop, lambda: w.objs[p].create_property(op["name"], values=[1]))
            self.reregister(side)
            return ret
        if o == "set_parent" and x is not None:
            def fn():
                w.objs[x].parent = None if p is None or op["pos"] < -1 else w.objs[p]
            return self.do(rop, fn)
        return

    def reregister(self, side):
        """Objects created inside the library by a free op join the side of the op."""
        w = self.w
        for i in [i for i, s in list(w.side_obj.items()) if s == side]:
            obj = w.objs[i]
            kind = kind_of(obj)
            kids = []
            if kind in ("doc", "sec"):
                kids += list(obj.sections)
            if kind == "sec":
                kids += list(obj.properties)
            for k in kids:
                if w.idx(k) is None:
                    w.register_tree(k, side)
        if self.steps:
            self.steps[-1]["snap"] = w.snap()

    # -- a whole case ------------------------------------------------------------
    def run(self):
        case = self.case
        w = self.w
        tmp = None
        old_tmp = tempfile.tempdir
        try:
            doc = build_doc(case["doc"])
            first = case["first"]
            if first["o"] == "template":
                try:
                    from odml.tools.odmlparser import ODMLWriter
                    import odml.templates as templates
                    tmp = tempfile.mkdtemp(prefix="c11_")
                    tempfile.tempdir = tmp
                    path = os.path.join(tmp, "template.xml")
                    ODMLWriter("XML").write_file(doc, path)
                    url = "file://" + path
                    handler = templates.TemplateHandler()
                    loaded = handler.load(url)
                    if loaded is None or len(loaded.sections) == 0:
                        return {"skipped": "template could not be loaded"}
                except Exception as exc:
                    return {"skipped": "template preparation failed: %s" % fw.exc_name(exc)}
                w.register_tree(loaded, "orig")
                tops = [i for i, o in enumerate(w.objs) if kind_of(o) == "sec" and o.parent is loaded]
                x = tops[first["root"] % len(tops)]
                name = w.objs[x].name
                init = w.init_table()
                self.record(None, None)
                self.op_clone(x, first["children"], first["keep"], "copy",
                              via=lambda: handler.clone_section(url, name, children=first["children"],
                                                                keep_id=first["keep"]))
            else:
                w.register_tree(doc, "orig")
                init = w.init_table()
                self.record(None, None)
                if first["o"] == "clone":
                    x = first["root"] % len(w.objs)
                    self.op_clone(x, first["children"], first["keep"], "copy")
                elif first["o"] == "export":
                    cands = [i for i, o in enumerate(w.objs) if kind_of(o) != "doc"]
                    self.op_export(cands[first["root"] % len(cands)], "copy")
                elif first["o"] == "detached_export":
                    # a Property / Section outside any document
                    self.edit({"o": "new_obj", "kind": first["kind"], "name": "k", "family": "tup",
                               "seed": first["root"], "n": 2}, "orig")
                    self.op_export(len(w.objs) - 1, "copy")
            for op in case["ops"]:
                self.edit(op, self.side)
            return {"init": init, "steps": self.steps}
        finally:
            tempfile.tempdir = old_tmp
            if tmp is not None:
                shutil.rmtree(tmp, ignore_errors=True)


# ----------------------------------------------------------------------------- canonical forms
def canon_ids(snap):
    """Replaces ids by the index of their first occurrence (uuid4 values are never compared)."""
    seen = {}

    def walk(node):
        out = dict(node)
        out["id"] = seen.setdefault(node["id"], len(seen))
        out["s"] = [walk(s) for s in node["s"]]
        out["p"] = [walk(p) for p in node["p"]]
        return out
    roots = {}
    for key in sorted(snap["roots"], key=int):
        roots[key] = walk(snap["roots"][key])
    return {"roots": roots, "lists": snap["lists"]}


def strip(node, ids=False):
    """Content of a tree: no identities, ids only on request."""
    out = {"k": node["k"], "n": node["n"], "a": node["a"], "v": node["v"],
           "s": [strip(s, ids) for s in node["s"]], "p": [strip(p, ids) for p in node["p"]]}
    if ids:
        out["id"] = node["id"]
    return out


def shallow(node):
    return {"k": node["k"], "n": node["n"], "a": node["a"], "v": node["v"], "id": node["id"]}


def walk_nodes(node):
    yield node
    for s in node["s"]:
        for n in walk_nodes(s):
            yield n
    for p in node["p"]:
        yield p


def find_node(snap, h):
    for root in snap["roots"].values():
        for n in walk_nodes(root):
            if n["h"] == h:
                return n
    return None


# ----------------------------------------------------------------------------- the check
class C11(fw.Check):
    prop = "C11"
    lean_targets = ["OdmlModel.Props.C11"]
    obligations = ["C11." + t for t in [
        "clone_writes_only_new",
        "clone_detached_new",
        "clone_separate",
        "edit_copy_preserves_original",
        "edit_original_preserves_copy",
        "clone_no_children",
        "clone_root_equal",
        "clone_property_equal",
        "clone_ids_fresh",
        "clone_scoped",
        "export_writes_only_new",
        "export_separate",
        "edit_export_preserves_original",
        "edit_original_preserves_export",
        "values_get_new_equal",
        "values_get_edits_preserve_store",
        "store_edits_preserve_values_got",
        "values_get_shallow_counterexample",
        "values_set_copies",
        "edits_of_passed_list_preserve_property"]]
    case_timeout = 30
    trusted_base = [
        "Lean 4.33.0 kernel; axioms propext, Classical.choice, Quot.sound only (audited per theorem)",
        "hand-written model lean/OdmlModel/Model/Clone.lean, tied to /repo by this correspondence run",
        "Driver/C11.lean JSON glue (object / list tables, snapshots); harness/framework.py, harness/c11.py",
        "uuid.uuid4 returns an id that is not in use (modelled as a counter)",
    ]
    assumptions = [
        "values and attribute values are opaque to the model: the values handed to it are in the normal "
        "form of the dtype, on which the re-conversion done by the values setter is the identity (C05)",
        "Section.export_leaf compares `curr != self` deeply; the model uses object identity (an ancestor "
        "has more descendants than the object, so both agree on trees)",
        "the store is a forest when clone is called (C03); on a cyclic store the model reports that "
        "the recursion does not end",
    ]
    rule = ("random documents (<= 15 objects, depth <= 4, string / int / 2-tuple Properties, optional "
            "resolved link) x every object as clone root x children x keep_id, every Section / Property "
            "as export_leaf root, TemplateHandler.clone_section on a file: URL, detached objects; "
            "followed by random edit sequences on the copy or on the original; every parentless object "
            "and every caller-held list is snapshotted after every operation. Non-trivial = the case "
            "has at least one edit that was carried out; distinct = distinct canonical JSON of the case.")

    # -- generation ----------------------------------------------------------
    def generate(self, tier, rng):
        g = Gen(rng)
        cases = []
        n_docs = 130 if tier == "quick" else 900
        for di in range(n_docs):
            doc = g.doc(linked=(di % 5 == 4))
            n_nodes = 1 + self.count(doc)
            roots = list(range(n_nodes)) if tier == "thorough" or n_nodes <= 6 else \
                sorted(rng.sample(range(n_nodes), 6))
            for root in roots:
                for children in (True, False):
                    keep = rng.random() < 0.5
                    side = rng.choice(["copy", "copy", "orig"])
                    free = rng.random() < 0.25
                    cases.append({"stream": "free" if free else "clone", "doc": doc, "side": side,
                                  "first": {"o": "clone", "root": root, "children": children, "keep": keep},
                                  "ops": g.ops(rng.randrange(2, 14), free)})
                if rng.random() < 0.7:
                    side = rng.choice(["copy", "orig"])
                    free = rng.random() < 0.2
                    cases.append({"stream": "free" if free else "export", "doc": doc, "side": side,
                                  "first": {"o": "export", "root": root},
                                  "ops": g.ops(rng.randrange(2, 12), free)})
            cases.append({"stream": "values", "doc": doc, "side": "orig", "first": {"o": "none"},
                          "ops": g.ops(rng.randrange(4, 16), False)})
            if di % 4 == 0:
                cases.append({"stream": "template", "doc": doc, "side": rng.choice(["copy", "orig"]),
                              "first": {"o": "template", "root": rng.randrange(100),
                                        "children": rng.random() < 0.7, "keep": rng.random() < 0.5},
                              "ops": g.ops(rng.randrange(2, 10), False)})
            if di % 6 == 0:
                cases.append({"stream": "export", "doc": doc, "side": rng.choice(["copy", "orig"]),
                              "first": {"o": "detached_export", "kind": rng.choice(["prop", "sec"]),
                                        "root": rng.randrange(1000)},
                              "ops": g.ops(rng.randrange(2, 8), False)})
        return cases

    @staticmethod
    def count(doc):
        def cs(s):
            return 1 + len(s.get("props", [])) + sum(cs(x) for x in s.get("sections", []))
        return sum(cs(s) for s in doc["sections"])

    # -- implementation ------------------------------------------------------
    def impl(self, case):
        return Exec(case).run()

    # -- model ---------------------------------------------------------------
    @staticmethod
    def modelled(case, obs):
        if case["stream"] == "free":
            return False
        return True

    def model_requests(self, case, obs):
        if "steps" not in obs or not self.modelled(case, obs):
            return []
        ids = {}
        init = []
        for ent in obs["init"]:
            e = dict(ent)
            e["id"] = ids.setdefault(ent["id"], len(ids))
            init.append(e)
        ops = []
        for st in obs["steps"][1:]:
            rop = dict(st["op"])
            if rop.get("free"):
                break
            ops.append(rop)
        return [{"p": "C11", "init": init, "ops": ops}]

    def compare(self, case, obs, answers):
        if not answers:
            return []
        out = []
        msteps = answers[0]["steps"]
        for i, (ist, mst) in enumerate(zip(obs["steps"], msteps)):
            if i > 0:
                iok = "ok" in ist["out"]
                mok = "ok" in mst["out"]
                if iok != mok:
                    out.append("step %d %s: implementation %s, model %s"
                               % (i, ist["op"], ist["out"], mst["out"]))
                    break
            a = canon_ids(ist["snap"])
            b = canon_ids(mst["snap"])
            if fw.canon(a) != fw.canon(b):
                out.append("step %d %s: snapshots differ: implementation %s model %s"
                           % (i, ist["op"], fw.canon(a)[:1500], fw.canon(b)[:1500]))
                break
        return out

    # -- oracle (property over the public API, independent of the model) ------
    def oracle(self, case, obs):
        if "steps" not in obs:
            return []
        out = []
        steps = obs["steps"]
        side_of = {}            # table index -> side, rebuilt from the steps
        n0 = len(obs["init"])
        for i in range(n0):
            side_of[i] = "orig"
        edit_side = case.get("side", "copy")
        first_copy_done = False
        for i in range(1, len(steps)):
            prev, cur = steps[i - 1], steps[i]
            op = cur["op"]
            o = op["o"]
            ok = "ok" in cur["out"]
            psnap, csnap = prev["snap"], cur["snap"]
            tag = "step %d %s" % (i, {k: v for k, v in op.items() if k != "attrs"})
            # which side does this op belong to
            op_side = edit_side if first_copy_done or case["first"]["o"] in ("none",) else "copy"
            if not first_copy_done and case["first"]["o"] == "detached_export" and o == "new_obj":
                op_side = "orig"
            for key in csnap["roots"]:
                for n in walk_nodes(csnap["roots"][key]):
                    if n["h"] is not None and n["h"] >= 0:
                        side_of.setdefault(n["h"], op_side)
            # ---- laws of the copy-producing operations
            if o in ("clone", "export") and not op.get("free"):
                if ok:
                    out += self.copy_laws(tag, op, cur, psnap, csnap)
                elif not self.refusal_expected(op, psnap):
                    out.append("%s raised %s on a well-formed tree" % (tag, cur["out"]["raised"]))
                if o in ("clone", "export") and not first_copy_done:
                    first_copy_done = True
            if o == "get_values" and ok:
                src = find_node(psnap, op["p"])
                got = csnap["lists"][cur["ret"]]
                if src is not None and got != src["v"]:
                    out.append("%s: values returned %s, the Property holds %s" % (tag, got, src["v"]))
            # ---- independence
            for key, root in psnap["roots"].items():
                after = csnap["roots"].get(key)
                root_side = side_of.get(int(key), "orig")
                must_keep = (o in PRODUCERS or o in LIST_MUTATORS or root_side != op_side)
                if o in LIST_MUTATORS and after != root:
                    out.append("%s (edit of a list held by the caller) changed the tree of object %s: %s -> %s"
                               % (tag, key, fw.canon(root)[:600], fw.canon(after)[:600]))
                elif o in PRODUCERS and after != root:
                    out.append("%s changed the existing tree of object %s: %s -> %s"
                               % (tag, key, fw.canon(root)[:600], fw.canon(after)[:600]))
                elif must_keep and after != root:
                    out.append("%s on the %s changed the %s (tree of object %s): %s -> %s"
                               % (tag, op_side, root_side, key, fw.canon(root)[:600], fw.canon(after)[:600]))
            if o not in LIST_MUTATORS:
                for li, before in enumerate(psnap["lists"]):
                    if li < len(csnap["lists"]) and csnap["lists"][li] != before:
                        out.append("%s changed list %d held by the caller: %s -> %s"
                                   % (tag, li, before, csnap["lists"][li]))
            else:
                pass
            if len(out) > 6:
                break
        return out

    @staticmethod
    def refusal_expected(op, psnap):
        return False

    def copy_laws(self, tag, op, cur, psnap, csnap):
        out = []
        ret = cur.get("ret")
        n_before = cur["n_objs"]
        copy = csnap["roots"].get(str(ret)) if ret is not None else None
        if copy is None:
            return ["%s: the returned object is not a detached, new object (table index %s)" % (tag, ret)]
        src = find_node(psnap, cur["src"])
        old_ids = set()
        for root in psnap["roots"].values():
            for n in walk_nodes(root):
                old_ids.add(n["id"])
        nodes = list(walk_nodes(copy))
        for n in nodes:
            if n["h"] is None or n["h"] < n_before:
                out.append("%s: the copy contains an object that existed before (%s %r)" % (tag, n["k"], n["n"]))
        if op["o"] == "clone":
            if op["children"]:
                if strip(copy) != strip(src):
                    out.append("%s: the copy differs from the original: %s vs %s"
                               % (tag, fw.canon(strip(copy))[:700], fw.canon(strip(src))[:700]))
                if cur.get("eq") != [True, True, False]:
                    out.append("%s: copy == original gives %s" % (tag, cur.get("eq")))
            else:
                if copy["s"] or copy["p"]:
                    out.append("%s: children=False but the copy has children" % tag)
                a, b = shallow(copy), shallow(src)
                a.pop("id"), b.pop("id")
                if a != b:
                    out.append("%s: the copy differs from the original: %s vs %s" % (tag, a, b))
            if op["keep"]:
                src_nodes = list(walk_nodes(src)) if op["children"] else [src]
                if [n["id"] for n in nodes] != [n["id"] for n in src_nodes]:
                    out.append("%s: keep_id=True but the ids differ" % tag)
            else:
                for n in nodes:
                    if n["id"] in old_ids:
                        out.append("%s: keep_id=False but %s %r carries an id that was in use"
                                   % (tag, n["k"], n["n"]))
                if len(set(n["id"] for n in nodes)) != len(nodes):
                    out.append("%s: keep_id=False but two objects of the copy share an id" % tag)
        else:
            chain = [find_node(psnap, h) for h in cur["chain"]]
            node = copy
            for depth, orig in enumerate(chain):
                if node is None or orig is None:
                    out.append("%s: the export is shorter than the path to the root" % tag)
                    break
                a, b = shallow(node), shallow(orig)
                if a != b:
                    out.append("%s: level %d of the export is %s, the original is %s" % (tag, depth, a, b))
                if [strip(p, True) for p in node["p"]] != [strip(p, True) for p in orig["p"]]:
                    out.append("%s: level %d of the export has Properties %s, the original %s"
                               % (tag, depth, [p["n"] for p in node["p"]], [p["n"] for p in orig["p"]]))
                last = depth == len(chain) - 1
                if last:
                    if node["s"]:
                        out.append("%s: the exported object has sub-Sections %s" % (tag, [s["n"] for s in node["s"]]))
                else:
                    if len(node["s"]) != 1:
                        out.append("%s: level %d of the export has %d Sections, expected exactly the next "
                                   "element of the path" % (tag, depth, len(node["s"])))
                        break
                    node = node["s"][0]
            if not chain:
                # a Property without parent: the export is a copy of it with its id
                if strip(copy, True) != strip(src, True):
                    out.append("%s: the export of a detached Property differs from it" % tag)
        return out

    def tag(self, case, obs):
        if "steps" not in obs:
            return (case["stream"] + ":failed", False)
        done = sum(1 for s in obs["steps"][1:] if "ok" in s["out"])
        return ("%s:%s:%s" % (case["stream"], case["first"]["o"], case.get("side")), done >= 2)

    def finding_key(self, case, obs, failure):
        return None


if __name__ == "__main__":
    sys.exit(fw.main(C11(), sys.argv[1:]))
