# -*- coding: utf-8 -*-
"""
C09 - Cardinalities: normal form, exact violation reports, never enforced, persisted.

Tie between lean/OdmlModel/Model/Card.lean and /repo (public API only, plus the two
module-level parse_cardinality helpers when they exist).
"""
import itertools
import json
import os
import shutil
import sys
import tempfile

import framework as fw

KINDS = ["val", "sec", "prop"]
ATTR = {"val": "val_cardinality", "sec": "sec_cardinality", "prop": "prop_cardinality"}
RULE_ID = {"val": "property_values_cardinality", "sec": "section_sections_cardinality",
           "prop": "section_properties_cardinality"}


# ----------------------------------------------------------------------------- encodings
def to_py(enc):
    """JSON encoding of a setting (shared with the Lean driver) -> Python value."""
    if enc is None or isinstance(enc, (bool, int, str)):
        return enc
    if "f" in enc:
        return enc["fv"]
    if "o" in enc:
        return {"k": 1} if enc["o"] else {}
    if "t" in enc:
        return tuple(to_py(x) for x in enc["t"])
    if "l" in enc:
        return [to_py(x) for x in enc["l"]]
    raise ValueError(enc)


def to_model(enc):
    if isinstance(enc, dict) and "f" in enc:
        return {"f": enc["f"]}
    if isinstance(enc, dict) and "t" in enc:
        return {"t": [to_model(x) for x in enc["t"]]}
    if isinstance(enc, dict) and "l" in enc:
        return {"l": [to_model(x) for x in enc["l"]]}
    return enc


def bound_out(x):
    """One stored bound as the object it is: None, an int, {"bool": b} for a bool (never equal to an int,
    so a bound stored as bool is neither in normal form nor what the model stores), repr otherwise."""
    if x is None:
        return None
    if isinstance(x, bool):
        return {"bool": x}
    return int(x) if isinstance(x, int) else repr(x)


def card_out(c):
    """stored cardinality -> JSON ([min, max]; a bool bound stays visible as {"bool": b})."""
    if c is None:
        return None
    if isinstance(c, tuple) and len(c) == 2:
        return [bound_out(x) for x in c]
    return {"weird": repr(c)}


def card_value_out(c):
    """What the two parse_cardinality helpers return, by value (bools as the ints they equal): the
    result is not stored but handed to a constructor, whose format_cardinality decides what is stored."""
    if c is None:
        return None
    if isinstance(c, tuple) and len(c) == 2:
        return [None if x is None else (int(x) if isinstance(x, int) else repr(x)) for x in c]
    return {"weird": repr(c)}


def unbool(enc):
    """The same setting with every bool bound replaced by the int it equals."""
    if isinstance(enc, bool):
        return int(enc)
    if isinstance(enc, dict) and ("t" in enc or "l" in enc):
        key = "t" if "t" in enc else "l"
        return {key: [int(x) if isinstance(x, bool) else x for x in enc[key]]}
    return enc


def has_bool(enc):
    return json.dumps(unbool(enc)) != json.dumps(enc)      # (True == 1 in Python: compare the spelling)


def model_objects(ans):
    """The model's stored objects (answer field 'stored' / 'unbool') in the encoding of card_out."""
    if not isinstance(ans, dict) or "ok" not in ans:
        return "refused"
    c = ans["ok"]
    return None if c is None else [{"bool": x} if isinstance(x, bool) else x for x in c]


def make_obj(kind, n, dtype="int", dup=False):
    """A fresh object of the kind with n children of the counted sort (dup: every value twice)."""
    import odml
    if kind == "val":
        vals = [VALUE_POOL[dtype](i // 2 if dup else i) for i in range(n)]
        return odml.Property(name="p", values=vals or None, dtype=dtype)
    sec = odml.Section(name="s", type="t")
    for i in range(n):
        if kind == "sec":
            odml.Section(name="c%d" % i, type="t", parent=sec)
        else:
            odml.Property(name="c%d" % i, values=[1], parent=sec)
    return sec


def count_children(kind, obj):
    if kind == "val":
        return len(obj.values)
    return len(obj.sections) if kind == "sec" else len(obj.properties)


def add_child(kind, obj, i, how="add", dtype="int"):
    """One more child (two for 'extend2'), through the different public ways of adding."""
    import odml
    if kind == "val":
        new = [VALUE_POOL[dtype](1000 + 10 * i), VALUE_POOL[dtype](1001 + 10 * i)]
        if how == "insert":
            obj.insert(0, new[0])
        elif how == "extend2":
            obj.extend(new)
        elif how == "assign":
            obj.values = obj.values + new[:1]
        else:
            obj.append(new[0])
        return
    if kind == "sec":
        make = lambda name, **kw: odml.Section(name=name, type="t", **kw)
    else:
        make = lambda name, **kw: odml.Property(name=name, values=[1], **kw)
    if how == "insert":
        obj.insert(0, make("n%d" % i))
    elif how == "extend2":
        obj.extend([make("n%d" % i), make("m%d" % i)])
    elif how == "assign":
        make("n%d" % i, parent=obj)
    else:
        obj.append(make("n%d" % i))


def remove_child(kind, obj, how="remove"):
    if kind == "val":
        if how == "assign":
            obj.values = obj.values[:-1]
        else:
            obj.remove(obj.values[0] if how == "remove_first" else obj.values[-1])
        return
    lst = obj.sections if kind == "sec" else obj.properties
    obj.remove(lst[0] if how == "remove_first" else lst[-1])


ADD_OPS = {"add": "add", "insert": "insert", "extend2": "extend2", "assign_add": "assign"}
REMOVE_OPS = {"remove": "remove", "remove_first": "remove_first", "assign_remove": "assign"}


def card_issues(kind, obj):
    """(validation_id name, rank) of the cardinality issues reported for obj by a default validation."""
    import odml
    from odml.validation import Validation
    out = []
    for e in Validation(obj).errors:
        if e.obj is obj and e.validation_id is not None and \
                getattr(e.validation_id, "name", str(e.validation_id)) == RULE_ID[kind]:
            out.append([RULE_ID[kind], e.rank, e.msg])
    return out


def card_issues_in(kind, doc, obj):
    """The cardinality issues a validation of the whole document reports for obj."""
    out = []
    for e in doc.validate().errors:
        if e.obj is obj and getattr(e.validation_id, "name", str(e.validation_id)) == RULE_ID[kind]:
            out.append([RULE_ID[kind], e.rank])
    return out


def outside(card, n):
    if card is None:
        return False
    lo, hi = card
    return (lo is not None and n < lo) or (hi is not None and n > hi)


def random_copy(rng):
    """A generator of its own with a state derived from rng (keeps the older streams as they were)."""
    import random
    return random.Random(rng.random())


def model_card(card):
    """Cards the model's decoder understands: None or [a, b] over None / ints."""
    return card is None or (isinstance(card, list) and len(card) == 2 and
                            all(x is None or (isinstance(x, int) and not isinstance(x, bool)) for x in card))


def is_normal(card):
    if card is None:
        return True
    if not (isinstance(card, list) and len(card) == 2):
        return False
    lo, hi = card
    for x in (lo, hi):
        if x is not None and not (isinstance(x, int) and not isinstance(x, bool) and x >= 0):
            return False
    if lo is None and hi is None:
        return False
    if lo is not None and hi is not None and lo > hi:
        return False
    return True



# ----------------------------------------------------------------------------- whole documents
# Stream "doc": cardinalities on objects that live inside a Document together with the other
# library features that change or describe child lists (link / include resolved and unresolved,
# finalize / clean, clones, save + load, every way of adding and removing children), validated
# the way a user validates: the whole Document, a sub tree, a single Property, a kept Validation
# object that is run again.
CARD_RULES = {"section_properties_cardinality": "prop", "section_sections_cardinality": "sec",
              "property_values_cardinality": "val"}
VALUE_POOL = {"int": lambda i: 100 + i, "string": lambda i: "v%d" % i, "float": lambda i: 0.5 + i,
              "2-tuple": lambda i: "(%d;%d)" % (i, i + 1)}


def gen_card(rng, near=None):
    """None or a pair in normal form, preferably with bounds next to the count `near`."""
    if rng.random() < 0.25:
        return None
    base = near if near is not None and rng.random() < 0.75 else rng.choice([0, 1, 2, 3, 4, 9, 10, 11])
    lo = max(0, base + rng.choice([-1, 0, 0, 1, 1, 2]))
    hi = max(1, base + rng.choice([-2, -1, -1, 0, 0, 1]))
    shape = rng.choice(["min", "max", "both", "both"])
    if shape == "min":
        return [max(1, lo), None]
    if shape == "max":
        return [None, hi]
    if lo > hi:
        lo, hi = hi, lo
    return [lo, hi]


def gen_props(rng, prefix, k):
    out = []
    for i in range(k):
        n = rng.choice([0, 1, 1, 2, 3, 3, 4, 10])
        out.append({"name": None if rng.random() < 0.05 else "%sp%d" % (prefix, i), "n": n,
                    "vc": gen_card(rng, n), "dtype": rng.choice(["int", "int", "string", "float", "2-tuple"]),
                    "late": rng.random() < 0.5, "dup": rng.random() < 0.25})
    return out


def gen_plain(rng, name, depth, paths, path):
    """A Section without link / include (a possible link target)."""
    nsec = rng.choice([0, 0, 1, 2, 3]) if depth < 2 else 0
    nprop = rng.choice([0, 1, 2, 2, 3])
    here = path + "/" + name
    paths.append(here)
    spec = {"name": name, "props": gen_props(rng, name, nprop), "secs": [],
            "pc": gen_card(rng, nprop), "sc": gen_card(rng, nsec), "late": rng.random() < 0.5}
    for i in range(nsec):
        spec["secs"].append(gen_plain(rng, "%ss%d" % (name, i), depth + 1, paths, here))
    return spec


def gen_user(rng, name, targets, ext_paths):
    """A Section that refers to another one by link or include (stored unresolved)."""
    spec = gen_plain(rng, name, 1, [], "")
    if rng.random() < 0.1:
        spec["name"] = None         # an unnamed Section (its id serves as name)
    r = rng.random()
    spec["link"] = None
    spec["inc"] = None
    if r < 0.5 and targets:
        spec["link"] = rng.choice(targets)
    elif r < 0.8 and ext_paths:
        spec["inc"] = {"kind": "ext", "path": rng.choice([None] + ext_paths)}
    elif r < 0.9:
        spec["inc"] = {"kind": "missing", "path": rng.choice([None, "/e0"])}
    else:
        spec["link"] = "/no/such/section"
    # bounds that the own children violate / meet now and the other way round once the reference is
    # resolved (the target brings 0..3 more children)
    own_p, own_s = len(spec["props"]), len(spec["secs"])
    spec["pc"] = gen_card(rng, own_p + rng.choice([0, 0, 1, 2]))
    spec["sc"] = gen_card(rng, own_s + rng.choice([0, 0, 1, 2]))
    return spec


DOC_SETTINGS = [None, 0, 1, 3, -1, {"t": [1, 2]}, {"t": [2, None]}, {"t": [None, 1]}, {"t": [0, 3]},
                {"t": [2, 2]}, {"l": [1, 4]}, {"t": [3, 1]}, {"t": [-1, 2]}, {"t": [1, 2, 3]}, "a",
                {"f": False, "fv": 2.5}, {"t": [None, None]}, {"t": [10, 11]}, {"t": [None, 10]},
                # bool bounds (bool is an int): stored as the ints they equal, and then saved and loaded
                True, {"t": [True, 3]}, {"l": [None, True]}, {"t": [False, 2]}, {"t": [True, True]},
                {"t": [1, True]}, {"t": [True, None]}]

# settings one of whose bounds is a bool, next to the int settings they equal (stream set_persist)
BOOL_SETTINGS = [True, False] + \
    [{"t": [True, n]} for n in (None, 0, 1, 2, 5, 10)] + [{"t": [n, True]} for n in (None, 0, 1, 2)] + \
    [{"t": [False, n]} for n in (None, 0, 1, 3)] + [{"t": [n, False]} for n in (None, 0, 1, 3)] + \
    [{"t": [True, True]}, {"l": [True, True]}, {"t": [False, False]}, {"t": [True, False]},
     {"t": [False, True]}, {"l": [None, True]}, {"l": [True, 3]}, {"l": [False, 3]}, {"l": [True, None]},
     {"t": [True, -1]}, {"t": [True, "2"]}, {"t": [True, {"f": False, "fv": 2.0}]}]
INT_CONTROLS = [1, {"t": [1, 5]}, {"t": [None, 1]}, {"l": [0, 3]}, {"t": [1, 1]}, {"t": [2, None]}]


def gen_steps(rng):
    steps = []
    for _ in range(rng.randrange(2, 7)):
        o = rng.choice(["finalize", "finalize", "clean", "rt", "rt", "clone", "clone_sec", "add", "add",
                        "remove", "remove", "clear", "set", "move", "merge"])
        st = {"o": o, "t": rng.randrange(0, 1000), "sub": rng.randrange(0, 1000)}
        if o == "rt":
            st["fmt"] = rng.choice(["XML", "JSON", "YAML"])
            st["via"] = rng.choice(["string", "file", "odml", "style", "backend_strict", "backend_lenient"])
            st["warn"] = rng.random() < 0.3
        elif o == "clone":
            st["keep_id"] = rng.random() < 0.3
        elif o == "clone_sec":
            st["children"] = rng.random() < 0.5
            st["keep_id"] = rng.random() < 0.2
        elif o == "add":
            st["child"] = rng.choice(["prop", "sec"])
            st["how"] = rng.choice(["append", "insert", "extend", "ctor", "create", "assign"])
            st["k"] = rng.choice([1, 1, 1, 2, 3])
        elif o == "remove":
            st["child"] = rng.choice(["prop", "sec"])
            st["how"] = rng.choice(["remove_last", "remove_first", "assign"])
        elif o == "clear":
            st["child"] = rng.choice(["prop", "sec"])
        elif o == "set":
            st["kind"] = rng.choice(["a", "b"])
            st["v"] = rng.choice(DOC_SETTINGS)
            st["via"] = rng.choice(["attr", "attr", "method"])
        elif o in ("move", "merge"):
            st["to"] = rng.randrange(0, 1000)
        steps.append(st)
    return steps


def gen_doc_case(rng):
    targets = []
    tops = []
    ntop = rng.choice([1, 2, 2, 3])
    for i in range(ntop):
        tops.append(gen_plain(rng, "t%d" % i, 0, targets, ""))
    ext = None
    ext_paths = []
    if rng.random() < 0.6:
        ext = [gen_plain(rng, "e%d" % i, 1, ext_paths, "") for i in range(rng.choice([1, 2]))]
    users = []
    for i in range(rng.choice([1, 1, 2, 3])):
        u = gen_user(rng, "u%d" % i, targets, ext_paths)
        u["at"] = rng.choice(["top", "top", "holder", "target"])
        if u["at"] == "target":
            # inside the first target tree; may then only refer to later trees or files (no cycles)
            later = [t for t in targets if not t.startswith("/t0/") and t != "/t0"]
            if u["link"] is not None and u["link"] != "/no/such/section":
                if later:
                    u["link"] = rng.choice(later)
                else:
                    u["at"] = "top"
        users.append(u)
    return {"stream": "doc", "tops": tops, "ext": ext, "users": users, "steps": gen_steps(rng)}


def build_section(spec, parent, url=None, log=None):
    """Creates the Section of a spec below parent. Cardinalities are given to the constructor or,
    for 'late' objects, assigned after the children exist (a history that changes the count)."""
    import odml
    kw = {}
    if spec.get("link") is not None:
        kw["link"] = spec["link"]
    inc = spec.get("inc")
    if inc is not None:
        base = url if (inc["kind"] == "ext" and url) else "file:///nonexistent/c09/ext.xml"
        kw["include"] = base + ("#" + inc["path"] if inc["path"] else "")
    if not spec["late"]:
        kw["prop_cardinality"] = None if spec["pc"] is None else tuple(spec["pc"])
        kw["sec_cardinality"] = None if spec["sc"] is None else tuple(spec["sc"])
    sec = odml.Section(name=spec["name"], type="t", parent=parent, **kw)
    for p in spec["props"]:
        vals = [VALUE_POOL[p["dtype"]](i // 2 if p.get("dup") else i) for i in range(p["n"])]
        pk = {} if p["late"] or p["vc"] is None else {"val_cardinality": tuple(p["vc"])}
        prop = odml.Property(name=p["name"], values=vals or None, dtype=p["dtype"], parent=sec, **pk)
        if p["late"] and p["vc"] is not None:
            prop.val_cardinality = tuple(p["vc"])
        if log is not None:
            log.append((prop, {"val": p["vc"]}))
    for c in spec["secs"]:
        build_section(c, sec, url, log)
    if spec["late"]:
        if spec["pc"] is not None:
            sec.prop_cardinality = tuple(spec["pc"])
        if spec["sc"] is not None:
            sec.set_sections_cardinality(spec["sc"][0], spec["sc"][1])
    if log is not None:
        log.append((sec, {"prop": spec["pc"], "sec": spec["sc"]}))
    return sec


def walk(doc):
    out = []
    for sec in doc.itersections(recursive=True):
        out.append(("sec", sec))
        for prop in sec.properties:
            out.append(("prop", prop))
    return out


class DocRun(object):
    """Executes one 'doc' case on the library and records a snapshot after every step."""

    def __init__(self, case, tmp):
        self.case = case
        self.tmp = tmp
        self.serial = {}
        self.alive = []          # keeps every object alive, so id() stays unique
        self.fresh = 0
        self.tools = {}
        self.log = []            # (object, the cardinalities it was built with)

    def oid(self, obj):
        if id(obj) not in self.serial:
            self.serial[id(obj)] = len(self.serial)
            self.alive.append(obj)
        return self.serial[id(obj)]

    def writer(self, fmt):
        """One writer / reader object per format for the whole case (they are used again and again)."""
        from odml.tools.odmlparser import ODMLWriter
        if fmt not in self.tools:
            self.tools[fmt] = ODMLWriter(fmt)
        return self.tools[fmt]

    def reader(self, fmt, warn):
        from odml.tools.odmlparser import ODMLReader
        if (fmt, warn) not in self.tools:
            self.tools[(fmt, warn)] = ODMLReader(fmt, show_warnings=warn)
        return self.tools[(fmt, warn)]

    def new_name(self, stem):
        self.fresh += 1
        return "%s%d" % (stem, self.fresh)

    def build(self):
        import odml
        from odml.tools.odmlparser import ODMLWriter
        case = self.case
        url = None
        if case["ext"]:
            ext = odml.Document()
            for spec in case["ext"]:
                build_section(spec, ext)
            path = os.path.join(self.tmp, "ext.xml")
            with open(path, "w", encoding="utf-8") as fh:
                fh.write(ODMLWriter("XML").to_string(ext))
            url = "file://" + path
        doc = odml.Document()
        tops = [build_section(spec, doc, url, self.log) for spec in case["tops"]]
        holder = None
        for u in case["users"]:
            if u["at"] == "holder":
                if holder is None:
                    holder = odml.Section(name="h", type="t", parent=doc)
                build_section(u, holder, url, self.log)
            elif u["at"] == "target":
                build_section(u, tops[0], url, self.log)
            else:
                build_section(u, doc, url, self.log)
        return doc

    # -- observation
    def issues(self, errors, index):
        found = {}
        for err in errors:
            name = getattr(err.validation_id, "name", str(err.validation_id))
            if name not in CARD_RULES:
                continue
            i = index.get(id(err.obj))
            key = "%s:%s" % ("?" if i is None else i, CARD_RULES[name])
            found.setdefault(key, []).append(err.rank)
        return sorted([k, v] for k, v in found.items())

    def snapshot(self, doc, kept, sub):
        from odml.validation import Validation
        objs = walk(doc)
        index = dict((id(o), i) for i, (_k, o) in enumerate(objs))
        table = []
        for kind, o in objs:
            if kind == "sec":
                table.append({"k": "sec", "oid": self.oid(o), "path": o.get_path(),
                              "prop": card_out(o.prop_cardinality), "n_prop": len(o.properties),
                              "sec": card_out(o.sec_cardinality), "n_sec": len(o.sections),
                              "ref": "link" if o.link is not None else ("include" if o.include is not None else None),
                              "merged": bool(o.is_merged)})
            else:
                table.append({"k": "prop", "oid": self.oid(o), "path": o.get_path(),
                              "val": card_out(o.val_cardinality), "n_val": len(o.values)})
        means = {}
        means["fresh"] = {"scope": "all", "issues": self.issues(Validation(doc).errors, index)}
        means["method"] = {"scope": "all", "issues": self.issues(doc.validate().errors, index)}
        if kept is not None and kept.obj is doc:
            kept.run_validation()
            means["reused"] = {"scope": "all", "issues": self.issues(kept.errors, index)}
        secs = [o for k, o in objs if k == "sec"]
        props = [o for k, o in objs if k == "prop"]
        if secs:
            root = secs[sub % len(secs)]
            scope = [index[id(root)]]
            for s in root.itersections(recursive=True):
                scope.append(index[id(s)])
                scope.extend(index[id(p)] for p in s.properties)
            # (the Properties of root itself are not visited by a Section validation: no demand)
            means["subtree"] = {"scope": sorted(set(scope)), "issues": self.issues(Validation(root).errors, index)}
        if props:
            prop = props[sub % len(props)]
            means["single"] = {"scope": [index[id(prop)]], "issues": self.issues(Validation(prop).errors, index)}
        # a Validation object of one's own with a single registered rule (the three rules are public
        # functions of odml.validation; this is also what the setters do for their printed warning)
        ck = ("prop", "sec", "val")[sub % 3]
        try:
            import odml.validation as ov
            rule = getattr(ov, RULE_ID[ck])
            own = Validation(doc, validate=False, reset=True)
            own.register_custom_handler("property" if ck == "val" else "section", rule)
            own.run_validation()
            means["own_rule"] = {"scope": "all", "kinds": [ck], "issues": self.issues(own.errors, index)}
        except (ImportError, AttributeError, TypeError):
            pass
        other = 0
        for err in Validation(doc).errors:
            name = getattr(err.validation_id, "name", str(err.validation_id))
            if err.rank == "error" and name not in CARD_RULES:
                other += 1
        return {"objs": table, "means": means, "other_errors": other}

    # -- steps
    def add_to_section(self, sec, st):
        import odml
        made = []
        for _ in range(st["k"] if st["how"] in ("extend",) else 1):
            name = self.new_name("n")
            if st["child"] == "sec":
                made.append(lambda name=name, **kw: odml.Section(name=name, type="t", **kw))
            else:
                made.append(lambda name=name, **kw: odml.Property(name=name, values=[1], **kw))
        how = st["how"]
        if how == "ctor":
            made[0](parent=sec)
        elif how == "create":
            if st["child"] == "sec":
                sec.create_section(self.new_name("n"), "t")
            else:
                sec.create_property(self.new_name("n"), [1])
        elif how == "insert":
            sec.insert(0, made[0]())
        elif how == "extend":
            sec.extend([m() for m in made])
        else:
            sec.append(made[0]())

    def add_to_property(self, prop, st):
        dtype = str(prop.dtype) if prop.dtype in VALUE_POOL else None
        if dtype is None:
            dtype = "int" if not prop.values else None
        if dtype is None:
            return "skipped"
        self.fresh += 1
        new = [VALUE_POOL[dtype](1000 + self.fresh * 10 + j) for j in range(st["k"])]
        how = st["how"]
        if how == "insert":
            prop.insert(0, new[0])
        elif how == "extend":
            prop.extend(new)
        elif how in ("assign", "ctor", "create"):
            prop.values = prop.values + new
        else:
            prop.append(new[0])
        return None

    def step(self, doc, st):
        """-> (document afterwards, record of the step)"""
        import odml
        from odml.tools.odmlparser import ODMLWriter, ODMLReader
        o = st["o"]
        rec = {"o": o}
        objs = walk(doc)
        kind, target = objs[st["t"] % len(objs)] if objs else (None, None)
        try:
            if o == "finalize":
                doc.finalize()
            elif o == "clean":
                doc.clean()
            elif o == "clone":
                doc = doc.clone(keep_id=st["keep_id"])
            elif o == "clone_sec":
                secs = [x for k, x in objs if k == "sec"]
                if secs:
                    src = secs[st["t"] % len(secs)]
                    cl = src.clone(children=st["children"], keep_id=st["keep_id"])
                    cl.name = self.new_name("cl")
                    doc.append(cl)
            elif o == "rt":
                rec["phase"] = "save"
                fmt, via = st["fmt"], st["via"]
                if via.startswith("backend"):
                    # the reader classes behind ODMLReader, with their strict / lenient option
                    lenient = via == "backend_lenient"
                    try:
                        from odml.tools.xmlparser import XMLReader
                        from odml.tools.dict_parser import DictWriter, DictReader
                        from odml.info import FORMAT_VERSION
                    except ImportError:
                        via = "string"
                if via == "string":
                    text = self.writer(fmt).to_string(doc)
                    rec["phase"] = "load"
                    doc = self.reader(fmt, st["warn"]).from_string(text)
                elif via.startswith("backend"):
                    if fmt == "XML":
                        text = self.writer(fmt).to_string(doc)
                        rec["phase"] = "load"
                        doc = XMLReader(ignore_errors=lenient, show_warnings=st["warn"]).from_string(text)
                    else:
                        data = {"Document": DictWriter().to_dict(doc), "odml-version": FORMAT_VERSION}
                        rec["phase"] = "load"
                        doc = DictReader(show_warnings=st["warn"], ignore_errors=lenient).to_odml(data)
                else:
                    path = os.path.join(self.tmp, "%s.%s" % (self.new_name("f"), fmt.lower()))
                    if via == "odml":
                        odml.save(doc, path, fmt)
                        rec["phase"] = "load"
                        doc = odml.load(path, fmt, show_warnings=st["warn"])
                    else:
                        kw = {"local_style": True} if (via == "style" and fmt == "XML") else {}
                        self.writer(fmt).write_file(doc, path, **kw)
                        rec["phase"] = "load"
                        doc = self.reader(fmt, st["warn"]).from_file(path)
                rec["phase"] = "done"
            elif target is None:
                rec["skipped"] = True
            elif o == "add":
                if kind == "sec":
                    self.add_to_section(target, st)
                elif self.add_to_property(target, st):
                    rec["skipped"] = True
            elif o in ("remove", "clear"):
                while True:
                    if kind == "prop":
                        vals = target.values
                        if not vals:
                            break
                        if o == "clear":
                            target.values = []
                        elif st["how"] == "assign":
                            target.values = vals[:-1]
                        else:
                            target.remove(vals[-1] if st["how"] == "remove_last" else vals[0])
                    else:
                        lst = target.sections if st["child"] == "sec" else target.properties
                        if not len(lst):
                            break
                        target.remove(lst[0] if (o == "remove" and st["how"] == "remove_first") else lst[-1])
                    if o == "remove":
                        break
            elif o == "move":
                dests = [x for k, x in objs if k == "sec"]
                dest = dests[st["to"] % len(dests)]
                movable = kind == "prop" or (not len(target.sections) and not target.can_be_merged)
                inside = False
                x = dest
                while x is not None and kind == "sec":
                    inside = inside or x is target
                    x = getattr(x, "parent", None)
                if movable and not inside and target.parent is not dest:
                    target.parent.remove(target)
                    target.name = self.new_name("mv")
                    dest.append(target)
                else:
                    rec["skipped"] = True
            elif o == "merge":
                # Section.merge with an explicit source: the children of another (plain) Section are
                # copied into the target
                secs = [x for k, x in objs if k == "sec"]
                dest = secs[st["t"] % len(secs)]
                srcs = [x for x in secs if x is not dest and not x.can_be_merged
                        and not any(y.can_be_merged for y in x.itersections(recursive=True))]
                related = set()
                x = dest
                while x is not None:
                    related.add(id(x))
                    x = getattr(x, "parent", None)
                srcs = [x for x in srcs if id(x) not in related]
                if srcs:
                    dest.merge(srcs[st["to"] % len(srcs)], strict=False)
                else:
                    rec["skipped"] = True
            elif o == "set":
                if kind == "prop":
                    ck = "val"
                else:
                    ck = "prop" if st["kind"] == "a" else "sec"
                rec.update(kind=ck, oid=self.oid(target), before=card_out(getattr(target, ATTR[ck])))
                v = to_py(st["v"])
                rec["outcome"] = "ok"
                try:
                    if st["via"] == "method" and isinstance(v, tuple) and len(v) == 2:
                        meth = {"val": "set_values_cardinality", "sec": "set_sections_cardinality",
                                "prop": "set_properties_cardinality"}[ck]
                        getattr(target, meth)(v[0], v[1])
                    else:
                        setattr(target, ATTR[ck], v)
                except Exception as exc:
                    rec["outcome"] = fw.exc_name(exc)
                rec["after"] = card_out(getattr(target, ATTR[ck]))
        except Exception as exc:
            rec["raised"] = fw.exc_name(exc)
        return doc, rec

    def run(self):
        from odml.validation import Validation
        doc = self.build()
        kept = Validation(doc)
        snaps = [self.snapshot(doc, kept, 0)]
        recs = []
        for st in self.case["steps"]:
            new_doc, rec = self.step(doc, st)
            if new_doc is not doc:
                doc = new_doc
                kept = Validation(doc)
            recs.append(rec)
            snaps.append(self.snapshot(doc, kept, st["sub"]))
        built = [dict(want, oid=self.oid(o)) for o, want in self.log]
        return {"snaps": snaps, "steps": recs, "built": built}


# ----------------------------------------------------------------------------- the check
class C09(fw.Check):
    prop = "C09"
    lean_targets = ["OdmlModel.Props.C09"]
    obligations = ["C09." + t for t in [
        "fmt_normal", "set_refused_keeps", "set_accepted", "slot_always_stored", "fmt_domain",
        "fmt_single", "fmt_pair", "report_iff_outside", "report_cause", "never_enforced_add",
        "never_enforced_remove", "history_exact", "stored_fixpoint", "persist_text",
        "persist_list", "persist_end_to_end", "card_keys_in_format",
        "fmt_obj_view", "set_obj_view", "bool_bound_exact", "slot_always_exact", "bool_bound_persisted",
        "bool_bound_legacy_counterexample", "wrong_length_refused"]]
    trusted_base = [
        "Lean 4.33.0 kernel; axioms propext, Classical.choice, Quot.sound only (audited per theorem)",
        "hand-written model lean/OdmlModel/Model/Card.lean and Model/CardObj.lean (the stored objects: exact "
        "int vs bool), tied to /repo by this correspondence run",
        "harness/extract_tables.py (format._args tables regenerated into Lean on every run)",
        "Driver/*.lean JSON glue; harness/framework.py, harness/c09.py",
        "lxml / json / PyYAML text<->tree (exercised end to end, not modelled)",
    ]
    assumptions = [
        "str.isdigit() is modelled for ASCII digits only; the model is asked about ASCII cardinality texts "
        "only (texts with other digits / spaces are decided by the oracle alone)",
        "children are counted by len(); adding/removing goes through append/remove",
    ]
    rule = ("exhaustive grid of the property's quantifier: settings {None, bools, ints -1..4, "
            "(a,b)/[a,b] over {None,-1..4}, strings, floats, wrong-length tuples, other objects} "
            "x three kinds x previous setting; stored cards x child counts 0..5 x histories; "
            "stored cards x {XML,JSON,YAML}; plus random big ints and random cardinality texts. "
            "Added after seeded round 2: the same assignments through the two argument methods and the "
            "constructors (with a parent whose own cardinality the new child breaks), sequences of "
            "assignments on one object; counts/bounds 8..12 and 99..101, all public ways of adding and "
            "removing children, equal values, other value types; hand written entries inside complete "
            "files (string and file entry points); random Documents with cardinalities on every level "
            "combined with link / include (unresolved, resolved by finalize, cleaned, unresolvable), "
            "merge, clones, save+load through every entry point and reader option, validated as a whole, "
            "as a sub tree, as a single Property, by a kept Validation object and by an own single-rule "
            "Validation after every step. "
            "Added in round 5: settings with bool bounds (True, (True, n), (n, True), [None, True], "
            "(False, n), [True, True] ...) for the three kinds through attribute / method / constructor, "
            "stored objects compared as objects (a bool is not an int), written and read back in XML / "
            "JSON / YAML (string, file, lenient backend reader), next to the same setting spelled with ints. "
            "A case is non-trivial when the assignment is accepted with a non-None result, or "
            "the validation reports an issue, or a persisted cardinality is non-None; distinct = "
            "distinct canonical JSON of the case.")

    def extra_exhaustive(self, tier):
        return True

    # -- generation ----------------------------------------------------------
    def settings(self, rng, tier):
        atoms = [None] + list(range(-1, 5))
        out = [None, True, False] + list(range(-1, 5))
        out += [{"t": [a, b]} for a in atoms for b in atoms]
        out += [{"l": [a, b]} for a in atoms for b in atoms]
        out += ["", "1", "(1, 2)", "a"]
        out += [{"f": True, "fv": 0.0}, {"f": False, "fv": 1.0}, {"f": False, "fv": 2.5}]
        out += [{"t": []}, {"t": [1]}, {"t": [1, 2, 3]}, {"l": []}, {"l": [2]}, {"l": [0, 1, 2]}]
        out += [{"o": True}, {"o": False}]
        mixed = [True, False, "", "2", {"f": True, "fv": 0.0}, {"f": False, "fv": 2.0},
                 {"l": []}, {"t": [1, 2]}, {"o": False}]
        for m in mixed:
            for a in (None, 0, 2):
                out.append({"t": [m, a]})
                out.append({"t": [a, m]})
        # more bool bounds (round 5): both bounds bools, a bool next to 1 / 5, lists
        out += [{"t": [True, True]}, {"l": [True, True]}, {"t": [True, False]}, {"t": [False, True]},
                {"t": [False, False]}, {"t": [True, 5]}, {"t": [True, 1]}, {"t": [1, True]}, {"l": [None, True]},
                {"l": [True, 3]}, {"t": [False, 3]}, {"t": [3, True]}]
        # wrong-length tuples / lists over falsy and truthy items (session 3, after seeded change C09-M:
        # a sequence of length 1 or 3 whose items are all falsy must raise like any other wrong length)
        witems = [None, 0, False, "", 1, 2]
        for tag in ("t", "l"):
            out += [{tag: [a]} for a in witems]
            out += [{tag: [a, b, c]} for a in witems[:5] for b in witems[:5] for c in (None, 0, 1)]
            out += [{tag: [None, None, None, None]}, {tag: [0, 0, 0, 0]}, {tag: [0, 1, 2, 3]}, {tag: [None] * 5}]
        nbig = 40 if tier == "quick" else 400
        for _ in range(nbig):
            a = rng.choice([None, rng.randrange(0, 10 ** rng.randrange(1, 30))])
            b = rng.choice([None, rng.randrange(0, 10 ** rng.randrange(1, 30))])
            out.append({"t": [a, b]})
            out.append(rng.randrange(1, 10 ** 25))
        return out

    def texts(self, rng, tier):
        base = ["(2, 3)", "(2,3)", " ( 2 , 3 ) ", "(None, 3)", "(3, None)", "(None, None)", "(3, 2)",
                "(2, 2)", "(0, 0)", "(0, 3)", "2, 3", "[2, 3]", "(2; 3)", "(a, 3)", "(-1, 3)",
                "(1, 2, 3)", "()", "(,)", "(2, )", "(none, 3)", "( None ,3)", "(02, 3)", "x",
                " ", "(2, 3) ", "\t(1, 5)\n", "(1.0, 2)", "(+1, 2)", "(1_0, 20)", "((1, 2))"]
        n = 60 if tier == "quick" else 1500
        alpha = ["0", "1", "2", "9", "None", ",", " ", "(", ")", "-", "N", "a", "\t"]
        for _ in range(n):
            base.append("".join(rng.choice(alpha) for _ in range(rng.randrange(0, 9))))
        return base

    # texts outside ASCII (digits of other scripts, superscripts, full width forms, no-break and line
    # separator spaces); the model is not asked about them, the oracle is
    EXOTIC_TEXTS = [u"(\u0662, \u0663)", u"(\u00b2, 3)", u"(\uff12, \uff13)", u"\u00a0(2, 3)\u00a0", u"(2,\u20283)",
                    u"(2, 3)\u0085", u"\uff082, 3\uff09", u"(\u2461, 3)", u"(2\u00a0, 3)", u"(None, \u0663)",
                    u"(1\u0660, 11)", u"(\u0661\u0660, 9)", u"(2, 3\ufeff)", u"(\u00bd, 1)"]

    def generate(self, tier, rng):
        cases = []
        prevs = [None, {"t": [1, 3]}]
        for kind in KINDS:
            for s in self.settings(rng, tier):
                for prev in prevs:
                    cases.append({"stream": "set", "kind": kind, "prev": prev, "v": s})
        stored = [[None, k] for k in range(1, 5)] + [[k, None] for k in range(1, 5)] + \
                 [[a, b] for a in range(0, 5) for b in range(1, 5) if a <= b]
        for kind in KINDS:
            for c in stored:
                for n in range(0, 6):
                    cases.append({"stream": "report", "kind": kind, "card": c, "n": n,
                                  "history": rng.choice([[], ["add"], ["remove"], ["add", "add", "remove"],
                                                         ["remove", "remove", "add"]])})
        for kind in KINDS:
            for c in stored + [[None, 10 ** 20], [12345678901234567890, None], [7, 10 ** 12]]:
                for fmt in ("XML", "JSON", "YAML"):
                    cases.append({"stream": "persist", "kind": kind, "card": c, "format": fmt})
        for t in self.texts(rng, tier):
            cases.append({"stream": "parse_text", "s": t})
        atoms = [None, True, False, 0, 1, 2, 3, -1, "None", " None ", "2", "", 1.5, 0.0, [], [1]]
        for a in atoms:
            for b in atoms:
                cases.append({"stream": "parse_list", "a": a, "b": b})
        # everything below was added later and draws from a generator of its own, so the streams
        # above stay what they were for every seed
        return cases + self.generate_more(tier, random_copy(rng), stored, prevs)

    def generate_more(self, tier, rng, stored, prevs):
        cases = []
        for t in self.EXOTIC_TEXTS:
            cases.append({"stream": "parse_text", "s": t})
            for kind in KINDS:
                cases.append({"stream": "load_text", "kind": kind, "format": "XML", "s": t, "entry": "string"})
        # the same grid once more with the other public ways of changing the child count (insert,
        # extend, assignment, removal from the front, emptying) and other value types
        histories = [["insert"], ["extend2"], ["assign_add"], ["remove_first"], ["assign_remove"], ["clear"],
                     ["clear", "add"], ["extend2", "remove_first", "insert"], ["insert", "clear", "extend2"],
                     ["assign_add", "assign_add", "assign_remove"], ["remove", "remove_first", "clear", "add"]]
        for kind in KINDS:
            for c in stored:
                for n in range(0, 6):
                    case = {"stream": "report", "kind": kind, "card": c, "n": n, "history": rng.choice(histories)}
                    if kind == "val":
                        case["dtype"] = rng.choice(["int", "string", "float", "2-tuple"])
                        case["dup"] = rng.random() < 0.4       # equal values count one by one
                    cases.append(case)
        # counts and bounds with more than one digit (9 / 10 / 11 children, bounds 9..12, 100)
        wide = [[None, 9], [None, 10], [None, 11], [9, None], [10, None], [11, None], [9, 10], [10, 10],
                [10, 11], [2, 10], [9, 100], [10, 100], [100, None], [None, 100]]
        for kind in KINDS:
            for c in wide:
                for n in (0, 2, 8, 9, 10, 11, 12):
                    cases.append({"stream": "report", "kind": kind, "card": c, "n": n,
                                  "history": rng.choice([[], ["add"], ["remove"], ["add", "add"], ["extend2"],
                                                         ["remove", "remove_first"], ["clear"]])})
            for c in wide + [[2, 100], [20, 100], [99, 100], [9, 9], [11, 11], [3, 20]]:
                for fmt in ("XML", "JSON", "YAML"):
                    cases.append({"stream": "persist", "kind": kind, "card": c, "format": fmt})
            for c in ([None, 100], [100, None], [99, 101]):
                for n in (99, 100, 101):
                    cases.append({"stream": "report", "kind": kind, "card": c, "n": n,
                                  "history": rng.choice([["add"], ["remove"], ["add", "add"], ["remove", "remove"]])})
        # the other ways of making an assignment: the two argument methods and the constructors
        # (with and without a parent whose own cardinality the new object breaks)
        pool = self.settings(rng, "quick")
        pairs = [s for s in pool if isinstance(s, dict) and "t" in s and len(s["t"]) == 2]
        for kind in KINDS:
            for s in pairs:
                for prev in prevs:
                    cases.append({"stream": "set", "kind": kind, "prev": prev, "v": s, "via": "method"})
            for s in pool:
                cases.append({"stream": "set", "kind": kind, "prev": None, "v": s, "via": "ctor"})
                if isinstance(s, dict) and ("t" in s or "l" in s) and len(s.get("t", s.get("l"))) == 2:
                    cases.append({"stream": "set", "kind": kind, "prev": None, "v": s, "via": "ctor_parent"})
        # several assignments to the same object, refused ones in between, children edited in between
        nseq = 150 if tier == "quick" else 3000
        for _ in range(nseq):
            seq = []
            for _j in range(rng.randrange(2, 7)):
                seq.append({"v": rng.choice(pool), "via": rng.choice(["attr", "attr", "method"]),
                            "edit": rng.choice([None, None, "add", "remove"])})
            cases.append({"stream": "set_seq", "kind": rng.choice(KINDS), "n": rng.randrange(0, 4), "seq": seq})
        # cardinality texts / lists inside a complete file, read through the public readers
        forms = ["(2, 3)", "(2,3)", " ( 2 , 3 ) ", "(None, 3)", "(3, None)", "(None, None)", "(3, 2)", "(2, 2)",
                 "(0, 3)", "(0, 0)", "2, 3", "[2, 3]", "(a, 3)", "(-1, 3)", "(1, 2, 3)", "()", "x", "(10, 11)",
                 "(9, 10)", "(2, 10)", "(20, 100)", "(None, 10)", "(10, None)", "(100, 1000)", "(12345678901234567890, None)"]
        lists = [[2, 3], [None, 3], [3, None], [None, None], [3, 2], [2, 2], [0, 3], [0, 0], [10, 11], [9, 10],
                 [None, 10], [10, None], [2, 10], [20, 100], ["None", 3], [3, "None"], ["2", "3"], [2], [1, 2, 3], [], [-1, 3],
                 [True, 3], [1.5, 3], "(2, 3)", 3, None, [100, 1000]]
        for kind in KINDS:
            for t in forms:
                for entry in ("string", "file"):
                    cases.append({"stream": "load_text", "kind": kind, "format": "XML", "s": t, "entry": entry})
            for v in lists:
                for fmt in ("JSON", "YAML"):
                    cases.append({"stream": "load_text", "kind": kind, "format": fmt, "v": v,
                                  "entry": rng.choice(["string", "file"])})
        # bool bounds end to end: assigned (attribute / method / constructor), stored, written and read
        # back in every format, next to the same setting spelled with ints
        k = 0
        for kind in KINDS:
            for fmt in ("XML", "JSON", "YAML"):
                for s in BOOL_SETTINGS + INT_CONTROLS:
                    for via in ("attr", "ctor"):
                        k += 1
                        if via == "attr" and isinstance(s, dict) and "t" in s and k % 2:
                            via = "method"
                        cases.append({"stream": "set_persist", "kind": kind, "format": fmt, "v": s, "via": via,
                                      "entry": ("string", "file", "backend")[k % 3]})
        ndoc = 500 if tier == "quick" else 6000
        for _ in range(ndoc):
            cases.append(gen_doc_case(rng))
        return cases

    # -- implementation ------------------------------------------------------
    def impl(self, case):
        import odml
        st = case["stream"]
        if st == "set" and case.get("via") in ("ctor", "ctor_parent"):
            # the assignment made by the constructor; with a parent that allows no further child
            kind = case["kind"]
            parent = None
            if case["via"] == "ctor_parent":
                parent = odml.Section(name="parent", type="t", sec_cardinality=(None, 1), prop_cardinality=(None, 1))
                odml.Section(name="first", type="t", parent=parent)
                odml.Property(name="first", values=[1], parent=parent)
            obj = None
            try:
                if kind == "val":
                    obj = odml.Property(name="p", values=[1, 2], parent=parent, val_cardinality=to_py(case["v"]))
                else:
                    obj = odml.Section(name="s", type="t", parent=parent, **{ATTR[kind]: to_py(case["v"])})
                outc = "ok"
            except Exception as exc:
                outc = fw.exc_name(exc)
            res = {"outcome": outc, "before": None, "children_kept": True,
                   "after": None if obj is None else card_out(getattr(obj, ATTR[kind]))}
            if parent is not None and obj is not None:
                res["attached"] = obj.parent is parent and \
                    any(x is obj for x in (parent.properties if kind == "val" else parent.sections))
            return res
        if st == "set":
            kind = case["kind"]
            obj = make_obj(kind, 2)
            if case["prev"] is not None:
                setattr(obj, ATTR[kind], to_py(case["prev"]))
            before = card_out(getattr(obj, ATTR[kind]))
            n_before = count_children(kind, obj)
            try:
                self.assign(obj, kind, to_py(case["v"]), case.get("via"))
                outc = "ok"
            except Exception as exc:
                outc = fw.exc_name(exc)
            return {"outcome": outc, "before": before, "after": card_out(getattr(obj, ATTR[kind])),
                    "children_kept": count_children(kind, obj) == n_before}
        if st == "set_seq":
            # one object, several assignments in a row (accepted and refused), children edited between
            kind = case["kind"]
            obj = make_obj(kind, case["n"])
            steps = []
            for i, item in enumerate(case["seq"]):
                before = card_out(getattr(obj, ATTR[kind]))
                n_before = count_children(kind, obj)
                try:
                    self.assign(obj, kind, to_py(item["v"]), item["via"])
                    outc = "ok"
                except Exception as exc:
                    outc = fw.exc_name(exc)
                rec = {"outcome": outc, "before": before, "after": card_out(getattr(obj, ATTR[kind])),
                       "children_kept": count_children(kind, obj) == n_before}
                edit = None
                try:
                    if item["edit"] == "add":
                        add_child(kind, obj, i)
                    elif item["edit"] == "remove" and count_children(kind, obj) > 0:
                        remove_child(kind, obj)
                except Exception as exc:
                    edit = fw.exc_name(exc)
                rec.update(edit_refused=edit, n=count_children(kind, obj), issues=card_issues(kind, obj),
                           after_edit=card_out(getattr(obj, ATTR[kind])))
                steps.append(rec)
            return {"steps": steps}
        if st == "report":
            kind = case["kind"]
            dtype = case.get("dtype", "int")
            obj = make_obj(kind, case["n"], dtype, case.get("dup", False))
            setattr(obj, ATTR[kind], tuple(case["card"]))
            card = card_out(getattr(obj, ATTR[kind]))
            trace = [{"n": count_children(kind, obj), "issues": card_issues(kind, obj)}]
            refused = []
            for i, op in enumerate(case["history"]):
                try:
                    if op in ADD_OPS:
                        add_child(kind, obj, i, ADD_OPS[op], dtype)
                    elif op == "clear":
                        while count_children(kind, obj) > 0:
                            remove_child(kind, obj)
                    elif count_children(kind, obj) > 0:
                        remove_child(kind, obj, REMOVE_OPS[op])
                except Exception as exc:
                    refused.append([op, fw.exc_name(exc)])
                trace.append({"n": count_children(kind, obj), "issues": card_issues(kind, obj)})
            return {"card": card, "trace": trace, "refused": refused,
                    "card_after": card_out(getattr(obj, ATTR[kind]))}
        if st == "persist":
            from odml.tools.odmlparser import ODMLWriter, ODMLReader
            kind = case["kind"]
            doc = odml.Document()
            top = odml.Section(name="top", type="t", parent=doc)
            if kind == "val":
                obj = odml.Property(name="p", values=[1, 2], parent=top)
            else:
                obj = top
            setattr(obj, ATTR[kind], tuple(case["card"]))
            stored = card_out(getattr(obj, ATTR[kind]))
            text = ODMLWriter(case["format"]).to_string(doc)
            emitted = self.emitted(kind, case["format"], text)
            doc2 = ODMLReader(case["format"], show_warnings=False).from_string(text)
            obj2 = doc2.sections[0].properties[0] if kind == "val" else doc2.sections[0]
            return {"stored": stored, "emitted": emitted, "loaded": card_out(getattr(obj2, ATTR[kind]))}
        if st == "load_text":
            return self.load_text(case)
        if st == "set_persist":
            return self.set_persist(case)
        if st == "doc":
            tmp = tempfile.mkdtemp(prefix="c09_")
            old_tmp = tempfile.tempdir
            tempfile.tempdir = tmp          # the include cache (odml.cache) lives below the temp dir
            try:
                return DocRun(case, tmp).run()
            finally:
                tempfile.tempdir = old_tmp
                shutil.rmtree(tmp, True)
        if st == "parse_text":
            try:
                from odml.tools.xmlparser import parse_cardinality
            except ImportError:
                return {"skipped": "xmlparser.parse_cardinality not found"}
            try:
                return {"parsed": card_value_out(parse_cardinality(case["s"]))}
            except Exception as exc:
                return {"raised": fw.exc_name(exc)}
        if st == "parse_list":
            try:
                from odml.tools.dict_parser import parse_cardinality
            except ImportError:
                return {"skipped": "dict_parser.parse_cardinality not found"}
            try:
                return {"parsed": card_value_out(parse_cardinality([case["a"], case["b"]]))}
            except Exception as exc:
                return {"raised": fw.exc_name(exc)}
        raise ValueError(st)

    @staticmethod
    def assign(obj, kind, value, via=None):
        """The attribute, or the two argument method when the value is a pair."""
        if via == "method" and isinstance(value, tuple) and len(value) == 2:
            name = {"val": "set_values_cardinality", "sec": "set_sections_cardinality",
                    "prop": "set_properties_cardinality"}[kind]
            getattr(obj, name)(value[0], value[1])
        else:
            setattr(obj, ATTR[kind], value)

    def set_persist(self, case):
        """One assignment (attribute, two argument method or constructor) to an object inside a Document,
        then the Document is written and read back; a twin object gets the same setting with every bool
        replaced by the int it equals."""
        import odml
        from odml.tools.odmlparser import ODMLWriter, ODMLReader
        kind, fmt, via = case["kind"], case["format"], case["via"]
        v = to_py(case["v"])
        doc = odml.Document()
        obj = None
        try:
            if via == "ctor":
                if kind == "val":
                    top = odml.Section(name="top", type="t", parent=doc)
                    obj = odml.Property(name="p", values=[1, 2], parent=top, val_cardinality=v)
                else:
                    obj = odml.Section(name="top", type="t", parent=doc, **{ATTR[kind]: v})
            else:
                top = odml.Section(name="top", type="t", parent=doc)
                obj = odml.Property(name="p", values=[1, 2], parent=top) if kind == "val" else top
                self.assign(obj, kind, v, via)
            outc = "ok"
        except Exception as exc:
            outc = fw.exc_name(exc)
        res = {"outcome": outc, "before": None, "children_kept": True,
               "after": None if (obj is None or via == "ctor" and outc != "ok") else card_out(getattr(obj, ATTR[kind]))}
        twin = make_obj(kind, 2)
        try:
            setattr(twin, ATTR[kind], to_py(unbool(case["v"])))
            res["twin"] = {"outcome": "ok"}
        except Exception as exc:
            res["twin"] = {"outcome": fw.exc_name(exc)}
        res["twin"]["after"] = card_out(getattr(twin, ATTR[kind]))
        if outc != "ok":
            return res
        tmp = None
        phase = "save"
        try:
            if case["entry"] == "file":
                tmp = tempfile.mkdtemp(prefix="c09_")
                path = os.path.join(tmp, "out." + fmt.lower())
                odml.save(doc, path, fmt)
                with open(path, encoding="utf-8") as fh:
                    text = fh.read()
                phase = "load"
                doc2 = odml.load(path, fmt, show_warnings=False)
            else:
                text = ODMLWriter(fmt).to_string(doc)
                phase = "load"
                doc2 = None
                if case["entry"] == "backend":
                    try:
                        from odml.tools.xmlparser import XMLReader
                        if fmt == "XML":
                            doc2 = XMLReader(ignore_errors=True, show_warnings=False).from_string(text)
                    except ImportError:
                        pass
                if doc2 is None:
                    doc2 = ODMLReader(fmt, show_warnings=False).from_string(text)
            res["emitted"] = self.emitted(kind, fmt, text)
            obj2 = doc2.sections[0].properties[0] if kind == "val" else doc2.sections[0]
            res["loaded"] = card_out(getattr(obj2, ATTR[kind]))
        except Exception as exc:
            res["raised"] = fw.exc_name(exc)
            res["phase"] = phase
        finally:
            if tmp:
                shutil.rmtree(tmp, True)
        return res

    def load_text(self, case):
        """A complete file with a hand written cardinality entry, read by the public readers."""
        import odml
        from odml.tools.odmlparser import ODMLWriter, ODMLReader
        kind, fmt = case["kind"], case["format"]
        key = ATTR[kind]
        doc = odml.Document()
        top = odml.Section(name="top", type="t", parent=doc)
        odml.Property(name="p", values=[1, 2], parent=top)
        text = ODMLWriter(fmt).to_string(doc)
        if fmt == "XML":
            from lxml import etree
            root = etree.fromstring(text.encode("utf-8"))
            node = root.find(".//property") if kind == "val" else root.find("section")
            el = etree.SubElement(node, key)
            el.text = case["s"]
            text = etree.tostring(root, encoding="unicode")
        else:
            if fmt == "JSON":
                data = json.loads(text)
            else:
                import yaml
                data = yaml.safe_load(text)
            sec = data["Document"]["sections"][0]
            (sec["properties"][0] if kind == "val" else sec)[key] = case["v"]
            if fmt == "JSON":
                text = json.dumps(data)
            else:
                import yaml
                text = yaml.safe_dump(data)
        tmp = None
        try:
            if case["entry"] == "file":
                tmp = tempfile.mkdtemp(prefix="c09_")
                path = os.path.join(tmp, "in." + fmt.lower())
                with open(path, "w", encoding="utf-8") as fh:
                    fh.write(text)
                doc2 = odml.load(path, fmt, show_warnings=False)
            else:
                doc2 = ODMLReader(fmt, show_warnings=False).from_string(text)
        except Exception as exc:
            return {"raised": fw.exc_name(exc)}
        finally:
            if tmp:
                shutil.rmtree(tmp, True)
        obj = doc2.sections[0].properties[0] if kind == "val" else doc2.sections[0]
        n = count_children(kind, obj)
        return {"loaded": card_out(getattr(obj, key)), "n": n, "issues": card_issues_in(kind, doc2, obj)}

    @staticmethod
    def emitted(kind, fmt, text):
        """What the writer put into the file for the cardinality (text for XML, list otherwise)."""
        key = ATTR[kind]
        try:
            if fmt == "XML":
                from lxml import etree
                root = etree.fromstring(text.encode("utf-8"))
                els = root.findall(".//" + key)
                return els[0].text if els else None
            if fmt == "JSON":
                data = json.loads(text)
            else:
                import yaml
                data = yaml.safe_load(text)
            sec = data["Document"]["sections"][0]
            node = sec["properties"][0] if kind == "val" else sec
            return node.get(key)
        except Exception as exc:
            return {"unreadable": fw.exc_name(exc)}

    # -- model ---------------------------------------------------------------
    def model_requests(self, case, obs):
        st = case["stream"]
        P = {"p": "C09"}
        if st == "set":
            if not model_card(obs["before"]):
                return []
            return [dict(P, op="set", old=obs["before"], v=to_model(case["v"]))]
        if st == "set_seq":
            reqs = []
            for item, step in zip(case["seq"], obs["steps"]):
                if model_card(step["before"]) and model_card(step["after_edit"]):
                    reqs.append(dict(P, op="set", old=step["before"], v=to_model(item["v"])))
                    reqs.append(dict(P, op="issue", c=step["after_edit"], n=step["n"]))
                else:
                    return []
            return reqs
        if st == "set_persist":
            reqs = [dict(P, op="set", old=None, v=to_model(case["v"]))]
            em = obs.get("emitted")
            if isinstance(em, str) and em.isascii():
                reqs.append(dict(P, op="parse_text", s=em))
            elif isinstance(em, list) and len(em) == 2 and \
                    all(x is None or isinstance(x, (bool, int, str)) for x in em):
                reqs.append(dict(P, op="parse_list", a=em[0], b=em[1]))
            return reqs
        if st == "load_text":
            if "raised" in obs:
                return []
            if case["format"] == "XML":
                return [dict(P, op="parse_text", s=case["s"])] if case["s"].isascii() else []
            v = case["v"]
            if isinstance(v, list) and len(v) == 2:
                enc = lambda x: ({"o": bool(x)} if isinstance(x, float) else x)
                return [dict(P, op="parse_list", a=enc(v[0]), b=enc(v[1]))]
            return []
        if st == "doc":
            reqs = []
            for snap in obs["snaps"]:
                for o in snap["objs"]:
                    for kind in (("prop", "sec") if o["k"] == "sec" else ("val",)):
                        if model_card(o[kind]):
                            reqs.append(dict(P, op="issue", c=o[kind], n=o["n_" + kind]))
            return reqs
        if st == "report":
            return [dict(P, op="issue", c=obs["card"], n=step["n"]) for step in obs["trace"]]
        if st == "persist":
            em = obs["emitted"]
            if case["format"] == "XML" and isinstance(em, str):
                return [dict(P, op="parse_text", s=em),
                        dict(P, op="render", c=obs["stored"]) if obs["stored"] else dict(P, op="parse_text", s="")]
            if isinstance(em, list) and len(em) == 2:
                return [dict(P, op="parse_list", a=em[0], b=em[1])]
            return []
        if st == "parse_text":
            if "skipped" in obs or not case["s"].isascii():
                return []
            return [dict(P, op="parse_text", s=case["s"])]
        if st == "parse_list":
            if "skipped" in obs:
                return []
            a, b = case["a"], case["b"]
            enc = lambda x: ({"o": bool(x)} if isinstance(x, float) else x)
            return [dict(P, op="parse_list", a=enc(a), b=enc(b))]
        return []

    def compare(self, case, obs, answers):
        st = case["stream"]
        out = []
        if st == "set_seq" and answers:
            for i, step in enumerate(obs["steps"]):
                a, b = answers[2 * i], answers[2 * i + 1]
                if a["ok"] != (step["outcome"] == "ok") or a["card"] != step["after"]:
                    out.append("step %d: model %s, implementation %s / %s" % (i, a, step["outcome"], step["after"]))
                for f in self.compare_objects(a, step):
                    out.append("step %d: %s" % (i, f))
                if (b is not None) != bool(step["issues"]):
                    out.append("step %d: model issue=%s, implementation issues=%s" % (i, b, step["issues"]))
        elif st == "load_text" and answers:
            want = answers[0]
            if want is not None and not want[0] and not want[1]:
                want = None     # the reader hands (0, 0) to the constructor, whose setter stores 'unset'
            if want != obs["loaded"]:
                out.append("model parses the entry to %s, implementation loaded %s" % (answers[0], obs["loaded"]))
        elif st == "doc":
            k = 0
            for si, snap in enumerate(obs["snaps"]):
                got = set(key for key, _r in snap["means"]["fresh"]["issues"])
                for i, o in enumerate(snap["objs"]):
                    for kind in (("prop", "sec") if o["k"] == "sec" else ("val",)):
                        if not model_card(o[kind]):
                            continue
                        a = answers[k]
                        k += 1
                        if (a is not None) != (("%d:%s" % (i, kind)) in got):
                            out.append("snapshot %d, %s %s cardinality %s with %d children: model issue=%s, "
                                       "implementation reported=%s" % (si, o["path"], kind, o[kind], o["n_" + kind],
                                                                       a, not (a is not None)))
        elif st == "set" and answers:
            a = answers[0]
            if a["ok"] != (obs["outcome"] == "ok"):
                out.append("model accepted=%s, implementation outcome=%s" % (a["ok"], obs["outcome"]))
            if a["card"] != obs["after"]:
                out.append("model stores %s, implementation stores %s" % (a["card"], obs["after"]))
            out += self.compare_objects(a, obs)
        elif st == "set_persist" and answers:
            a = answers[0]
            if a["ok"] != (obs["outcome"] == "ok"):
                out.append("model accepted=%s, implementation outcome=%s" % (a["ok"], obs["outcome"]))
            if a["card"] != obs["after"]:
                out.append("model stores %s, implementation stores %s" % (a["card"], obs["after"]))
            out += self.compare_objects(a, obs)
            if "unbool" in a:
                want = model_objects(a["unbool"])
                got = obs["twin"]["after"] if obs["twin"]["outcome"] == "ok" else "refused"
                if want != got:
                    out.append("the setting with ints: model stores %s, implementation %s" % (want, got))
            if len(answers) > 1 and "loaded" in obs:
                want = answers[1]
                if want is not None and not want[0] and not want[1]:
                    want = None
                if want != obs["loaded"]:
                    out.append("model parses emitted %r to %s, implementation loaded %s"
                               % (obs["emitted"], answers[1], obs["loaded"]))
        elif st == "report":
            for step, a in zip(obs["trace"], answers):
                if (a is not None) != bool(step["issues"]):
                    out.append("model issue=%s, implementation issues=%s at n=%d" % (a, step["issues"], step["n"]))
        elif st == "persist" and answers:
            if answers[0] != obs["loaded"]:
                out.append("model parses emitted %r to %s, implementation loaded %s"
                           % (obs["emitted"], answers[0], obs["loaded"]))
        elif st in ("parse_text", "parse_list") and answers:
            if "raised" in obs:
                pass        # totality of the readers is C16's business
            elif answers[0] != obs["parsed"]:
                out.append("model parses to %s, implementation to %s" % (answers[0], obs["parsed"]))
        return out

    @staticmethod
    def compare_objects(a, obs):
        """The objects of an accepted assignment: the model stores None / exact ints (C09.bool_bound_exact)."""
        if "stored" not in a or obs["outcome"] != "ok":
            return []
        want = model_objects(a["stored"])
        if want != obs["after"]:
            return ["model stores the objects %s, implementation %s" % (want, obs["after"])]
        return []

    # -- oracle (property over the public API, independent of the model) ------
    def oracle(self, case, obs):
        if "harness_exception" in obs:
            return []
        st = case["stream"]
        out = []
        if st == "set":
            out += self.oracle_assignment(case["v"], obs)
            if obs.get("attached") is False:
                out.append("an object with an accepted cardinality was not added to its parent "
                           "(the parent's own cardinality must not be enforced)")
        elif st == "set_persist":
            out += self.oracle_assignment(case["v"], obs)
            if obs["outcome"] == "ok":
                if "raised" in obs:
                    out.append("%s %s of a document with the accepted %s cardinality %s failed: %s"
                               % (case["format"], obs["phase"], case["kind"], obs["after"], obs["raised"]))
                elif obs["loaded"] != obs["after"]:
                    out.append("%s %s cardinality %s (assigned %s) loaded back as %s"
                               % (case["format"], case["kind"], obs["after"], json.dumps(case["v"]), obs["loaded"]))
                tw = obs["twin"]
                if tw["outcome"] == "ok" and tw["after"] != obs["after"]:
                    # True == 1 and False == 0: when both spellings are accepted they are the same cardinality
                    out.append("setting %s stored as %s, the same setting with ints %s stored as %s"
                               % (json.dumps(case["v"]), obs["after"], json.dumps(unbool(case["v"])), tw["after"]))
        elif st == "set_seq":
            for i, (item, step) in enumerate(zip(case["seq"], obs["steps"])):
                for f in self.oracle_assignment(item["v"], step):
                    out.append("assignment %d: %s" % (i, f))
                if step["edit_refused"]:
                    out.append("assignment %d: adding/removing a child afterwards was refused: %s"
                               % (i, step["edit_refused"]))
                if step["after_edit"] != step["after"]:
                    out.append("assignment %d: cardinality changed by the child edit" % i)
                if is_normal(step["after_edit"]):
                    want = outside(step["after_edit"], step["n"])
                    if want != bool(step["issues"]):
                        out.append("assignment %d: cardinality %s with %d children: warning reported=%s, expected=%s"
                                   % (i, step["after_edit"], step["n"], bool(step["issues"]), want))
        elif st == "load_text":
            if "raised" in obs:
                return out          # whether a reader may refuse a file is C16's business
            if not is_normal(obs["loaded"]):
                out.append("loaded cardinality %s is not in normal form" % (obs["loaded"],))
            else:
                want = self.canonical_entry(case)
                if want is not None and obs["loaded"] != want:
                    out.append("%s entry %r loaded as %s, expected %s"
                               % (case["format"], case.get("s", case.get("v")), obs["loaded"], want))
                if outside(obs["loaded"], obs["n"]) != bool(obs["issues"]):
                    out.append("loaded cardinality %s with %d children: warning reported=%s"
                               % (obs["loaded"], obs["n"], bool(obs["issues"])))
                for iss in obs["issues"]:
                    if iss[1] != "warning":
                        out.append("cardinality issue has rank %s" % iss[1])
        elif st == "doc":
            out += self.oracle_doc(case, obs)
        elif st == "report":
            for step in obs["trace"]:
                want = outside(obs["card"], step["n"])
                got = bool(step["issues"])
                if want != got:
                    out.append("cardinality %s with %d children: warning reported=%s, expected=%s"
                               % (obs["card"], step["n"], got, want))
                for iss in step["issues"]:
                    if iss[1] != "warning":
                        out.append("cardinality issue has rank %s" % iss[1])
            if obs["refused"]:
                out.append("adding/removing children was refused: %s" % obs["refused"])
            if obs["card_after"] != obs["card"]:
                out.append("cardinality changed by child edits")
            if obs["card"] != case["card"]:
                out.append("valid cardinality %s stored as %s" % (case["card"], obs["card"]))
        elif st in ("parse_text", "parse_list") and "parsed" in obs:
            # what the file readers hand to the constructors: unset or a (min, max) pair (never half
            # converted text, floats, negative numbers, min > max) and exactly the pair for the
            # writers' own form
            if not is_normal(obs["parsed"]) and obs["parsed"] != [None, None]:
                out.append("parsed cardinality %s is not in normal form" % (obs["parsed"],))
            if st == "parse_text":
                want = self.canonical_entry({"format": "XML", "s": case["s"]})
            else:
                want = self.canonical_entry({"format": "JSON", "v": [case["a"], case["b"]]})
            if want is not None and obs["parsed"] != want:
                out.append("entry %r parsed as %s, expected %s"
                           % (case.get("s", [case.get("a"), case.get("b")]), obs["parsed"], want))
        elif st == "persist":
            if obs["stored"] != case["card"]:
                out.append("valid cardinality %s stored as %s" % (case["card"], obs["stored"]))
            if obs["loaded"] != obs["stored"]:
                out.append("%s %s cardinality %s loaded back as %s"
                           % (case["format"], case["kind"], obs["stored"], obs["loaded"]))
        return out

    def oracle_assignment(self, v, obs):
        """The clauses about one assignment (normal form, ValueError, refusal keeps, documented domain)."""
        out = []
        if not is_normal(obs["after"]):
            out.append("stored cardinality %s is not in normal form" % (obs["after"],))
        if obs["outcome"] not in ("ok", "ValueError"):
            out.append("assignment raised %s, not ValueError" % obs["outcome"])
        if obs["outcome"] != "ok" and obs["after"] != obs["before"]:
            out.append("refused assignment changed the setting from %s to %s" % (obs["before"], obs["after"]))
        if not obs["children_kept"]:
            out.append("assignment changed the children")
        # documented accept/refuse domain on the plain shapes
        plain = self.expected_plain(v)
        if plain is not None:
            if plain == "refuse" and obs["outcome"] == "ok":
                out.append("invalid setting %s was accepted as %s" % (json.dumps(v), obs["after"]))
            if plain != "refuse" and (obs["outcome"] != "ok" or obs["after"] != plain[0]):
                out.append("valid setting %s gave %s / %s, expected %s"
                           % (json.dumps(v), obs["outcome"], obs["after"], plain[0]))
        return out

    @staticmethod
    def canonical_entry(case):
        """The cardinality a file entry in the writers' own form stands for (None = no opinion)."""
        if case["format"] == "XML":
            import re
            m = re.match(r"^\((None|[0-9]+), (None|[0-9]+)\)$", case["s"])
            if not m:
                return None
            pair = [None if g == "None" else int(g) for g in m.groups()]
        else:
            pair = case["v"]
            if not (isinstance(pair, list) and len(pair) == 2 and
                    all(x is None or (isinstance(x, int) and not isinstance(x, bool)) for x in pair)):
                return None
        # only what a writer can emit: a stored cardinality, which is in normal form
        # ((0, 0), (0, None), (None, 0) are never stored: the setters normalise them to 'unset')
        return pair if is_normal(pair) and (pair[0] or pair[1]) else None

    def oracle_doc(self, case, obs):
        out = []
        snaps = obs["snaps"]
        first = dict((x["oid"], x) for x in snaps[0]["objs"])
        for want in obs["built"]:
            have = first.get(want["oid"])
            for k in ("prop", "sec", "val"):
                if k in want and (have is None or have[k] != want[k]):
                    out.append("as built: valid %s cardinality %s stored as %s (%s)"
                               % (k, want[k], None if have is None else have[k],
                                  "object missing" if have is None else have["path"]))
        for si, snap in enumerate(snaps):
            where = "after step %d (%s)" % (si, case["steps"][si - 1]["o"]) if si else "as built"
            objs = snap["objs"]
            for o in objs:
                for kind in (("prop", "sec") if o["k"] == "sec" else ("val",)):
                    if not is_normal(o[kind]):
                        out.append("%s: %s %s cardinality %s is not in normal form" % (where, o["path"], kind, o[kind]))
            for name, m in sorted(snap["means"].items()):
                got = {}
                for key, ranks in m["issues"]:
                    got[key] = ranks
                    if key.startswith("?"):
                        out.append("%s, %s validation: a cardinality issue is reported for an object that is "
                                   "not part of the validated document" % (where, name))
                    for r in ranks:
                        if r != "warning":
                            out.append("%s, %s validation: cardinality issue has rank %s" % (where, name, r))
                scope = range(len(objs)) if m["scope"] == "all" else m["scope"]
                for i in scope:
                    o = objs[i]
                    for kind in (("prop", "sec") if o["k"] == "sec" else ("val",)):
                        if not is_normal(o[kind]) or kind not in m.get("kinds", KINDS):
                            continue
                        want = outside(o[kind], o["n_" + kind])
                        have = ("%d:%s" % (i, kind)) in got
                        if want != have:
                            out.append("%s, %s validation: %s%s %s cardinality %s with %d children: warning "
                                       "reported=%s, expected=%s"
                                       % (where, name, o["path"],
                                          " (%s%s)" % (o["ref"], ", merged" if o["merged"] else "") if o.get("ref") else "",
                                          kind, o[kind], o["n_" + kind], have, want))
        for si, (st, rec) in enumerate(zip(case["steps"], obs["steps"])):
            before, after = snaps[si], snaps[si + 1]
            o = st["o"]
            if o in ("add", "remove", "clear", "move"):
                if "raised" in rec:
                    out.append("step %d: %s of a child was refused: %s" % (si + 1, o, rec["raised"]))
                old = dict((x["oid"], x) for x in before["objs"])
                for x in after["objs"]:
                    y = old.get(x["oid"])
                    if y is not None and any(x[k] != y[k] for k in ("prop", "sec", "val") if k in x):
                        out.append("step %d: cardinality of %s changed by a child edit" % (si + 1, x["path"]))
            elif o == "set" and "outcome" in rec:
                for f in self.oracle_assignment(st["v"], dict(rec, children_kept=True)):
                    out.append("step %d: %s" % (si + 1, f))
                old = dict((x["oid"], x) for x in before["objs"])
                for x in after["objs"]:
                    y = old.get(x["oid"])
                    if y is None:
                        continue
                    for k in ("prop", "sec", "val"):
                        if k in x and x[k] != y[k] and not (x["oid"] == rec["oid"] and k == rec["kind"]):
                            out.append("step %d: the assignment changed the %s cardinality of %s"
                                       % (si + 1, k, x["path"]))
                    if any(x[k] != y[k] for k in ("n_prop", "n_sec", "n_val") if k in x):
                        out.append("step %d: the assignment changed the children of %s" % (si + 1, x["path"]))
            elif o == "rt":
                if "raised" in rec:
                    if not before["other_errors"]:
                        out.append("step %d: %s %s of a document without errors failed: %s"
                                   % (si + 1, st["fmt"], rec.get("phase"), rec["raised"]))
                    continue
                new = dict((x["path"], x) for x in after["objs"])
                if len(new) != len(after["objs"]) or len(set(x["path"] for x in before["objs"])) != len(before["objs"]):
                    continue        # ambiguous paths: no comparison
                for y in before["objs"]:
                    x = new.get(y["path"])
                    for k in ("prop", "sec", "val"):
                        if k in y and (x is None or x.get(k) != y[k]) and (x is not None or y[k] is not None):
                            out.append("step %d: %s %s cardinality %s of %s loaded back as %s"
                                       % (si + 1, st["fmt"], k, y[k], y["path"],
                                          "nothing (object missing)" if x is None else x.get(k)))
            elif o == "clone" and "raised" not in rec:
                if [x["k"] for x in before["objs"]] == [x["k"] for x in after["objs"]]:
                    for y, x in zip(before["objs"], after["objs"]):
                        if any(x[k] != y[k] for k in ("prop", "sec", "val") if k in x):
                            out.append("step %d: the clone of %s has another cardinality" % (si + 1, y["path"]))
        return out

    @staticmethod
    def expected_plain(v):
        """Documented behaviour on plain shapes: ints and pairs over None / ints. None = no opinion."""
        def plain_atom(x):
            return x is None or (isinstance(x, int) and not isinstance(x, bool))
        if v is None:
            return [None]
        if isinstance(v, int) and not isinstance(v, bool):
            if v > 0:
                return [[None, v]]
            return [None] if v == 0 else "refuse"
        if isinstance(v, dict) and ("t" in v or "l" in v):
            xs = v.get("t", v.get("l"))
            if len(xs) != 2 or not all(plain_atom(x) for x in xs):
                if len(xs) != 2 and len(xs) > 0:
                    return "refuse"
                return None
            a, b = xs
            if (a is not None and a < 0) or (b is not None and b < 0):
                return "refuse"
            if not a and not b:
                return [None]
            if a == 0 or b == 0:
                return None        # how a lone 0 is normalised is left to the correspondence
            if a is not None and b is not None and a > b > 0:
                return "refuse"
            if not b:
                return [[a, None]]
            if a is None:
                return [[None, b]]
            return [[a, b]]
        return None

    def tag(self, case, obs):
        st = case["stream"]
        if st == "set":
            acc = obs.get("outcome") == "ok"
            return ("set:" + ("accepted" if acc else "refused"), acc and obs.get("after") is not None)
        if st == "report":
            any_issue = any(s["issues"] for s in obs.get("trace", []))
            return ("report:" + ("issue" if any_issue else "none"), any_issue)
        if st == "persist":
            return ("persist:" + case["format"], obs.get("loaded") is not None)
        if st in ("parse_text", "parse_list"):
            return (st + ":" + ("some" if obs.get("parsed") else "none"), bool(obs.get("parsed")))
        if st == "set_seq":
            acc = sum(1 for x in obs.get("steps", []) if x["outcome"] == "ok" and x["after"] is not None)
            return ("set_seq:%s" % ("some" if acc else "none"), acc > 0)
        if st == "load_text":
            return ("load_text:" + case["format"], obs.get("loaded") is not None)
        if st == "set_persist":
            return ("set_persist:%s:%s" % (case["format"], "bool" if has_bool(case["v"]) else "int"),
                    obs.get("loaded") is not None)
        if st == "doc":
            any_issue = any(m["issues"] for snap in obs.get("snaps", []) for m in snap["means"].values())
            refs = any(o.get("ref") for snap in obs.get("snaps", []) for o in snap["objs"])
            return ("doc:%s%s" % ("issue" if any_issue else "none", "+ref" if refs else ""), any_issue)
        return (st, True)


if __name__ == "__main__":
    sys.exit(fw.main(C09(), sys.argv[1:]))
