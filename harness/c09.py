# -*- coding: utf-8 -*-
"""
C09 - Cardinalities: normal form, exact violation reports, never enforced, persisted.

Tie between lean/OdmlModel/Model/Card.lean and /repo (public API only, plus the two
module-level parse_cardinality helpers when they exist).
"""
import itertools
import json
import sys

import framework as fw

KINDS = ["val", "sec", "prop"]
ATTR = {"val": "val_cardinality", "sec": "sec_cardinality", "prop": "prop_cardinality"}
RULE_ID = {"val": "property_values_cardinality", "sec": "section_sections_cardinality",
           "prop": "section_properties_cardinality"}


# ----------------------------------------------------------------------------- encodings
def to_py(enc):
    """JSON encoding of a setting (shared with the Lean driver) -> Python value."""
    if enc is None or isinstance(enc, (bool, int, str)):
        return enc
    if "f" in enc:
        return enc["fv"]
    if "o" in enc:
        return {"k": 1} if enc["o"] else {}
    if "t" in enc:
        return tuple(to_py(x) for x in enc["t"])
    if "l" in enc:
        return [to_py(x) for x in enc["l"]]
    raise ValueError(enc)


def to_model(enc):
    if isinstance(enc, dict) and "f" in enc:
        return {"f": enc["f"]}
    if isinstance(enc, dict) and "t" in enc:
        return {"t": [to_model(x) for x in enc["t"]]}
    if isinstance(enc, dict) and "l" in enc:
        return {"l": [to_model(x) for x in enc["l"]]}
    return enc


def card_out(c):
    """stored cardinality -> JSON ([min, max] with ints, bools mapped to ints)."""
    if c is None:
        return None
    if isinstance(c, tuple) and len(c) == 2:
        return [None if x is None else (int(x) if isinstance(x, int) else repr(x)) for x in c]
    return {"weird": repr(c)}


def make_obj(kind, n):
    """A fresh object of the kind with n children of the counted sort."""
    import odml
    if kind == "val":
        return odml.Property(name="p", values=list(range(n)) if n else None, dtype="int")
    sec = odml.Section(name="s", type="t")
    for i in range(n):
        if kind == "sec":
            odml.Section(name="c%d" % i, type="t", parent=sec)
        else:
            odml.Property(name="c%d" % i, values=[1], parent=sec)
    return sec


def count_children(kind, obj):
    if kind == "val":
        return len(obj.values)
    return len(obj.sections) if kind == "sec" else len(obj.properties)


def add_child(kind, obj, i):
    import odml
    if kind == "val":
        obj.append(100 + i)
    elif kind == "sec":
        obj.append(odml.Section(name="n%d" % i, type="t"))
    else:
        obj.append(odml.Property(name="n%d" % i, values=[1]))


def remove_child(kind, obj):
    if kind == "val":
        obj.remove(obj.values[-1])
    elif kind == "sec":
        obj.remove(obj.sections[-1])
    else:
        obj.remove(obj.properties[-1])


def card_issues(kind, obj):
    """(validation_id name, rank) of the cardinality issues reported for obj by a default validation."""
    import odml
    from odml.validation import Validation
    out = []
    for e in Validation(obj).errors:
        if e.obj is obj and e.validation_id is not None and \
                getattr(e.validation_id, "name", str(e.validation_id)) == RULE_ID[kind]:
            out.append([RULE_ID[kind], e.rank, e.msg])
    return out


def outside(card, n):
    if card is None:
        return False
    lo, hi = card
    return (lo is not None and n < lo) or (hi is not None and n > hi)


def is_normal(card):
    if card is None:
        return True
    if not (isinstance(card, list) and len(card) == 2):
        return False
    lo, hi = card
    for x in (lo, hi):
        if x is not None and not (isinstance(x, int) and x >= 0):
            return False
    if lo is None and hi is None:
        return False
    if lo is not None and hi is not None and lo > hi:
        return False
    return True


# ----------------------------------------------------------------------------- the check
class C09(fw.Check):
    prop = "C09"
    lean_targets = ["OdmlModel.Props.C09"]
    obligations = ["C09." + t for t in [
        "fmt_normal", "set_refused_keeps", "set_accepted", "slot_always_stored", "fmt_domain",
        "fmt_single", "fmt_pair", "report_iff_outside", "report_cause", "never_enforced_add",
        "never_enforced_remove", "history_exact", "stored_fixpoint", "persist_text",
        "persist_list", "persist_end_to_end", "card_keys_in_format"]]
    trusted_base = [
        "Lean 4.33.0 kernel; axioms propext, Classical.choice, Quot.sound only (audited per theorem)",
        "hand-written model lean/OdmlModel/Model/Card.lean, tied to /repo by this correspondence run",
        "harness/extract_tables.py (format._args tables regenerated into Lean on every run)",
        "Driver/*.lean JSON glue; harness/framework.py, harness/c09.py",
        "lxml / json / PyYAML text<->tree (exercised end to end, not modelled)",
    ]
    assumptions = [
        "str.isdigit() is modelled for ASCII digits only; the generated cardinality texts are ASCII",
        "children are counted by len(); adding/removing goes through append/remove",
    ]
    rule = ("exhaustive grid of the property's quantifier: settings {None, bools, ints -1..4, "
            "(a,b)/[a,b] over {None,-1..4}, strings, floats, wrong-length tuples, other objects} "
            "x three kinds x previous setting; stored cards x child counts 0..5 x histories; "
            "stored cards x {XML,JSON,YAML}; plus random big ints and random cardinality texts. "
            "A case is non-trivial when the assignment is accepted with a non-None result, or "
            "the validation reports an issue, or a persisted cardinality is non-None; distinct = "
            "distinct canonical JSON of the case.")

    def extra_exhaustive(self, tier):
        return True

    # -- generation ----------------------------------------------------------
    def settings(self, rng, tier):
        atoms = [None] + list(range(-1, 5))
        out = [None, True, False] + list(range(-1, 5))
        out += [{"t": [a, b]} for a in atoms for b in atoms]
        out += [{"l": [a, b]} for a in atoms for b in atoms]
        out += ["", "1", "(1, 2)", "a"]
        out += [{"f": True, "fv": 0.0}, {"f": False, "fv": 1.0}, {"f": False, "fv": 2.5}]
        out += [{"t": []}, {"t": [1]}, {"t": [1, 2, 3]}, {"l": []}, {"l": [2]}, {"l": [0, 1, 2]}]
        out += [{"o": True}, {"o": False}]
        mixed = [True, False, "", "2", {"f": True, "fv": 0.0}, {"f": False, "fv": 2.0},
                 {"l": []}, {"t": [1, 2]}, {"o": False}]
        for m in mixed:
            for a in (None, 0, 2):
                out.append({"t": [m, a]})
                out.append({"t": [a, m]})
        nbig = 40 if tier == "quick" else 400
        for _ in range(nbig):
            a = rng.choice([None, rng.randrange(0, 10 ** rng.randrange(1, 30))])
            b = rng.choice([None, rng.randrange(0, 10 ** rng.randrange(1, 30))])
            out.append({"t": [a, b]})
            out.append(rng.randrange(1, 10 ** 25))
        return out

    def texts(self, rng, tier):
        base = ["(2, 3)", "(2,3)", " ( 2 , 3 ) ", "(None, 3)", "(3, None)", "(None, None)", "(3, 2)",
                "(2, 2)", "(0, 0)", "(0, 3)", "2, 3", "[2, 3]", "(2; 3)", "(a, 3)", "(-1, 3)",
                "(1, 2, 3)", "()", "(,)", "(2, )", "(none, 3)", "( None ,3)", "(02, 3)", "x",
                " ", "(2, 3) ", "\t(1, 5)\n", "(1.0, 2)", "(+1, 2)", "(1_0, 20)", "((1, 2))"]
        n = 60 if tier == "quick" else 1500
        alpha = ["0", "1", "2", "9", "None", ",", " ", "(", ")", "-", "N", "a", "\t"]
        for _ in range(n):
            base.append("".join(rng.choice(alpha) for _ in range(rng.randrange(0, 9))))
        return base

    def generate(self, tier, rng):
        cases = []
        prevs = [None, {"t": [1, 3]}]
        for kind in KINDS:
            for s in self.settings(rng, tier):
                for prev in prevs:
                    cases.append({"stream": "set", "kind": kind, "prev": prev, "v": s})
        stored = [[None, k] for k in range(1, 5)] + [[k, None] for k in range(1, 5)] + \
                 [[a, b] for a in range(0, 5) for b in range(1, 5) if a <= b]
        for kind in KINDS:
            for c in stored:
                for n in range(0, 6):
                    cases.append({"stream": "report", "kind": kind, "card": c, "n": n,
                                  "history": rng.choice([[], ["add"], ["remove"], ["add", "add", "remove"],
                                                         ["remove", "remove", "add"]])})
        for kind in KINDS:
            for c in stored + [[None, 10 ** 20], [12345678901234567890, None], [7, 10 ** 12]]:
                for fmt in ("XML", "JSON", "YAML"):
                    cases.append({"stream": "persist", "kind": kind, "card": c, "format": fmt})
        for t in self.texts(rng, tier):
            cases.append({"stream": "parse_text", "s": t})
        atoms = [None, True, False, 0, 1, 2, 3, -1, "None", " None ", "2", "", 1.5, 0.0, [], [1]]
        for a in atoms:
            for b in atoms:
                cases.append({"stream": "parse_list", "a": a, "b": b})
        return cases

    # -- implementation ------------------------------------------------------
    def impl(self, case):
        import odml
        st = case["stream"]
        if st == "set":
            kind = case["kind"]
            obj = make_obj(kind, 2)
            if case["prev"] is not None:
                setattr(obj, ATTR[kind], to_py(case["prev"]))
            before = card_out(getattr(obj, ATTR[kind]))
            n_before = count_children(kind, obj)
            try:
                setattr(obj, ATTR[kind], to_py(case["v"]))
                outc = "ok"
            except Exception as exc:
                outc = fw.exc_name(exc)
            # the two-argument convenience setter must agree with the attribute
            return {"outcome": outc, "before": before, "after": card_out(getattr(obj, ATTR[kind])),
                    "children_kept": count_children(kind, obj) == n_before}
        if st == "report":
            kind = case["kind"]
            obj = make_obj(kind, case["n"])
            setattr(obj, ATTR[kind], tuple(case["card"]))
            card = card_out(getattr(obj, ATTR[kind]))
            trace = [{"n": count_children(kind, obj), "issues": card_issues(kind, obj)}]
            refused = []
            for i, op in enumerate(case["history"]):
                try:
                    if op == "add":
                        add_child(kind, obj, i)
                    elif count_children(kind, obj) > 0:
                        remove_child(kind, obj)
                except Exception as exc:
                    refused.append([op, fw.exc_name(exc)])
                trace.append({"n": count_children(kind, obj), "issues": card_issues(kind, obj)})
            return {"card": card, "trace": trace, "refused": refused,
                    "card_after": card_out(getattr(obj, ATTR[kind]))}
        if st == "persist":
            from odml.tools.odmlparser import ODMLWriter, ODMLReader
            kind = case["kind"]
            doc = odml.Document()
            top = odml.Section(name="top", type="t", parent=doc)
            if kind == "val":
                obj = odml.Property(name="p", values=[1, 2], parent=top)
            else:
                obj = top
            setattr(obj, ATTR[kind], tuple(case["card"]))
            stored = card_out(getattr(obj, ATTR[kind]))
            text = ODMLWriter(case["format"]).to_string(doc)
            emitted = self.emitted(kind, case["format"], text)
            doc2 = ODMLReader(case["format"], show_warnings=False).from_string(text)
            obj2 = doc2.sections[0].properties[0] if kind == "val" else doc2.sections[0]
            return {"stored": stored, "emitted": emitted, "loaded": card_out(getattr(obj2, ATTR[kind]))}
        if st == "parse_text":
            try:
                from odml.tools.xmlparser import parse_cardinality
            except ImportError:
                return {"skipped": "xmlparser.parse_cardinality not found"}
            try:
                return {"parsed": card_out(parse_cardinality(case["s"]))}
            except Exception as exc:
                return {"raised": fw.exc_name(exc)}
        if st == "parse_list":
            try:
                from odml.tools.dict_parser import parse_cardinality
            except ImportError:
                return {"skipped": "dict_parser.parse_cardinality not found"}
            try:
                return {"parsed": card_out(parse_cardinality([case["a"], case["b"]]))}
            except Exception as exc:
                return {"raised": fw.exc_name(exc)}
        raise ValueError(st)

    @staticmethod
    def emitted(kind, fmt, text):
        """What the writer put into the file for the cardinality (text for XML, list otherwise)."""
        key = ATTR[kind]
        try:
            if fmt == "XML":
                from lxml import etree
                root = etree.fromstring(text.encode("utf-8"))
                els = root.findall(".//" + key)
                return els[0].text if els else None
            if fmt == "JSON":
                data = json.loads(text)
            else:
                import yaml
                data = yaml.safe_load(text)
            sec = data["Document"]["sections"][0]
            node = sec["properties"][0] if kind == "val" else sec
            return node.get(key)
        except Exception as exc:
            return {"unreadable": fw.exc_name(exc)}

    # -- model ---------------------------------------------------------------
    def model_requests(self, case, obs):
        st = case["stream"]
        P = {"p": "C09"}
        if st == "set":
            return [dict(P, op="set", old=obs["before"], v=to_model(case["v"]))]
        if st == "report":
            return [dict(P, op="issue", c=obs["card"], n=step["n"]) for step in obs["trace"]]
        if st == "persist":
            em = obs["emitted"]
            if case["format"] == "XML" and isinstance(em, str):
                return [dict(P, op="parse_text", s=em),
                        dict(P, op="render", c=obs["stored"]) if obs["stored"] else dict(P, op="parse_text", s="")]
            if isinstance(em, list) and len(em) == 2:
                return [dict(P, op="parse_list", a=em[0], b=em[1])]
            return []
        if st == "parse_text":
            if "skipped" in obs or not case["s"].isascii():
                return []
            return [dict(P, op="parse_text", s=case["s"])]
        if st == "parse_list":
            if "skipped" in obs:
                return []
            a, b = case["a"], case["b"]
            enc = lambda x: ({"o": bool(x)} if isinstance(x, float) else x)
            return [dict(P, op="parse_list", a=enc(a), b=enc(b))]
        return []

    def compare(self, case, obs, answers):
        st = case["stream"]
        out = []
        if st == "set":
            a = answers[0]
            if a["ok"] != (obs["outcome"] == "ok"):
                out.append("model accepted=%s, implementation outcome=%s" % (a["ok"], obs["outcome"]))
            if a["card"] != obs["after"]:
                out.append("model stores %s, implementation stores %s" % (a["card"], obs["after"]))
        elif st == "report":
            for step, a in zip(obs["trace"], answers):
                if (a is not None) != bool(step["issues"]):
                    out.append("model issue=%s, implementation issues=%s at n=%d" % (a, step["issues"], step["n"]))
        elif st == "persist" and answers:
            if answers[0] != obs["loaded"]:
                out.append("model parses emitted %r to %s, implementation loaded %s"
                           % (obs["emitted"], answers[0], obs["loaded"]))
        elif st in ("parse_text", "parse_list") and answers:
            if "raised" in obs:
                pass        # totality of the readers is C16's business
            elif answers[0] != obs["parsed"]:
                out.append("model parses to %s, implementation to %s" % (answers[0], obs["parsed"]))
        return out

    # -- oracle (property over the public API, independent of the model) ------
    def oracle(self, case, obs):
        if "harness_exception" in obs:
            return []
        st = case["stream"]
        out = []
        if st == "set":
            if not is_normal(obs["after"]):
                out.append("stored cardinality %s is not in normal form" % (obs["after"],))
            if obs["outcome"] not in ("ok", "ValueError"):
                out.append("assignment raised %s, not ValueError" % obs["outcome"])
            if obs["outcome"] != "ok" and obs["after"] != obs["before"]:
                out.append("refused assignment changed the setting from %s to %s" % (obs["before"], obs["after"]))
            if not obs["children_kept"]:
                out.append("assignment changed the children")
            v = case["v"]
            # documented accept/refuse domain on the plain shapes
            plain = self.expected_plain(v)
            if plain is not None:
                if plain == "refuse" and obs["outcome"] == "ok":
                    out.append("invalid setting %s was accepted as %s" % (json.dumps(v), obs["after"]))
                if plain != "refuse" and (obs["outcome"] != "ok" or obs["after"] != plain[0]):
                    out.append("valid setting %s gave %s / %s, expected %s"
                               % (json.dumps(v), obs["outcome"], obs["after"], plain[0]))
        elif st == "report":
            for step in obs["trace"]:
                want = outside(obs["card"], step["n"])
                got = bool(step["issues"])
                if want != got:
                    out.append("cardinality %s with %d children: warning reported=%s, expected=%s"
                               % (obs["card"], step["n"], got, want))
                for iss in step["issues"]:
                    if iss[1] != "warning":
                        out.append("cardinality issue has rank %s" % iss[1])
            if obs["refused"]:
                out.append("adding/removing children was refused: %s" % obs["refused"])
            if obs["card_after"] != obs["card"]:
                out.append("cardinality changed by child edits")
            if obs["card"] != case["card"]:
                out.append("valid cardinality %s stored as %s" % (case["card"], obs["card"]))
        elif st == "persist":
            if obs["stored"] != case["card"]:
                out.append("valid cardinality %s stored as %s" % (case["card"], obs["stored"]))
            if obs["loaded"] != obs["stored"]:
                out.append("%s %s cardinality %s loaded back as %s"
                           % (case["format"], case["kind"], obs["stored"], obs["loaded"]))
        return out

    @staticmethod
    def expected_plain(v):
        """Documented behaviour on plain shapes: ints and pairs over None / ints. None = no opinion."""
        def plain_atom(x):
            return x is None or (isinstance(x, int) and not isinstance(x, bool))
        if v is None:
            return [None]
        if isinstance(v, int) and not isinstance(v, bool):
            if v > 0:
                return [[None, v]]
            return [None] if v == 0 else "refuse"
        if isinstance(v, dict) and ("t" in v or "l" in v):
            xs = v.get("t", v.get("l"))
            if len(xs) != 2 or not all(plain_atom(x) for x in xs):
                if len(xs) != 2 and len(xs) > 0:
                    return "refuse"
                return None
            a, b = xs
            if (a is not None and a < 0) or (b is not None and b < 0):
                return "refuse"
            if not a and not b:
                return [None]
            if a == 0 or b == 0:
                return None        # how a lone 0 is normalised is left to the correspondence
            if a is not None and b is not None and a > b > 0:
                return "refuse"
            if not b:
                return [[a, None]]
            if a is None:
                return [[None, b]]
            return [[a, b]]
        return None

    def tag(self, case, obs):
        st = case["stream"]
        if st == "set":
            acc = obs.get("outcome") == "ok"
            return ("set:" + ("accepted" if acc else "refused"), acc and obs.get("after") is not None)
        if st == "report":
            any_issue = any(s["issues"] for s in obs.get("trace", []))
            return ("report:" + ("issue" if any_issue else "none"), any_issue)
        if st == "persist":
            return ("persist:" + case["format"], obs.get("loaded") is not None)
        if st in ("parse_text", "parse_list"):
            return (st + ":" + ("some" if obs.get("parsed") else "none"), bool(obs.get("parsed")))
        return (st, True)


if __name__ == "__main__":
    sys.exit(fw.main(C09(), sys.argv[1:]))
