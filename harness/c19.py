# -*- coding: utf-8 -*-
"""
C19 - Validation observes only: no side effects, repeatable, custom rules stay private.

Tie between lean/OdmlModel/Model/Registry.lean (+ Model/Valid.lean) and /repo/odml/validation.py,
property.py, section.py, tools/odmlparser.py.

Streams
  history : a document x a random history of default validations, reset validations with added
            rules, explicit global registrations, object creation, cardinality changes, value
            assignment, saves and loads.  After every step: the class-level registry
            (klass -> sorted handler names); at every validation step: the issue multiset, the
            multiset of an immediate re-run, and a deep snapshot of all objects before/after.
  perm    : the default rules applied in two different orders (handler sets replaced by lists).
  xproc   : the same documents validated here and in a fresh interpreter with another
            PYTHONHASHSEED (and, every other batch, another locale / text encoding default).
  wide    : the history executor over the wider quantifier (added after seeded round 2):
            documents with unresolved / resolved links and includes, deeper trees, non-ASCII values;
            validations of the Document, of a Section and of a Property, started as Validation(obj),
            Document.validate(), Validation(obj, validate=False) + run_validation(), or handler by
            handler through Validation.validate(obj); loads and saves through every entry point
            (odml.load / odml.save, fresh and re-used ODMLReader / ODMLWriter objects, from_file vs
            from_string, XMLReader / DictReader directly, quiet and loud, all four formats, good files
            and every kind of refused file, unwritable targets); constructor / helper / clone spellings
            of object creation incl. refused ones; every cardinality argument shape incl. refused
            ones; attribute and value edits between two runs of the same Validation object; link
            resolution; user rules that raise; the library's non-default rules.  Steps the Lean model
            has no macro for are checked by the oracle only (the model keeps its registry over them).
            Since seeded round 3 a second batch of wide cases runs over documents that name repositories
            (on the Document, on Sections, inherited) of terminologies the case brings along, with the
            on-demand terminology rules registered often, repository edits and "another document is
            validated in between" steps; what the two terminology rules have to report is restated by
            the harness from its own copy of the terminologies (no library state shared).
  terms   : (added after seeded round 3, oracle-only) histories over SEVERAL documents in one process:
            2-5 small documents x 2-4 terminologies (in odml's table, behind a file:// URL, unreachable;
            repositories on the Document / on a Section / inherited / none; Section types in several
            spellings, absent from the terminology, twice in it; twin documents that differ in the
            repository only); validations of a Document, a Section, a Property with a reset Validation
            holding the terminology rules (+ user rules of several callable shapes, default rules), with
            Validation(obj) / Document.validate() after the rules have been registered globally; the same
            Validation object run again after an edit of a repository, a type, a name, after its object
            moved to another document or left it; clones with and without keep_id into another
            document; round trips through a writer and a reader.  Per validation: objects (all documents
            and the terminologies) unchanged, re-run equal, registry unchanged, issues = the restated
            rules.  In the end every document is validated once more, twice, in both orders.
  termsx  : batches of terms histories here and in a fresh interpreter that performs the edits but none
            of the earlier validations and looks at the histories and their documents in the opposite
            order (other PYTHONHASHSEED, every third batch another locale): same final issues.
  (added after seeded round 5)  a second batch of terms / termsx / wide cases whose terminologies are FILES
            the library loads itself and that end at every stage of loading: unreachable, not UTF-8, not
            XML, wrong root, no / old format version (loads as nothing), a refused Property or unknown
            attribute (dropped by the lenient reader), links that resolve (absolute, relative, to a linking
            Section, to itself) or dangle (the load fails after parsing), includes of an earlier file of the
            case (with / without path, dangling path, unreachable file, a file that is itself broken or
            unloadable); repositories handed over as constructor arguments (nothing is fetched before the
            first validation) as well as through the setters (loader thread); between two validations the
            loader is entered through its other doors (terminology.load, get_terminology_equivalent,
            Document.finalize, a Section that includes a terminology) and loaded terminologies are validated
            themselves.  The harness's copy of a terminology "as loaded" resolves links and includes on its
            own objects (term_document(resolve=True)); a terminology that cannot be loaded holds no type.
  loader  : (round 5, correspondence with Model/TermLoad.lean) files x sequences of terminology.load /
            deferred_load / the two on-demand rules run by a reset Validation: outcome of every load (Document,
            None, raises), the Documents the table of loaded terminologies holds after every step, number of
            warnings; oracle: the same file loads the same way and the same rule reports the same, whatever
            entered the loader in between.
"""
import io
import json
import os
import re
import shutil
import subprocess
import sys
import tempfile

import framework as fw
import c08

KLASSES = ["odML", "section", "property"]


# ----------------------------------------------------------------------------- user rules
def custom_1(obj):
    from odml.validation import ValidationError, IssueID, LABEL_WARNING
    yield ValidationError(obj, "c1", LABEL_WARNING, IssueID.custom_validation)


def custom_2(obj):
    from odml.validation import ValidationError, IssueID, LABEL_ERROR
    name = getattr(obj, "name", None)
    if isinstance(name, str) and name.startswith("a"):
        yield ValidationError(obj, "c2", LABEL_ERROR, IssueID.custom_validation)


def custom_3(obj):
    return
    yield  # pragma: no cover


def custom_4(obj):
    """A user rule that fails on some objects (names starting with 'b'); oracle-only."""
    from odml.validation import ValidationError, IssueID, LABEL_WARNING
    name = getattr(obj, "name", None)
    if isinstance(name, str) and name.startswith("b"):
        raise ValueError("user rule failed")
    yield ValidationError(obj, "c4", LABEL_WARNING, IssueID.custom_validation)


class UserRules(object):
    """Other shapes a user rule may have (round 3): a bound method, a functools.partial, a callable
    object without a __name__, a plain function that returns a list.  Oracle-only, reset objects only."""

    def method(self, obj):
        from odml.validation import ValidationError, IssueID, LABEL_WARNING
        yield ValidationError(obj, "c5", LABEL_WARNING, IssueID.custom_validation)

    def __call__(self, obj):
        from odml.validation import ValidationError, IssueID, LABEL_ERROR
        return [ValidationError(obj, "c7", LABEL_ERROR, IssueID.custom_validation)]


def custom_8(obj):
    from odml.validation import ValidationError, IssueID, LABEL_WARNING
    if getattr(obj, "name", None) in ("zp", "Duration", "a"):
        return [ValidationError(obj, "c8", LABEL_WARNING, IssueID.custom_validation)] * 2
    return ()


_USER_RULES = UserRules()
CUSTOM = {1: custom_1, 2: custom_2, 3: custom_3, 4: custom_4, 5: _USER_RULES.method,
          6: __import__("functools").partial(custom_1), 7: _USER_RULES, 8: custom_8}
# rules the library ships but does not register by default ("should be added on demand");
# the Lean model does not know them: histories using them are decided by the oracle alone
EXTRA_RULES = {"section": ["section_repository_present"], "property": ["property_terminology_check"]}
# default rule functions a user may add to a reset validation, per class (kind-correct)
RULES_FOR = {"odML": ["object_required_attributes", "section_unique_name_type", "document_unique_ids"],
             "section": ["object_name_readable", "section_type_must_be_defined", "property_unique_names",
                         "section_sections_cardinality", "section_properties_cardinality",
                         "object_required_attributes", "section_unique_name_type"],
             "property": ["object_name_readable", "property_values_cardinality", "property_values_check",
                          "property_dependency_check", "object_required_attributes",
                          "property_values_string_check"]}


def handler_func(h):
    from odml import validation
    if "c" in h:
        return CUSTOM[h["c"]]
    if "x" in h:
        return getattr(validation, h["x"])
    return getattr(validation, h["r"])


def handler_modelled(h):
    return ("c" in h and h["c"] <= 3) or "r" in h


def registry_names():
    from odml.validation import Validation
    out = dict((k, sorted(getattr(f, "__name__", repr(f)) for f in Validation._handlers.get(k, ())))
               for k in KLASSES)
    for k in sorted(Validation._handlers, key=repr):
        # rules filed under any other key (never the case on the unchanged tree) are a change too
        if k not in out and Validation._handlers[k]:
            out[str(k)] = sorted(getattr(f, "__name__", repr(f)) for f in Validation._handlers[k])
    return out


def registry_copy():
    from odml.validation import Validation
    return dict((k, set(v)) for k, v in Validation._handlers.items())


def registry_restore(saved):
    from odml.validation import Validation
    Validation._handlers.clear()
    for k, v in saved.items():
        Validation._handlers[k] = set(v)


# ----------------------------------------------------------------------------- snapshots
def deep_snapshot(root):
    """Everything the format of each object names, read through the public attributes."""
    def attrs(obj):
        out = {}
        fmt = obj.format()
        for key in fmt.arguments_keys:
            name = fmt.map(key)
            if name in ("sections", "properties"):
                continue
            try:
                val = getattr(obj, name)
            except Exception as exc:
                val = "raises " + fw.exc_name(exc)
            out[name] = repr(val)
        return out

    def prop(p):
        d = attrs(p)
        d["#values"] = [repr(v) for v in p.values]
        d["#parent"] = None if p.parent is None else p.parent.id
        return d

    def sec(s):
        d = attrs(s)
        d["#parent"] = None if s.parent is None else s.parent.id
        d["#props"] = [prop(p) for p in s.properties]
        d["#secs"] = [sec(c) for c in s.sections]
        return d
    name = root.format().name
    if name == "property":
        return prop(root)
    if name == "section":
        return sec(root)
    d = attrs(root)
    d["#secs"] = [sec(c) for c in root.sections]
    return d


def full_snapshot(doc, extra=()):
    """deep_snapshot plus, independently of it, what a writer would put into a file now (the writers'
    to_string does not validate).  `extra`: validated objects that are not (or no longer) in doc."""
    out = {"deep": deep_snapshot(doc), "extra": [deep_snapshot(o) for o in extra]}
    try:
        try:
            from odml.tools.dict_parser import DictWriter
            out["file"] = repr(DictWriter().to_dict(doc))       # what the JSON / YAML writers dump
        except ImportError:
            from odml.tools.odmlparser import ODMLWriter
            out["file"] = ODMLWriter("JSON").to_string(doc)
    except Exception as exc:
        out["file"] = "raises " + fw.exc_name(exc)
    return out


class Scratch(object):
    """A scratch directory that is only created when a case writes a file."""

    def __init__(self):
        self.path = None

    def __call__(self):
        if self.path is None:
            self.path = tempfile.mkdtemp(prefix="c19_")
        return self.path

    def remove(self):
        if self.path is not None:
            shutil.rmtree(self.path, ignore_errors=True)


def walk(root):
    """The objects a validation of root visits (own traversal): (klass, object).  A Property is
    visited alone; of a Section that is the root its own Properties are not visited (C08)."""
    name = root.format().name
    if name == "property":
        return [("property", root)]
    out = [("odML" if name == "odML" else "section", root)]
    stack = list(root.sections)
    while stack:
        s = stack.pop(0)
        out.append(("section", s))
        for p in s.properties:
            out.append(("property", p))
        stack.extend(s.sections)
    return out


def apply_directly(table, root, refs):
    """Issues the handlers of `table` (klass -> iterable of functions) yield over the walk."""
    out = []
    for klass, obj in walk(root):
        for h in table.get(klass, ()):
            for e in h(obj):
                out.append(e)
    return c08.issue_list(out, refs)


# ----------------------------------------------------------------------------- terminologies
# (added after seeded round 3)  Documents may name a repository - on the Document, on a Section, or
# inherited - and the two rules the library ships "for use on demand" look the Section type / the
# Property name up in the terminology found there.  A case brings its own terminologies:
#   mem     : put into odml's table of loaded terminologies (what the library's own tests do)
#   file    : an XML file of the case's scratch directory behind a file:// URL, loaded by the library
#   missing : a URL nothing can be loaded from
# The harness keeps its OWN copy of every terminology document (_TERMS): what the two rules have to
# report is restated from it below, without calling anything of odml.validation / odml.terminology,
# so that no state the library keeps between validations can be shared with the expectation.
_TERMS = {}             # url -> the harness's copy of the terminology Document (None: unreachable)
_TERM_FILES = []        # base names of terminology files of this case (the loader caches copies)


# (added after seeded round 5)  What a terminology FILE can be, beyond a well-formed document: the loader
# fetches it, decodes it, parses it, and then resolves the links and includes of what it has parsed; each
# of these stages can fail, and a later validation must find whatever the failed load has left behind.
#   broken : the file cannot be decoded / parsed / has no or an old format version -> loads as nothing
#   soft   : the file holds something the lenient reader drops (a refused Property, an unknown
#            attribute): the rest is the terminology
#   Sections with a "link" (a path inside the file: resolvable, dangling, to itself, to another linking
#   Section) or an "include" ({"key": an EARLIER terminology of the case or None = unreachable file,
#   "path": a path in it, none, a dangling one}).
# The harness's own copy (_TERMS) is the document "as loaded": links resolved by the same Section.link
# setter on the harness's own objects, includes merged from the harness's copy of the other terminology -
# no table, no cache, no loader of odml.terminology involved.
UNLOADABLE = "unloadable"    # fetched and parsed, but its links cannot be resolved: nothing is loaded
UNKNOWN = "unknown"          # the harness cannot tell what the loaded document looks like
BROKEN_FILES = ["syntax", "wrongroot", "noversion", "oldversion", "empty", "binary", "notxml", "latin1"]
SOFT_FILES = ["badprop", "unknown_attr"]


class _Unknown(Exception):
    pass


def include_url(inc, urls, token):
    if inc.get("key") is None:
        url = "file:///nonexistent/c19inc_%s.xml" % token
        _TERMS.setdefault(url, None)
        return url
    return urls.get(inc["key"], "file:///nonexistent/c19inc_%s_%s.xml" % (token, inc["key"]))


def term_document(secs, urls=None, token=0, resolve=False):
    """The terminology document of a spec.  Without links / includes in the spec: the plain document
    (all earlier rounds).  resolve=False: linking / including Sections as they are written into the
    file (unresolved, public constructor arguments).  resolve=True: the harness's copy of what a
    loader has to hand over - raises ValueError where the links cannot be resolved, _Unknown where the
    harness cannot tell."""
    import odml
    doc = odml.Document()
    own = set()

    def mk(spec, parent):
        kw = {}
        if spec.get("link") is not None:
            kw["link"] = spec["link"]
        elif spec.get("include") is not None and not resolve:
            inc = spec["include"]
            kw["include"] = include_url(inc, urls or {}, token) + ("#" + inc["path"] if inc.get("path") else "")
        sec = odml.Section(name=spec["name"], type=spec["type"], parent=parent, **kw)
        if spec.get("include") is not None and resolve:
            sec._c19_inc = spec["include"]       # survives Section.clone (a merge clones its target)
            own.add(id(sec))
        for name in spec.get("props", []):
            odml.Property(name=name, parent=sec)
        for sub in spec.get("subs", []):
            mk(sub, sec)
    for spec in secs:
        mk(spec, doc)
    if resolve:
        # the order of Document.finalize: every Section, recursively, first its link then its include
        for sec in doc.itersections(recursive=True):
            if sec.link is not None:
                sec.link = sec.link
            inc = getattr(sec, "_c19_inc", None)
            if inc is not None:
                if id(sec) not in own or sec.link is not None:
                    raise _Unknown()         # an including Section that has been copied by a merge
                own.discard(id(sec))
                resolve_include(sec, inc, urls or {}, token)
    return doc


def resolve_include(sec, inc, urls, token):
    """What the include attribute means, on the harness's own objects: the Section at the path (the
    first Section without a path) of the other, loaded, terminology is merged into the including one;
    no such file / Section: nothing happens."""
    from odml.section import BaseSection
    url = include_url(inc, urls, token)
    if url not in _TERMS or _TERMS[url] is UNKNOWN:
        raise _Unknown()
    other = _TERMS[url]
    if other is UNLOADABLE:
        raise ValueError("the included terminology cannot be loaded")
    if other is None:
        return
    target = None
    if inc.get("path"):
        try:
            target = other.get_section_by_path(inc["path"])
        except ValueError:
            target = None
        if not isinstance(target, BaseSection):
            target = None
    elif len(other.sections):
        target = other.sections[0]
    if target is not None:
        sec.merge(target, strict=False)


def spec_has_refs(secs):
    return any(s.get("link") is not None or s.get("include") is not None or spec_has_refs(s.get("subs", []))
               for s in secs)


def term_file_data(t, urls, token):
    """The content of the terminology file of spec t (text, or bytes for what is no text)."""
    from odml.tools.odmlparser import ODMLWriter
    text = ODMLWriter("XML").to_string(term_document(t["secs"], urls, token))
    kind = t.get("broken") or t.get("soft")
    if kind == "syntax":
        return text[:max(20, len(text) * 2 // 3)]
    if kind == "wrongroot":
        return text.replace("<odML", "<odMX", 1).replace("</odML>", "</odMX>")
    if kind == "noversion":
        return re.sub(r'(<odML) version="[^"]*"', r"\1", text, count=1)
    if kind == "oldversion":
        return re.sub(r'(<odML) version="[^"]*"', r'\1 version="1"', text, count=1)
    if kind == "empty":
        return ""
    if kind == "binary":
        return b"\xff\xfe\x00\x01 not a text \x80\x81"
    if kind == "notxml":
        return "Document:\n  sections: []\nodml-version: '1.1'\n"
    if kind == "latin1":
        return text.replace("<section>", "<section><definition>\u00dcber</definition>", 1).encode("latin-1")
    if kind == "badprop":
        return text.replace("<section>", "<section><property><name>c19bad</name><value>[abc]</value>"
                            "<type>int</type></property>", 1)
    if kind == "unknown_attr":
        return text.replace("<section>", "<section><colour>red</colour>", 1)
    return text


def harness_copy(t, urls, token):
    if t.get("broken"):
        return None
    if not spec_has_refs(t["secs"]):
        return term_document(t["secs"])
    try:
        return term_document(t["secs"], urls, token, resolve=True)
    except _Unknown:
        return UNKNOWN
    except ValueError:
        return UNLOADABLE
    except Exception:
        return UNKNOWN


def register_terms(terms, token, tmp):
    """-> {key: url}.  Must run before a document that names one of them is built: the repository
    setter starts a loader thread for every URL that is not in the table yet."""
    import odml.terminology
    urls = {}
    for t in terms or []:
        kind = t.get("kind", "mem")
        if kind == "file" and tmp is None:
            kind = "mem"
        if kind == "missing":
            url = t.get("url") or "file:///nonexistent/c19term_%s_%s.xml" % (token, t["key"])
            _TERMS[url] = None
        elif kind == "file":
            name = "c19term_%s_%s_%d.xml" % (token, t["key"], os.getpid())
            path = os.path.join(tmp(), name)
            data = term_file_data(t, urls, token)
            if isinstance(data, bytes):
                with open(path, "wb") as fh:
                    fh.write(data)
            else:
                with io.open(path, "w", encoding="utf-8") as fh:
                    fh.write(data)
            url = "file://" + path
            _TERMS[url] = harness_copy(t, urls, token)
            _TERM_FILES.append(name)
        else:
            url = "c19term://%s/%s.xml" % (token, t["key"])
            odml.terminology.terminologies[url] = term_document(t["secs"])
            _TERMS[url] = term_document(t["secs"])
        urls[t["key"]] = url
    for url in REPO_EDITS:
        if url:
            _TERMS.setdefault(url, None)       # the repositories edits switch to: nothing to load there
    return urls


def nested_terms(terms):
    """Does a terminology FILE of the case include another terminology of the case?"""
    def inc(secs):
        return any((s.get("include") or {}).get("key") is not None or inc(s.get("subs", [])) for s in secs)
    return any(t.get("kind") == "file" and inc(t.get("secs", [])) for t in terms or [])


def settle(base_threads):
    """Waits for the loader threads the case has started so far.

    (round 5 follow-up)  Only used by histories with NESTED terminology files.  There the unchanged library
    has a race that made the verdict depend on the scheduler (found by the thorough tier under load, see
    design.d/C19.md and corpus/C19/race_concurrent_load_of_one_terminology.py): terminology.load(X) called
    in the main thread runs unregistered, so the loader thread of a file that includes X starts a second,
    concurrent load of X, which can read the half written cache copy of the first and enter None into the
    table for good.  Whether that happens must not decide a verdict: such histories let the loader threads
    finish after every step that can start one (a well-defined schedule: at most one load of a URL at a
    time).  All other histories keep their loader threads in flight as before."""
    import threading
    for thread in threading.enumerate():
        if thread not in base_threads and thread is not threading.current_thread():
            thread.join(300)


def unregister_terms(before_threads=()):
    """Takes the case's terminologies out of the library's table again, waits for the loader threads
    the case has started and removes the copies the loader has cached."""
    import threading
    for thread in threading.enumerate():
        if thread not in before_threads and thread is not threading.current_thread():
            thread.join(10)
    try:
        import odml.terminology as ot
        for url in list(_TERMS):
            ot.terminologies.pop(url, None)
            ot.terminologies.loading.pop(url, None)
    except Exception:
        pass
    _TERMS.clear()
    cache = os.path.join(tempfile.gettempdir(), "odml.cache")
    while _TERM_FILES:
        name = _TERM_FILES.pop()
        try:
            for entry in os.listdir(cache):
                if entry.endswith("." + name):
                    os.remove(os.path.join(cache, entry))
        except OSError:
            pass


def effective_repository(sec):
    """The repository attribute of the Section or, if it has none, of the nearest parent that has."""
    obj = sec
    while obj is not None:
        repo = getattr(obj, "repository", None)
        if repo is not None:
            return repo
        obj = getattr(obj, "parent", None)
    return None


def term_lookup(sec):
    """-> (state, terminology Section): norepo | unreachable | unloadable | absent | found, or unknown when the
    harness cannot tell (a URL that is not the case's, a type that is not a non-empty string: what
    'the Section type is present in the terminology' means for those the property does not say)."""
    repo = effective_repository(sec)
    if repo is None:
        return "norepo", None
    if repo not in _TERMS:
        return "unknown", None
    term = _TERMS[repo]
    if term is None:
        return "unreachable", None
    if term is UNKNOWN:
        return "unknown", None
    if term is UNLOADABLE:
        return "unloadable", None
    typ = sec.type
    if not isinstance(typ, str) or not typ:
        return "unknown", None
    stack = list(term.sections)
    while stack:                       # document order: a Section before its sub-Sections
        t = stack.pop(0)
        if not isinstance(t.type, str):
            return "unknown", None
        if t.type.lower() == typ.lower():
            return "found", t
        stack = list(t.sections) + stack
    return "absent", None


def restated_extra(name, obj):
    """What one of the two on-demand rules has to report on obj: number of warnings, or None if the
    harness cannot tell."""
    if name == "section_repository_present":
        state, _t = term_lookup(obj)
        if state == "unknown":
            return None
        # a terminology that cannot be loaded (round 5: fetched, but its links cannot be resolved) holds
        # no type for the rule, like one that cannot be fetched
        return 0 if state == "found" else 1
    if name == "property_terminology_check":
        if obj.parent is None:
            return 0
        state, t = term_lookup(obj.parent)
        if state in ("unknown", "unloadable"):
            # unloadable: the property does not say whether this rule reports nothing or fails (the
            # unchanged library lets the loader's exception through); the weaker reading is taken: the
            # rule's own answer, which then has to be the same on every run
            return None
        if state != "found":
            return 0
        return 0 if any(p.name == obj.name for p in t.properties) else 1
    return None


def expected_of(funcs, klass, obj):
    """The issues the given rule functions have to yield on one object: the on-demand terminology
    rules restated, every other rule by calling it."""
    from odml import validation
    out = []
    for h in funcs:
        name = getattr(h, "__name__", "")
        if name in EXTRA_RULES.get(klass, ()) and getattr(validation, name, None) is h:
            n = restated_extra(name, obj)
            if n is not None:
                vid = getattr(validation.IssueID, name)
                out.extend([Expected(obj, vid, validation.LABEL_WARNING)] * n)
                continue
        out.extend(h(obj))
    return out


class Expected(object):
    """An issue the harness expects (same three fields c08.issue_list reads)."""

    def __init__(self, obj, validation_id, rank):
        self.obj = obj
        self.validation_id = validation_id
        self.rank = rank


def expected_issues(table, root, refs):
    out = []
    for klass, obj in walk(root):
        out.extend(expected_of(table.get(klass, ()), klass, obj))
    return c08.issue_list(out, refs)


# ----------------------------------------------------------------------------- generation
ZZ = {"id": "zz", "name": "zz", "type": "t", "sc": None, "pc": None, "subs": [],
      "props": [{"id": "zp", "name": "zp", "dtype": "int", "values": [{"i": 1}], "raw": False, "card": None}]}


# strings on which several of the string-dtype hints of property_values_string_check apply at once
# (the report must not depend on the order in which a process happens to try them)
MULTI = ["True\nand more", "t\nx", "FALSE\n1", "(0.5; 1.5)\nsecond line", "f\n(1;2)", "True (1;2)",
         "(a)\n12", "t 12:30", "False\r\n2020-01-02"]


def multi_doc(rng):
    """A document whose string Properties hold values several string-dtype hints apply to."""
    ids = c08.id_source(rng, 0.0)
    props = []
    for i, text in enumerate(rng.sample(MULTI, 5)):
        vals = [{"s": text}] + ([{"s": rng.choice(MULTI)}] if rng.random() < 0.4 else [])
        props.append({"id": ids(), "name": "m%d" % i, "dtype": "string", "values": vals, "raw": False,
                      "card": None})
    sec = {"id": ids(), "name": "multi", "type": "t", "sc": None, "pc": None, "subs": [], "props": props}
    return {"id": ids(), "secs": [sec, json.loads(json.dumps(ZZ))]}


def gen_doc(rng, dirt):
    ids = c08.id_source(rng, 0.1 if dirt else 0.0)
    secs = []
    for _ in range(rng.choice([0, 1, 2])):
        secs.append(c08.gen_sec(rng, ids, rng.choice([0, 1]), c08.STRS[:30] + MULTI, dirt, [x["name"] for x in secs]))
    doc = {"id": ids(), "secs": secs + [json.loads(json.dumps(ZZ))]}
    # the one documented way to make a rule raise (C08: unreadable tuple length) is kept out
    def clean(sec):
        for p in sec["props"]:
            d = p.get("dtype")
            if isinstance(d, str) and d.endswith("-tuple") and not d[:-6].isdigit():
                p["dtype"] = "2-tuple"
        for c in sec["subs"]:
            clean(c)
    for sec in doc["secs"]:
        clean(sec)
    return doc


def gen_handler(rng, klass):
    if rng.random() < 0.55:
        return {"c": rng.choice([1, 1, 2, 3])}
    return {"r": rng.choice(RULES_FOR[klass])}


def gen_history(rng, tier):
    acts = []
    users = []          # (handle, reset)
    n = rng.randrange(4, 14)
    for _ in range(n):
        r = rng.random()
        if r < 0.18 or not users:
            u = len(users)
            if rng.random() < 0.5:
                users.append((u, True))
                acts.append({"t": "new", "u": u, "reset": True, "quiet": rng.random() < 0.5})
            else:
                users.append((u, False))
                acts.append({"t": "default", "u": u})
        elif r < 0.40:
            resets = [u for u, rs in users if rs]
            if resets and rng.random() < 0.92:
                u = rng.choice(resets)
            else:
                u = rng.choice(users)[0]
            k = rng.choice(KLASSES)
            acts.append({"t": "custom", "u": u, "k": k, "h": gen_handler(rng, k)})
        elif r < 0.58:
            acts.append({"t": rng.choice(["run", "run", "report"]), "u": rng.choice(users)[0]})
        elif r < 0.62:
            k = rng.choice(KLASSES)
            acts.append({"t": "global", "k": k, "h": gen_handler(rng, k)})
        else:
            m = rng.choice(["constructSection", "constructProperty", "constructPropertyValues",
                            "setSecCardinality", "setPropCardinality", "setValCardinality",
                            "assignValues", "save", "load", "defaultValidation", "customValidation"])
            acts.append({"t": "lib", "m": m, "arg": rng.randrange(0, 6),
                         "fmt": rng.choice(["XML", "JSON", "YAML"])})
    # make sure validations are looked at in the end
    for u, _rs in users[:3]:
        acts.append({"t": "run", "u": u})
    u = len(users)
    acts.append({"t": "default", "u": u})
    return acts


# ----------------------------------------------------------------------------- wide stream
INC_MARK = "@INC"          # placeholder of the include URL (a file of the case's scratch directory)
TERM_MARK = "@TERM:"       # placeholder of the URL of one of the case's terminologies
NONASCII = ["\u0661\u0662", "na\u00efve", "a\u2028b", "\u540d\u524d", "x\x85y", "\ud800x"]


def build_doc(spec, inc_url="file:///nonexistent/c19inc.xml", tmp=None):
    """c08.build plus the linking / including Sections of spec["links"], created through the
    public constructor arguments (the state of a freshly built or loaded document: not resolved)."""
    import odml
    if spec.get("terms"):
        # round 3: the document names repositories ("@TERM:<key>" in the spec) of its own terminologies
        urls = register_terms(spec["terms"], spec.get("token", 0), tmp)

        def subst(node):
            if isinstance(node, dict):
                return dict((k, subst(v)) for k, v in node.items())
            if isinstance(node, list):
                return [subst(v) for v in node]
            if isinstance(node, str) and node.startswith(TERM_MARK):
                return urls.get(node[len(TERM_MARK):], node[len(TERM_MARK):])
            return node
        spec = subst(spec)
    doc, bt = c08.build({"kind": "doc", "node": spec})
    if spec.get("repo") is not None:
        doc.repository = spec["repo"]
    for ln in spec.get("links", []):
        parent = doc
        for i in ln.get("at", []):
            if len(parent.sections):
                parent = parent.sections[i % len(parent.sections)]
        kw = {}
        if ln.get("include"):
            kw["include"] = ln["include"].replace(INC_MARK, inc_url)
        else:
            kw["link"] = ln["link"]
        if ln.get("pc") is not None:
            kw["prop_cardinality"] = tuple(ln["pc"])
        odml.Section(name=ln["name"], type=ln.get("type", "t"), oid=c08.tok_id(ln["id"]), parent=parent, **kw)
    return doc, bt


def has_include(doc):
    return any(s.include is not None for s in doc.itersections(recursive=True))


def rdf_safe(doc):
    """The RDF writer resolves the links and includes of the document it is given (Document.finalize).
    Includes would fetch; and (round 5, found by the thorough tier) a link to the own ancestor or into a
    subtree that holds a link sends finalize into an unbounded recursion of merges - on the unchanged
    library, whatever is validated: the business of the link properties.  Histories can build such
    documents (clones appended below their link target); those are not handed to the RDF writer."""
    if has_include(doc):
        return False
    try:
        for sec in doc.itersections(recursive=True):
            if sec.link is None:
                continue
            try:
                target = sec.get_section_by_path(sec.link)
            except Exception:
                continue
            node = sec
            while node is not None:
                if node is target:
                    return False
                node = getattr(node, "parent", None)
            if not hasattr(target, "itersections"):
                continue
            if getattr(target, "link", None) is not None \
                    or any(sub.link is not None for sub in target.itersections(recursive=True)):
                return False
    except Exception:
        return False
    return True


def gen_links(rng, doc, ids, n):
    tops = [s["name"] for s in doc["secs"] if s["name"] not in ("", "=id", None)]
    out = []
    for k in range(n):
        at = [] if rng.random() < 0.6 or len(doc["secs"]) < 2 else [rng.randrange(len(doc["secs"]) - 1)]
        ln = {"id": ids(), "name": "ln%d" % k, "type": rng.choice(["t", "t", "u", "n.s."]), "at": at,
              "pc": rng.choice([None, None, [1, None], [2, None], [None, 1], [1, 1]])}
        r = rng.random()
        if r < 0.12:
            ln["include"] = INC_MARK + rng.choice(["", "#/s", "#/nope"])
        else:
            # never the own ancestor: a nested linking Section sits below one of secs[:-1], "zz" is last
            others = [t for i, t in enumerate(tops) if not at or i != at[0] % len(doc["secs"])]
            target = rng.choice(others + ["zz", "zz"]) if others else "zz"
            if r < 0.2:
                target = "nope"
            ln["link"] = ("/" if not at or rng.random() < 0.6 else "../../") + target
        out.append(ln)
    return out


def gen_wide_doc(rng, zz=True):
    dirt = rng.choice([0.0, 0.05, 0.3])
    ids = c08.id_source(rng, 0.1 if dirt else 0.0)
    strs = c08.STRS[:30] + MULTI + (NONASCII if rng.random() < 0.3 else [])
    secs = []
    for _ in range(rng.choice([0, 1, 1, 2, 3])):
        secs.append(c08.gen_sec(rng, ids, rng.choice([0, 1, 1, 2, 3]), strs, dirt, [x["name"] for x in secs]))
    doc = {"id": ids(), "secs": secs + ([json.loads(json.dumps(ZZ))] if zz else [])}

    def clean(sec):
        for p in sec["props"]:
            d = p.get("dtype")
            if isinstance(d, str) and d.endswith("-tuple") and not d[:-6].isdigit():
                p["dtype"] = "2-tuple"
        for c in sec["subs"]:
            clean(c)
    for sec in doc["secs"]:
        clean(sec)
    if doc["secs"] and rng.random() < 0.65:
        doc["links"] = gen_links(rng, doc, ids, rng.choice([1, 1, 2, 3]))
    return doc


def gen_target(rng):
    r = rng.random()
    if r < 0.6:
        return None
    return ["sec" if r < 0.85 else "prop", rng.randrange(0, 12)]


CARD_SHAPES = [None, 2, [1, None], [None, 1], [1, 2], [2, 2], [0, 0], [None, None], [0, 3], [10, 12], [9, 10],
               [3, 1], [-1, 2], ["1", "2"], [1.5, 2], [True, 2], [1], [1, 2, 3], "2", 0, -3, [None, -1]]
LOAD_KINDS = ["small", "issues", "doc", "doc", "unknown_attr", "old_version", "no_version", "non_dict_root",
              "wrong_shape", "refused_object", "no_name", "dup_names", "bad_card", "syntax", "empty",
              "binary", "missing_file"]
LIB_WIDE = [("loadFile", 16), ("loadString", 6), ("parserDirect", 5), ("saveVia", 9), ("toString", 2),
            ("create", 9), ("clone", 3), ("setCard", 8), ("editAttr", 5), ("editValues", 4),
            ("resolveLinks", 3), ("setLink", 2), ("unlink", 1), ("removeProperty", 1), ("validateMethod", 4),
            ("constructSection", 2), ("constructProperty", 2), ("constructPropertyValues", 2),
            ("setSecCardinality", 1), ("setPropCardinality", 1), ("setValCardinality", 1), ("assignValues", 2),
            ("save", 2), ("load", 2), ("defaultValidation", 2), ("customValidation", 2)]
# what the Lean model's macro table knows; every other macro is a no-op on the class-level table there
MODEL_MACROS = {"constructSection", "constructProperty", "constructPropertyValues", "setSecCardinality",
                "setPropCardinality", "setValCardinality", "assignValues", "save", "load",
                "defaultValidation", "customValidation"}


def gen_lib_wide(rng, table=None):
    table = table or LIB_WIDE
    names = [n for n, _w in table]
    m = rng.choices(names, weights=[w for _n, w in table])[0]
    a = {"t": "lib", "m": m, "arg": rng.randrange(0, 48), "fmt": rng.choice(["XML", "JSON", "YAML"])}
    if m in ("loadFile", "loadString", "parserDirect", "saveVia", "toString"):
        a["fmt"] = rng.choice(["XML", "JSON", "YAML", "XML", "JSON", "YAML", "RDF"])
        a["quiet"] = rng.random() < 0.5
        a["via"] = rng.choice(["odml", "fresh", "reused", "reused"])
    if m in ("loadFile", "loadString", "parserDirect"):
        a["kind"] = rng.choice(LOAD_KINDS)
    if m == "saveVia":
        a["what"] = rng.choice(["doc", "doc", "small", "invalid"])
        a["where"] = rng.choice(["ok", "ok", "ok", "missing_dir", "is_dir"])
    if m == "setCard":
        a["which"] = rng.choice(["sec", "prop", "val"])
        a["shape"] = rng.choice(CARD_SHAPES)
        a["method"] = rng.random() < 0.3
    return a


def gen_handler_wide(rng, klass, px=0.07):
    r = rng.random()
    if r < 0.07:
        return {"c": 4}
    if r < 0.07 + px and klass in EXTRA_RULES:
        return {"x": rng.choice(EXTRA_RULES[klass])}
    if px > 0.07 and rng.random() < 0.12:
        return {"c": rng.choice([5, 6, 7, 8])}
    return gen_handler(rng, klass)


def gen_wide_history(rng, table=None, px=0.07):
    acts = []
    users = []          # (handle, reset)
    n = rng.randrange(4, 15)
    for _ in range(n):
        r = rng.random()
        if r < 0.2 or not users:
            u = len(users)
            if rng.random() < 0.4:
                users.append((u, True))
                acts.append({"t": "new", "u": u, "reset": True, "quiet": rng.choice([True, True, False, False, "pos"]),
                             "on": gen_target(rng)})
            else:
                users.append((u, False))
                on = gen_target(rng)
                via = rng.choice(["Validation", "validate", "deferred"])
                if via == "validate":
                    on = None        # Document.validate()
                acts.append({"t": "default", "u": u, "on": on, "via": via})
        elif r < 0.36:
            resets = [u for u, rs in users if rs]
            if resets and rng.random() < 0.94:
                u = rng.choice(resets)
            else:
                u = rng.choice(users)[0]
            k = rng.choice(KLASSES if px <= 0.07 else KLASSES + ["section", "property"])
            # a raising rule on a non-reset object would sit in the class-level table: every later
            # constructor of the history would fail, nothing more would be seen
            h = gen_handler_wide(rng, k, px) if dict(users)[u] else gen_handler(rng, k)
            acts.append({"t": "custom", "u": u, "k": k, "h": h})
        elif r < 0.52:
            acts.append({"t": rng.choice(["run", "run", "report"]), "u": rng.choice(users)[0]})
        elif r < 0.56:
            acts.append({"t": "direct", "u": rng.choice(users)[0],
                         "obj": rng.choice([None, ["sec", rng.randrange(12)], ["prop", rng.randrange(12)]])})
        elif r < 0.58:
            k = rng.choice(KLASSES)
            acts.append({"t": "global", "k": k, "h": gen_handler(rng, k)})
        else:
            acts.append(gen_lib_wide(rng, table))
    for u, _rs in users[:3]:
        acts.append({"t": "run", "u": u})
    acts.append({"t": "default", "u": len(users), "on": None,
                 "via": rng.choice(["Validation", "validate"])})
    return acts


# ----------------------------------------------------------------------------- round 3: terminologies
# wide histories over documents that name repositories: the wide macros plus repository edits
LIB_WIDE3 = LIB_WIDE + [("setRepo", 10), ("otherDocument", 8)]
# round 5: plus refused Validation constructions and the other doors into the terminology loader
LIB_WIDE5 = LIB_WIDE3 + [("refusedValidation", 4), ("loaderDoor", 8)]
T_TYPES = ["stimulus", "Stimulus", "recording", "subject", "t", "t/sub", "n.s.", "\u00dcber", "u"]
T_PNAMES = ["Duration", "Contrast", "Luminance", "duration", "a", "b", "zp", "Author"]
REPO_EDITS = [None, "", " ", "file:///nonexistent/c19_other_repo.xml"]


def gen_term(rng, key, types, pnames, kinds):
    count = [0]

    def mk(depth):
        count[0] += 1
        return {"name": "T%d" % count[0], "type": rng.choice(types),
                "props": rng.sample(pnames, rng.randrange(0, min(5, len(pnames)) + 1)),
                "subs": [mk(depth - 1) for _ in range(rng.choice([0, 0, 1, 2]) if depth else 0)]}
    term = {"key": key, "kind": rng.choice(kinds), "secs": [mk(2) for _ in range(rng.choice([1, 2, 2, 3, 4]))]}
    if term["kind"] == "missing" and rng.random() < 0.3:
        term["url"] = " "              # a repository that is no URL at all
    return term


def spec_paths(secs, prefix="", safe=True):
    """Paths of the Sections of a terminology spec a link / include may point to.  safe: only Sections
    whose subtree holds no linking / including Section, and such Sections themselves (they have no
    sub-Sections).  A link into a subtree that holds a link back sends Document.finalize into an
    unbounded recursion of merges - on any document, that is the business of the link properties."""
    out = []
    for sec in secs:
        path = prefix + "/" + sec["name"]
        if not safe or sec.get("link") is not None or sec.get("include") is not None \
                or not spec_has_refs([sec]):
            out.append(path)
        out.extend(spec_paths(sec.get("subs", []), path, safe))
    return out


def gen_term_load(rng, key, earlier, types, pnames, dangling=0.16):
    """(round 5) A terminology that mostly sits in a FILE the library has to load itself, and the file is
    not always a well-formed, self-contained document: see BROKEN_FILES / SOFT_FILES and the linking /
    including Sections described above term_document.  `earlier`: the specs an include may point to."""
    term = gen_term(rng, key, types, pnames, ["file"] * 8 + ["mem", "missing"])
    if term["kind"] != "file":
        return term
    r = rng.random()
    if r < 0.2:
        term["broken"] = rng.choice(BROKEN_FILES)
    elif r < 0.3:
        term["soft"] = rng.choice(SOFT_FILES)
    count = rng.choice([0, 1, 1, 1, 2, 3])
    # where the linking / including Sections go: top level, or below one of the plain top level Sections
    # (which then is no target any more, see spec_paths)
    plain = list(term["secs"])
    hosts = [rng.choice(plain) if rng.random() < 0.3 and len(plain) > 1 else None for _ in range(count)]
    for host in hosts:
        if host is not None:
            host["host"] = True
    for n, host in enumerate(hosts):
        ref = {"name": "L%d" % (n + 1), "type": rng.choice(types),
               "props": rng.sample(pnames, rng.randrange(0, min(3, len(pnames)) + 1)), "subs": []}
        paths = [p for p in spec_paths(term["secs"])
                 if not any(p == "/" + h["name"] for h in plain if h.get("host"))] or ["/nope"]
        r = rng.random()
        if r < dangling:
            ref["link"] = rng.choice(["/nope", "/no/such", rng.choice(paths) + "/nope", "/" + ref["name"], "nope"])
        elif r < dangling + 0.06:
            ref["link"] = "../" + rng.choice(paths).lstrip("/")    # relative spelling
        elif r < 0.75:
            ref["link"] = rng.choice(paths)                        # resolvable (also: to a linking Section)
        else:
            other = rng.choice(earlier + [None]) if earlier else None
            if other is None:
                ref["include"] = {"key": None, "path": rng.choice([None, "/T1"])}
            else:
                first = other["secs"][0]
                nopath = [None, None] if not spec_has_refs([first]) or first.get("link") is not None \
                    or first.get("include") is not None else []
                ref["include"] = {"key": other["key"],
                                  "path": rng.choice(spec_paths(other["secs"]) * 3 + nopath + ["/nope"])}
        if host is None:
            term["secs"].insert(rng.randrange(len(term["secs"]) + 1), ref)
        else:
            host.setdefault("subs", []).append(ref)
    for sec in plain:
        sec.pop("host", None)
    return term


def add_terms(rng, doc, load=False):
    """Gives a wide document repositories (on the Document, on Sections, inherited by the rest) that
    point to terminologies of its own, built from the types and Property names the document uses."""
    types, pnames = set(["t", "u", "T"]), set(["zp", "a", "b"])

    def collect(sec):
        if isinstance(sec.get("type"), str) and sec["type"]:
            types.add(sec["type"])
        for p in sec["props"]:
            if isinstance(p.get("name"), str) and p["name"] not in ("", "=id"):
                pnames.add(p["name"])
        for c in sec["subs"]:
            collect(c)
    for sec in doc["secs"]:
        collect(sec)
    types, pnames = sorted(types), sorted(pnames)
    keys = ["a", "b", "c"][:rng.choice([1, 2, 2, 3])]
    doc["token"] = rng.randrange(10 ** 9)
    if load:
        doc["terms"] = []
        for k in keys:
            doc["terms"].append(gen_term_load(rng, k, [t for t in doc["terms"] if t["kind"] == "file"],
                                              types, pnames))
    else:
        doc["terms"] = [gen_term(rng, k, types, pnames, ["mem"] * 6 + ["file", "missing"]) for k in keys]
    if rng.random() < 0.7:
        doc["repo"] = TERM_MARK + rng.choice(keys)

    def visit(sec):
        if rng.random() < 0.25:
            sec.setdefault("x", {})["repository"] = TERM_MARK + rng.choice(keys)
        for c in sec["subs"]:
            visit(c)
    for sec in doc["secs"]:
        visit(sec)
    return doc


def gen_term_doc(rng, keys):
    """A small document of the terms stream (built with the plain constructors)."""
    count = [0]

    def prop():
        count[0] += 1
        r = rng.random()
        vals, dtype, card = [count[0]], None, None
        if r < 0.15:
            vals, dtype = ["12"], "string"                 # a dtype hint of a default rule
        elif r < 0.25:
            card = [2, None]                               # a cardinality issue of a default rule
        elif r < 0.35:
            vals = []
        return {"name": rng.choice(T_PNAMES), "values": vals, "dtype": dtype, "card": card}

    def sec(depth):
        count[0] += 1
        props, used = [], set()
        for _ in range(rng.choice([0, 1, 2, 2, 3])):
            p = prop()
            if p["name"] not in used:
                used.add(p["name"])
                props.append(p)
        return {"name": "s%d" % count[0], "type": rng.choice(T_TYPES[:4] if rng.random() < 0.6 else T_TYPES),
                "repo": rng.choice(keys) if rng.random() < 0.2 else None, "props": props,
                "subs": [sec(depth - 1) for _ in range(rng.choice([0, 0, 1, 2]) if depth else 0)]}
    return {"repo": rng.choice(keys) if rng.random() < 0.75 else None,
            "secs": [sec(2) for _ in range(rng.choice([0, 1, 1, 1, 2, 2, 3]))]}


def gen_terms_case(rng, load=False):
    """load (round 5): the terminologies are files that may fail at every stage of loading, the
    repositories reach the documents through constructor arguments as well as through the setters, and
    the history also enters the terminology loader through its other doors between two validations."""
    keys = ["a", "b", "c", "d"][:rng.choice([2, 2, 3, 4])]
    if load:
        terms = []
        for k in keys:
            terms.append(gen_term_load(rng, k, [t for t in terms if t["kind"] == "file"], T_TYPES[:6], T_PNAMES))
    else:
        terms = [gen_term(rng, k, T_TYPES, T_PNAMES, ["mem"] * 7 + ["file", "missing"]) for k in keys]
    docs = []
    for _ in range(rng.choice([2, 2, 3, 4])):
        if docs and rng.random() < 0.4:
            # the same content once more, under another (or no) repository
            twin = json.loads(json.dumps(rng.choice(docs)))
            twin["repo"] = rng.choice(keys + [None])
            docs.append(twin)
        else:
            docs.append(gen_term_doc(rng, keys))
        if load:
            # how the repository reaches the object: constructor argument (what a reader does; nothing is
            # fetched before the first validation) or setter (starts a loader thread)
            docs[-1]["via"] = rng.choice(["ctor", "ctor", "setter"])
            docs[-1]["sec_via"] = rng.choice(["ctor", "ctor", "setter"])
    both = {"section": [{"x": "section_repository_present"}], "property": [{"x": "property_terminology_check"}]}

    def rules():
        r = rng.random()
        out = json.loads(json.dumps(both))
        if r < 0.15:
            del out[rng.choice(["section", "property"])]
        elif r < 0.45:
            for k in KLASSES:
                out.setdefault(k, [])
                for _ in range(rng.choice([1, 2])):
                    h = gen_handler(rng, k) if rng.random() < 0.8 else {"c": rng.choice([5, 6, 7, 8])}
                    if h not in out[k]:
                        out[k].append(h)
        return out

    def on():
        r = rng.random()
        return None if r < 0.7 else ["sec" if r < 0.88 else "prop", rng.randrange(12)]
    acts, nvals = [], 0
    for _ in range(rng.randrange(4, 13)):
        r = rng.random()
        d = rng.randrange(len(docs))
        if r < 0.32:
            mode = rng.choice(["reset", "reset", "reset", "default", "method"])
            acts.append({"t": "val", "v": nvals, "d": d, "on": None if mode == "method" else on(), "mode": mode,
                         "rules": rules(), "report": rng.random() < 0.3})
            nvals += 1
        elif r < 0.45 and nvals:
            acts.append({"t": "run", "v": rng.randrange(nvals), "report": rng.random() < 0.3})
        elif 0.45 <= r < 0.48:
            k = rng.choice(["section", "property"])
            acts.append({"t": "global", "k": k, "h": both[k][0]})
        elif load and r > 0.8:
            # the other doors into the terminology loader, and validations of a terminology itself
            e = rng.choice(["loadterm", "loadterm", "termeq", "termeq", "finalize", "inclterm", "valterm"])
            a = {"t": e, "d": d, "at": rng.choice([None, rng.randrange(12)]), "key": rng.choice(keys)}
            if e == "inclterm":
                spec = [t for t in terms if t["key"] == a["key"]][0]
                a["path"] = rng.choice(spec_paths(spec["secs"]) + [None, "/nope"])
            acts.append(a)
        else:
            e = rng.choice(["setrepo", "setrepo", "setrepo", "settype", "settype", "renameprop", "addprop",
                            "addsec", "move", "move", "clone", "clone", "roundtrip", "newdoc", "removesec"])
            a = {"t": e, "d": d, "at": rng.choice([None, rng.randrange(12)]) if e in ("setrepo", "addsec")
                 else rng.randrange(12)}
            if e == "setrepo":
                a["to"] = rng.choice(keys + keys + REPO_EDITS)
            elif e == "settype":
                a["to"] = rng.choice(T_TYPES)
            elif e in ("renameprop", "addprop"):
                a["to"] = rng.choice(T_PNAMES)
            elif e == "addsec":
                a["type"] = rng.choice(T_TYPES)
                a["repo"] = rng.choice(keys + [None, None, None])
            elif e in ("move", "clone"):
                a["to_d"] = rng.randrange(len(docs))
                a["to_at"] = rng.choice([None, rng.randrange(12)])
                a["keep_id"] = rng.random() < 0.5
            elif e == "roundtrip":
                a["fmt"] = rng.choice(["XML", "JSON", "YAML"])
            elif e == "newdoc":
                a["doc"] = gen_term_doc(rng, keys)
            acts.append(a)
    # in the end every document is validated with the two rules, one after the other
    for d in range(len(docs)):
        acts.append({"t": "val", "v": nvals, "d": d, "on": None, "mode": "reset",
                     "rules": json.loads(json.dumps(both)), "report": False})
        nvals += 1
    return {"token": rng.randrange(10 ** 9), "terms": terms, "docs": docs, "acts": acts}


def gen_loader_case(rng):
    """(round 5, correspondence with Model/TermLoad.lean) 2-4 terminology files, each ending at some
    stage of loading, and a sequence of entries into the loader: terminology.load, deferred_load (what
    the repository / include setters start), and the two on-demand rules run by a reset Validation on a
    Section / Property that received the repository as a constructor argument."""
    n = rng.choice([2, 3, 3, 4])
    files = []
    for i in range(n):
        t = gen_term_load(rng, "u%d" % i, [], T_TYPES[:6], T_PNAMES, dangling=0.35)
        if t["kind"] == "mem":
            t["kind"] = "file"
        t.pop("url", None)
        files.append(t)
    ops = []
    for _ in range(rng.randrange(3, 12)):
        ops.append({"t": rng.choice(["load", "load", "deferred", "rule", "rule", "prule"]), "u": rng.randrange(n),
                    "type": rng.choice(T_TYPES[:6]), "pname": rng.choice(T_PNAMES)})
    for i in range(n):
        typ = rng.choice(T_TYPES[:6])
        ops += [{"t": "rule", "u": i, "type": typ, "pname": "a"}, {"t": "load", "u": i, "type": typ, "pname": "a"},
                {"t": "rule", "u": i, "type": typ, "pname": "a"}]
    return {"stream": "loader", "token": rng.randrange(10 ** 9), "files": files, "ops": ops}


RACE_TERM = {"kind": "file", "secs": [{"name": "T1", "type": "recording", "props": ["Duration"], "subs": []}]}


def gen_race_cases(rng):
    """(round 5 follow-up, oracle-only)  Two loads of ONE url at the same time, on a forced schedule: the
    first load (terminology.load, or the first validation of a document that got its repository as a
    constructor argument; for templates TemplateHandler.load) is stopped while it writes its cache copy -
    `created`: right after the file it writes has been opened for writing (exists, empty);
    `before_replace`: right before os.replace moves a finished copy into place - and a second load of the
    same url runs to its end meanwhile: deferred_load (what a repository setter starts), the repository
    setter of another document, the loader thread of another terminology file that includes the url, or
    (templates) a second load from another thread.  Fixed by 7dfcfe5 (known finding
    terminology-cache-copy-read-while-written)."""
    out = []
    for stop in ("created", "before_replace"):
        for first in ("load", "validation"):
            for second in ("deferred", "setter", "include"):
                out.append({"stream": "race", "handler": "terminology", "first": first, "second": second,
                            "stop": stop, "token": rng.randrange(10 ** 9)})
        for second in ("load", "deferred"):
            out.append({"stream": "race", "handler": "templates", "first": "load", "second": second,
                        "stop": stop, "token": rng.randrange(10 ** 9)})
    return out


def run_race(case, tmp, guard=30):
    """-> observation; obs["skipped"] when the schedule could not be forced (the library does not write its
    copy through `open` / `os.replace` of its module namespace any more, or the second load cannot finish
    while the first is held): such a case says nothing.  No sleeps: two events, `guard` seconds at most."""
    import threading
    import odml
    from odml import validation
    mod = __import__("odml.terminology" if case["handler"] == "terminology" else "odml.templates",
                     fromlist=["x"])
    terms = [dict(RACE_TERM, key="a")]
    if case["second"] == "include":
        terms.append({"key": "b", "kind": "file",
                      "secs": [{"name": "T1", "type": "subject", "props": [], "subs": []},
                               {"name": "L1", "type": "stimulus", "props": ["a"], "subs": [],
                                "include": {"key": "a", "path": "/T1"}}]})
    urls = register_terms(terms, case["token"], tmp)
    url = urls["a"]
    handler = mod.terminologies if case["handler"] == "terminology" else mod.TemplateHandler()
    opened, go = threading.Event(), threading.Event()
    main = threading.current_thread()
    state = {"hits": 0, "second_done": False, "second": None}
    real_open = open

    def hold():
        if threading.current_thread() is main and not opened.is_set():
            state["hits"] += 1
            opened.set()
            go.wait(guard)

    def hooked_open(name, mode="r", *args, **kwargs):
        fobj = real_open(name, mode, *args, **kwargs)
        if "w" in str(mode):
            hold()
        return fobj

    class OsProxy(object):
        def __getattr__(self, name):
            return getattr(os, name)

        def replace(self, src, dst, **kwargs):
            hold()
            return os.replace(src, dst, **kwargs)

    def second():
        if not opened.wait(guard) or state.get("abandon"):
            return
        try:
            before = set(threading.enumerate())
            if case["second"] == "deferred":
                handler.deferred_load(url)
            elif case["second"] == "setter":
                odml.Document().repository = url
            elif case["second"] == "include":
                handler.deferred_load(urls["b"])
            else:
                state["second"] = handler.load(url) is not None
            for thread in threading.enumerate():
                if thread not in before and thread is not threading.current_thread():
                    thread.join(guard)
                    if thread.is_alive():
                        return
            state["second_done"] = True
        except Exception as exc:
            state["second_error"] = fw.exc_name(exc)
            state["second_done"] = True
        finally:
            go.set()

    def issues(doc, refs):
        val = validation.Validation(doc, validate=False, reset=True)
        val.register_custom_handler("section", validation.section_repository_present)
        val.register_custom_handler("property", validation.property_terminology_check)
        val.run_validation()
        return c08.issue_list(val.errors, refs)

    obs = {}
    doc = odml.Document(repository=url)          # constructor argument: nothing is fetched yet
    sec = odml.Section(name="s", type="recording", parent=doc)
    odml.Property(name="Duration", values=[1], parent=sec)
    odml.Property(name="other", values=[1], parent=sec)
    refs = index_tree(doc, "d", {})
    helper = threading.Thread(target=second)
    shadowed = []
    try:
        if case["stop"] == "created":
            if "open" in vars(mod):
                return {"skipped": "the module has an open of its own"}
            mod.open = hooked_open
            shadowed.append("open")
        else:
            if vars(mod).get("os") is not os:
                return {"skipped": "the module does not use os"}
            mod.os = OsProxy()
            shadowed.append("os")
        helper.start()
        try:
            if case["first"] == "load":
                obs["first"] = handler.load(url) is not None
            else:
                obs["first_issues"] = issues(doc, refs)
        except Exception as exc:
            obs["first_raised"] = fw.exc_name(exc)
    finally:
        if "open" in shadowed:
            del mod.open
        if "os" in shadowed:
            mod.os = os
        state["abandon"] = True
        opened.set()
        go.set()
        if helper.ident is not None:
            helper.join(guard)
    if not state["hits"]:
        return {"skipped": "the writer was not seen at '%s'" % case["stop"]}
    if not state["second_done"] or helper.is_alive():
        return {"skipped": "the second load did not finish while the first was held"}
    obs["second"] = state["second"]
    if "second_error" in state:
        obs["second_error"] = state["second_error"]
    if case["handler"] == "terminology":
        obs["table"] = handler.get(url) is not None
        try:
            obs["issues"] = issues(doc, refs)
            obs["again"] = issues(doc, refs)
        except Exception as exc:
            obs["issues_raised"] = fw.exc_name(exc)
        funcs = {"section": [validation.section_repository_present],
                 "property": [validation.property_terminology_check]}
        obs["expected"] = expected_issues(funcs, doc, refs)
    else:
        obs["table"] = handler.get(url) is not None
        try:
            handler.pop(url, None)
            type(handler).loading.pop(url, None)
        except Exception:
            pass
    return obs


class Lib(object):
    """The library operations of a history that are not validations of the user (edits, object
    creation, loads, saves).  Refusals of the new macros are the business of other properties:
    they are swallowed here, what counts is the state a refused call leaves behind."""

    def __init__(self, doc, tmp, inc_url, strict=True):
        self.strict = strict     # first-round histories: an exception of a first-round macro is a failure
        self.doc = doc
        self.tmp = tmp
        self.inc_url = inc_url
        self.counter = 0
        self.readers = {}
        self.writers = {}
        self.loaded = None       # the document of the last successful load step
        self.protected = set()   # id() of objects a Validation of the user is bound to
        self.settle = None       # histories with nested terminology files: waits for the loader threads

    # -- helpers
    def fresh(self):
        self.counter += 1
        return "new%d" % self.counter

    def section(self, arg):
        secs = list(self.doc.itersections(recursive=True))
        return secs[arg % len(secs)] if secs else None

    def prop(self, arg):
        props = list(self.doc.iterproperties())
        return props[arg % len(props)] if props else None

    def zp(self):
        try:
            return self.doc.sections["zz"].properties["zp"]
        except Exception:
            return self.prop(0)

    def small(self, kind):
        import odml
        d = odml.Document(author="a")
        if kind == "small":
            odml.Section(name="s", type="t", parent=d)
            return d
        s = odml.Section(name="s", parent=d, sec_cardinality=(1, None))          # 'n.s.', 501
        odml.Property(name="count", values=["12"], dtype="string", parent=s)    # 403
        odml.Property(name="few", values=[1], val_cardinality=(2, None), parent=s)  # 502
        if kind == "invalid":
            t = odml.Section(name="t", type="t", parent=d)
            t.type = None                                                        # 101: save refuses
        return d

    def reader(self, a):
        from odml.tools.odmlparser import ODMLReader
        key = (a["fmt"], a.get("quiet", False))
        if a.get("via") == "reused":
            if key not in self.readers:
                self.readers[key] = ODMLReader(a["fmt"], show_warnings=not a.get("quiet", False))
            return self.readers[key]
        return ODMLReader(a["fmt"], show_warnings=not a.get("quiet", False))

    def writer(self, a):
        from odml.tools.odmlparser import ODMLWriter
        if a.get("via") == "reused":
            if a["fmt"] not in self.writers:
                self.writers[a["fmt"]] = ODMLWriter(a["fmt"])
            return self.writers[a["fmt"]]
        return ODMLWriter(a["fmt"])

    def content(self, fmt, kind):
        """Text (or bytes) of a file of the given format: good, or refused in the given way."""
        import re
        import yaml
        from odml.info import FORMAT_VERSION
        from odml.tools.dict_parser import DictWriter
        from odml.tools.odmlparser import ODMLWriter, JSONDateTimeSerializer
        if kind == "empty":
            return ""
        if kind == "binary":
            return b"\xff\xfe\x00\x01 not a text \x80\x81"
        base = None
        if kind == "doc" and not (fmt == "RDF" and not rdf_safe(self.doc)):
            base = self.doc
        if base is None:
            base = self.small("small" if kind == "small" else "issues")
        if fmt == "RDF":
            try:
                text = ODMLWriter("RDF").to_string(base, rdf_format="xml")
            except Exception:
                text = ODMLWriter("RDF").to_string(self.small("small"), rdf_format="xml")
            if kind in ("small", "issues", "doc"):
                return text
            if kind in ("non_dict_root", "no_name"):
                # well-formed RDF that holds no odML document
                return ('<?xml version="1.0" encoding="utf-8"?>\n<rdf:RDF xmlns:rdf="http://www.w3.org/1999/02/'
                        '22-rdf-syntax-ns#"><rdf:Description rdf:about="http://x/y"><rdf:value>1</rdf:value>'
                        '</rdf:Description></rdf:RDF>\n')
            return text[:len(text) // 2]
        if fmt == "XML":
            try:
                text = ODMLWriter("XML").to_string(base)
            except Exception:
                text = ODMLWriter("XML").to_string(self.small("issues"))
            if kind == "unknown_attr":
                text = text.replace("<property>", "<property><colour>red</colour>", 1)
            elif kind == "old_version":
                text = text.replace('version="%s"' % FORMAT_VERSION, 'version="1"', 1)
            elif kind == "no_version":
                text = text.replace(' version="%s"' % FORMAT_VERSION, "", 1)
            elif kind == "non_dict_root":
                text = text.replace("<odML", "<odMX", 1).replace("</odML>", "</odMX>")
            elif kind == "wrong_shape":
                text = text.replace("<name>", "<name><b>x</b>", 1)
            elif kind == "refused_object":
                text = text.replace("<section>", "<section><property><name>bad</name><value>[abc]</value>"
                                    "<type>int</type></property>", 1)
            elif kind == "no_name":
                text = re.sub(r"<name>[^<]*</name>", "", text, count=1)
            elif kind == "dup_names":
                m = re.search(r"<property>.*?</property>", text, re.S)
                if m:
                    text = text.replace(m.group(0), m.group(0) + m.group(0), 1)
            elif kind == "bad_card":
                text = text.replace("<section>", "<section><prop_cardinality>(3, 1)</prop_cardinality>", 1)
            elif kind == "syntax":
                text = text[:len(text) // 2]
            return text
        try:
            d = DictWriter().to_dict(base)
            json.dumps(d, cls=JSONDateTimeSerializer)
        except Exception:
            d = DictWriter().to_dict(self.small("issues"))
        whole = {"Document": d, "odml-version": FORMAT_VERSION}
        sec0 = (d.get("sections") or [{}])[0]
        prop0 = (sec0.get("properties") or [{}])[0]
        if kind == "unknown_attr":
            prop0["colour"] = "red"
        elif kind == "old_version":
            whole["odml-version"] = "1"
        elif kind == "no_version":
            del whole["odml-version"]
        elif kind == "non_dict_root":
            whole = [whole]
        elif kind == "wrong_shape":
            d["sections"] = {"a": 1}
        elif kind == "refused_object":
            sec0.setdefault("properties", []).append({"name": "bad", "type": "int", "value": ["abc"]})
        elif kind == "no_name":
            sec0.pop("name", None)
            sec0.pop("type", None)
        elif kind == "dup_names":
            sec0.setdefault("properties", []).append(dict(prop0))
        elif kind == "bad_card":
            sec0["prop_cardinality"] = [3, 1]
        if fmt == "JSON":
            text = json.dumps(whole, indent=1, cls=JSONDateTimeSerializer)
        else:
            ODMLWriter("YAML").to_string(self.small("small"))     # registers the writer's yaml representers
            text = yaml.dump(whole, default_flow_style=False)
        if kind == "syntax":
            text = text[:len(text) // 2] + ("\n]: {" if fmt == "YAML" else "")
        return text

    def write_content(self, a):
        path = os.path.join(self.tmp(), "in%d.%s" % (self.counter, a["fmt"].lower()))
        self.counter += 1
        if a["kind"] == "missing_file":
            return os.path.join(self.tmp(), "nowhere", "missing." + a["fmt"].lower())
        data = self.content(a["fmt"], a["kind"])
        if isinstance(data, bytes):
            with open(path, "wb") as fh:
                fh.write(data)
        else:
            with io.open(path, "w", encoding="utf-8", errors="surrogatepass") as fh:
                fh.write(data)
        return path

    def keep(self, res):
        if isinstance(res, list):
            res = res[0] if res else None
        if res is not None and hasattr(res, "itersections"):
            self.loaded = res

    # -- the macros
    def run(self, a):
        import odml
        from odml.validation import Validation
        from odml.tools.odmlparser import ODMLWriter, ODMLReader
        m = a["m"]
        doc = self.doc
        arg = a.get("arg", 0)
        if not self.strict and m in MODEL_MACROS:
            # wide histories edit the document freely (renamed / removed objects, refused values):
            # there a first-round macro may be refused like any other edit
            try:
                Lib(self.doc, self.tmp, self.inc_url).run(a)
            except Exception:
                pass
            return
        # ---- the macros of the first round (exceptions are failures of the step)
        if m == "constructSection":
            odml.Section(name=self.fresh(), type="t", parent=self.section(arg) if arg % 2 else doc)
        elif m == "constructProperty":
            odml.Property(name=self.fresh(), parent=self.section(arg))
        elif m == "constructPropertyValues":
            odml.Property(name=self.fresh(), values=[1, 2], parent=self.section(arg))
        elif m == "setSecCardinality":
            self.section(arg).sec_cardinality = (arg % 3, None) if arg % 3 else None
        elif m == "setPropCardinality":
            self.section(arg).prop_cardinality = (None, 1 + arg % 3)
        elif m == "setValCardinality":
            self.prop(arg).val_cardinality = (arg % 3, 3)
        elif m == "assignValues":
            doc.sections["zz"].properties["zp"].values = [1, 2, 3][:1 + arg % 3]
        elif m == "save":
            try:
                ODMLWriter(a["fmt"]).write_file(doc, os.path.join(self.tmp(), "out." + a["fmt"].lower()))
            except Exception:
                pass        # refusing an invalid document is C07/C08's business
        elif m == "load":
            small = odml.Document()
            odml.Section(name="s", type="t", parent=small)
            text = ODMLWriter(a["fmt"]).to_string(small)
            ODMLReader(a["fmt"], show_warnings=False).from_string(text)
        elif m == "defaultValidation":
            Validation(doc)
        elif m == "customValidation":
            Validation(doc, validate=False, reset=True)
        else:
            # ---- the macros of the wide stream: a refusal is not this property's business
            try:
                getattr(self, "m_" + m)(a, arg)
            except Exception:
                pass

    def m_loadFile(self, a, arg):
        import odml
        path = self.write_content(a)
        rdf = ("xml",) if a["fmt"] == "RDF" else ()
        if a["via"] == "odml" and not rdf:
            self.keep(odml.load(path, a["fmt"], show_warnings=not a["quiet"]))
        else:
            self.keep(self.reader(a).from_file(path, *rdf))

    def m_loadString(self, a, arg):
        kind = "small" if a["kind"] == "missing_file" else a["kind"]
        data = self.content(a["fmt"], kind)
        rdf = ("xml",) if a["fmt"] == "RDF" else ()
        self.keep(self.reader(a).from_string(data, *rdf))

    def m_parserDirect(self, a, arg):
        import yaml
        from odml.tools.xmlparser import XMLReader
        from odml.tools.dict_parser import DictReader
        kw = {"show_warnings": not a["quiet"], "ignore_errors": bool(arg % 2)}
        if a["fmt"] in ("XML", "RDF"):
            b = dict(a, fmt="XML")
            if arg % 4 < 2:
                self.keep(XMLReader(**kw).from_file(self.write_content(b)))
            else:
                kind = "small" if a["kind"] == "missing_file" else a["kind"]
                self.keep(XMLReader(**kw).from_string(self.content("XML", kind)))
        else:
            kind = "small" if a["kind"] == "missing_file" else a["kind"]
            text = self.content(a["fmt"], kind)
            parsed = json.loads(text) if a["fmt"] == "JSON" else yaml.safe_load(text)
            self.keep(DictReader(**kw).to_odml(parsed))

    def m_saveVia(self, a, arg):
        import odml
        what = self.doc if a["what"] == "doc" else self.small(a["what"])
        fmt = a["fmt"]
        if fmt == "RDF" and not rdf_safe(what):
            fmt = "JSON"
        name = "save%d.%s" % (self.counter, fmt.lower())
        self.counter += 1
        path = os.path.join(self.tmp(), name)
        if a["where"] == "missing_dir":
            path = os.path.join(self.tmp(), "nowhere", name)
        elif a["where"] == "is_dir":
            path = os.path.join(self.tmp(), "dir.%s" % fmt.lower())
            if not os.path.isdir(path):
                os.makedirs(path)
        if a["via"] == "odml":
            odml.save(what, path, fmt)
        else:
            self.writer(dict(a, fmt=fmt)).write_file(what, path)

    def m_toString(self, a, arg):
        fmt = "JSON" if a["fmt"] == "RDF" and not rdf_safe(self.doc) else a["fmt"]
        self.writer(dict(a, fmt=fmt)).to_string(self.doc)

    def m_create(self, a, arg):
        import odml
        sec = self.section(arg)
        k = arg % 16
        if k == 0:
            sec.create_section(self.fresh(), "t")
        elif k == 1:
            sec.create_property(self.fresh(), values=[1])
        elif k == 2:
            self.doc.create_section(self.fresh(), "t")
        elif k == 3:
            odml.Section(name=None, type="t", parent=self.doc)
        elif k == 4:
            odml.Property(name=None, parent=sec)
        elif k == 5:
            odml.Section(self.fresh(), "t", parent=sec, sec_cardinality=(1, None), prop_cardinality=(None, 2))
        elif k == 6:
            odml.Property(self.fresh(), values=[1, 2, 3], val_cardinality=(None, 2), parent=sec)
        elif k == 7:
            odml.Property(self.fresh(), values=["abc"], dtype="int", parent=sec)            # refused
        elif k == 8:
            odml.Property(self.fresh(), parent=self.doc)                                    # refused
        elif k == 9:
            odml.Section(self.fresh(), "t", parent=self.doc, prop_cardinality=(3, 1))       # refused
        elif k == 10:
            odml.Property(self.fresh(), values=[1], val_cardinality=(-1, 2), parent=sec)    # refused
        elif k == 11:
            other = odml.Document(author="x")
            odml.Property(self.fresh(), values=["1"], dtype="string",
                          parent=odml.Section(self.fresh(), parent=other))
        elif k == 12:
            odml.Section(self.fresh(), "t", parent=self.doc, link="/zz", prop_cardinality=(2, None))
        elif k == 13:
            odml.Section(self.fresh(), type="", parent=self.doc)
        elif k == 14:
            odml.Property(self.fresh(), values=["12", "13"], dtype="string", parent=sec)
        else:
            sec.append(odml.Property(self.fresh()))
            sec.insert(0, odml.Section(self.fresh(), "t"))
            sec.extend([odml.Property(self.fresh(), values=[True]), odml.Section(self.fresh(), "t")])

    def m_clone(self, a, arg):
        src = self.section(arg)
        if arg % 8 == 7:
            self.doc.clone(keep_id=bool(arg % 16 == 7))      # a second Document: nothing else changes
            return
        cp = src.clone(children=bool(arg % 4 != 3), keep_id=bool(arg % 2))
        if arg % 4 < 2:
            cp.name = self.fresh()
        (self.doc if arg % 3 else self.section(arg + 1)).append(cp)

    def m_setCard(self, a, arg):
        shape = a["shape"]
        if isinstance(shape, list):
            shape = tuple(shape) if arg % 3 else list(shape)
        if a["which"] == "val":
            obj, attr, meth = self.prop(arg), "val_cardinality", "set_values_cardinality"
        elif a["which"] == "sec":
            obj, attr, meth = self.section(arg), "sec_cardinality", "set_sections_cardinality"
        else:
            obj, attr, meth = self.section(arg), "prop_cardinality", "set_properties_cardinality"
        if a.get("method") and isinstance(shape, (tuple, list)) and len(shape) == 2:
            getattr(obj, meth)(shape[0], shape[1])
        else:
            setattr(obj, attr, shape)

    def m_editAttr(self, a, arg):
        k = arg % 10
        sec, prop = self.section(arg), self.prop(arg)
        if k == 0:
            sec.type = [None, "", "n.s.", "t2"][(arg // 10) % 4]
        elif k == 1:
            sec.name = self.fresh() if arg % 20 < 10 else sec.id
        elif k == 2:
            if prop.name != "zp":
                prop.name = self.fresh() if arg % 20 < 10 else prop.id
        elif k == 3:
            prop.dtype = ["string", "int", "text", None][(arg // 10) % 4]
        elif k == 4:
            prop.dependency = ["zp", "nope", None, ""][(arg // 10) % 4]
        elif k == 5:
            prop.dependency_value = ["1", "abc", None][(arg // 10) % 3]
        elif k == 6:
            sec.definition = "d"
            prop.unit = "mV"
        elif k == 7:
            self.doc.author = "someone"
            self.doc.version = "2"
        elif k == 8:
            sec.repository = None
            self.doc.repository = None
        else:
            sec.reorder(0)

    def m_editValues(self, a, arg):
        p = self.zp() if arg % 2 else self.prop(arg)
        k = (arg // 2) % 8
        if k == 0:
            p.values = []
        elif k == 1:
            p.values = None
        elif k == 2:
            p.append(7)
        elif k == 3:
            p.extend([8, 9])
        elif k == 4:
            p.remove(p.values[0])
        elif k == 5:
            p.values = ["abc"]                     # refused for an int Property
        elif k == 6:
            p.values = list(range(12))             # a two-digit count against single-digit bounds
        else:
            p.values = p.values + p.values

    def m_resolveLinks(self, a, arg):
        for sec in list(self.doc.itersections(recursive=True)):
            if sec.link is not None and not sec.is_merged:
                try:
                    sec.merge()
                except Exception:
                    pass

    def m_setLink(self, a, arg):
        import odml
        sec = odml.Section(self.fresh(), "t", parent=self.doc, prop_cardinality=(2 if arg % 2 else None, 3))
        sec.link = "/zz" if arg % 4 < 3 else "/nope"

    def m_unlink(self, a, arg):
        for sec in list(self.doc.itersections(recursive=True)):
            if sec.link is not None and sec.is_merged:
                sec.link = None
                return

    def m_removeProperty(self, a, arg):
        p = self.prop(arg)
        if p is not None and p.name != "zp" and id(p) not in self.protected:
            p.parent.remove(p)

    def repo_choice(self, arg):
        pool = sorted(_TERMS) + [None, ""]
        return pool[arg % len(pool)]

    def m_setRepo(self, a, arg):
        # round 3: the repository of the Document or of a Section, edited between validations
        obj = self.doc if arg % 3 == 0 else self.section(arg // 3)
        obj.repository = self.repo_choice(arg // 5)

    def m_otherDocument(self, a, arg):
        # round 3: something else is validated in between - a second document with the same Section
        # types and Property names that looks into another (or no) terminology
        from odml import validation
        other = self.doc.clone(keep_id=bool(arg % 2))
        other.repository = self.repo_choice(arg // 2)
        if self.settle:
            self.settle()
        if arg % 4 < 2:
            for sec in other.itersections(recursive=True):
                sec.repository = None
        val = validation.Validation(other, validate=False, reset=True)
        if arg % 8 < 6:
            val.register_custom_handler("section", validation.section_repository_present)
            val.register_custom_handler("property", validation.property_terminology_check)
        else:
            for k in KLASSES:
                for name in RULES_FOR[k]:
                    val.register_custom_handler(k, getattr(validation, name))
        val.run_validation()

    def m_refusedValidation(self, a, arg):
        # round 5: a Validation that cannot even be created (not an odML object) or whose registration
        # is refused must leave the registry alone like every other refused call
        from odml import validation
        k = arg % 6
        if k < 4:
            validation.Validation([42, None, "text", [self.doc]][k])
        elif k == 4:
            validation.Validation(self.doc, validate=False, reset=True).register_custom_handler("section", None)(None)
        else:
            validation.Validation(self.doc, validate=False, reset=True).validate(42)

    def m_loaderDoor(self, a, arg):
        # round 5: the terminology loader entered from elsewhere between two validations; for a file that
        # cannot be loaded the call fails - what it leaves behind is what the next validation finds
        import odml.terminology
        if arg % 3 == 0:
            odml.terminology.load(self.repo_choice(arg // 3) or REPO_EDITS[3])
        elif arg % 3 == 1:
            self.section(arg // 3).get_terminology_equivalent()
        else:
            self.doc.get_terminology_equivalent()

    def m_validateMethod(self, a, arg):
        # the library-side spellings of "validate this": neither may touch the registry
        if arg % 2:
            self.doc.validate()
        else:
            self.doc.validate().report()


# ----------------------------------------------------------------------------- terms stream executor
def index_tree(root, prefix, refs):
    """id(obj) -> position of the object below root (own traversal, public attributes)."""
    def sec(s, ref):
        refs[id(s)] = ref
        for i, p in enumerate(s.properties):
            refs[id(p)] = "%s:p%d" % (ref, i)
        for i, c in enumerate(s.sections):
            sec(c, "%s/s%d" % (ref, i))
    name = root.format().name
    if name == "property":
        refs[id(root)] = prefix + ":p"
    elif name == "section":
        sec(root, prefix)
    else:
        refs[id(root)] = prefix
        for i, c in enumerate(root.sections):
            sec(c, "%s/s%d" % (prefix, i))
    return refs


def build_user_doc(spec, url, pause=None):
    """pause: called after every repository setter (histories with nested terminology files let the
    loader thread the setter has started finish first, see settle)."""
    import odml
    if spec.get("repo") is not None and spec.get("via") == "ctor":
        doc = odml.Document(repository=url(spec["repo"]))
    else:
        doc = odml.Document()
        if spec.get("repo") is not None:
            doc.repository = url(spec["repo"])
            if pause:
                pause()

    def mk(ss, parent):
        kw = {}
        if ss.get("repo") is not None and spec.get("sec_via") != "setter":
            kw["repository"] = url(ss["repo"])
        sec = odml.Section(name=ss["name"], type=ss["type"], parent=parent, **kw)
        if ss.get("repo") is not None and spec.get("sec_via") == "setter":
            sec.repository = url(ss["repo"])
            if pause:
                pause()
        for ps in ss.get("props", []):
            kw = {}
            if ps.get("dtype"):
                kw["dtype"] = ps["dtype"]
            if ps.get("card"):
                kw["val_cardinality"] = tuple(ps["card"])
            odml.Property(name=ps["name"], values=ps.get("values", []), parent=sec, **kw)
        for sub in ss.get("subs", []):
            mk(sub, sec)
    for ss in spec.get("secs", []):
        mk(ss, doc)
    return doc


FINAL_RULES = {"section": [{"x": "section_repository_present"}], "property": [{"x": "property_terminology_check"}]}


def exec_terms(case, tmp, saved, validate=True, reverse=False):
    """One history of the terms stream: several documents that look into several terminologies, validated
    one after the other with edits in between.  validate=False: the edits only (what another process
    does that has never validated anything before it looks at the final documents); reverse: the final
    validations in the opposite order."""
    import odml
    from odml.validation import Validation
    from odml.tools.odmlparser import ODMLWriter, ODMLReader
    import threading
    base_threads = set(threading.enumerate())
    nested = nested_terms(case["terms"])
    pristine = registry_names()
    urls = register_terms(case["terms"], case["token"], tmp)

    def url(key):
        return urls.get(key, key)
    pause = (lambda: settle(base_threads)) if nested else None
    docs = [build_user_doc(d, url, pause) for d in case["docs"]]
    start = registry_names()
    term_docs = []
    import odml.terminology as ot
    try:
        term_docs = [ot.terminologies[u] for u in sorted(urls.values()) if ot.terminologies.get(u) is not None]
    except Exception:
        pass
    vals = {}            # handle -> (Validation, root, table)
    extra_global = dict((k, []) for k in KLASSES)
    counter = [0]
    steps = []

    def fresh():
        counter[0] += 1
        return "n%d" % counter[0]

    def sections(d):
        return list(docs[d % len(docs)].itersections(recursive=True))

    def section(d, at):
        secs = sections(d)
        return secs[at % len(secs)] if secs else None

    def props(d):
        return list(docs[d % len(docs)].iterproperties())

    def target(d, on):
        doc = docs[d % len(docs)]
        if not on:
            return doc
        pool = sections(d) if on[0] == "sec" else props(d)
        return pool[on[1] % len(pool)] if pool else doc

    def refs_for(root):
        refs = {}
        for i, d in enumerate(docs):
            index_tree(d, "d%d" % i, refs)
        if id(root) not in refs:
            index_tree(root, "x", refs)      # an object that has been taken out of its document
        return refs

    def loaded_terms():
        # (round 5) also the terminologies the library has loaded itself by now
        try:
            return term_docs + [ot.terminologies[u] for u in sorted(urls.values())
                                if ot.terminologies.get(u) is not None
                                and not any(ot.terminologies[u] is t for t in term_docs)]
        except Exception:
            return term_docs

    def world(root, terms=None):
        return [deep_snapshot(d) for d in docs] + [deep_snapshot(root)] \
            + [deep_snapshot(t) for t in (term_docs if terms is None else terms)]

    def table(rules):
        return dict((k, [handler_func(h) for h in hs]) for k, hs in rules.items())

    def default_table():
        return dict((k, list(set(saved.get(k, ())) | set(extra_global[k]))) for k in KLASSES)

    def observe(fn, get_val, root, tab, report):
        held = loaded_terms()
        before = world(root, held)
        refs = refs_for(root)
        obs = {}
        texts = []
        try:
            r = fn()
            if report:
                texts.append(r)
            obs["issues"] = c08.issue_list(get_val().errors, refs)
        except Exception as exc:
            obs["run_raised"] = fw.exc_name(exc)
        after = world(root, held)
        try:
            val = get_val()
            if report:
                texts.append(val.report())
            else:
                val.run_validation()
            obs["again"] = c08.issue_list(val.errors, refs)
        except Exception as exc:
            obs["again_raised"] = fw.exc_name(exc)
        obs["unchanged"] = before == after and after == world(root, held)
        if len(texts) == 2:
            obs["report_same"] = texts[0] == texts[1]
        try:
            obs["expected"] = expected_issues(tab, root, refs)
        except Exception as exc:
            obs["expected_failed"] = fw.exc_name(exc)
        return obs

    for a in case["acts"]:
        t = a["t"]
        obs = {}
        try:
            if t == "val":
                if validate:
                    root = target(a["d"], a.get("on"))
                    mode = a["mode"]
                    box = {}
                    if mode == "reset":
                        tab = table(a["rules"])

                        def fn(root=root, tab=tab, box=box, a=a):
                            val = Validation(root, validate=False, reset=True)
                            box["val"] = val
                            for k in sorted(tab):
                                for f in tab[k]:
                                    val.register_custom_handler(k, f)
                            return val.report() if a.get("report") else val.run_validation()
                    else:
                        tab = default_table()

                        def fn(root=root, box=box, a=a, mode=mode):
                            box["val"] = root.validate() if mode == "method" else Validation(root)
                            return box["val"].report() if a.get("report") else None
                    obs = observe(fn, lambda box=box: box["val"], root, tab, a.get("report"))
                    if "val" in box:
                        vals[a["v"]] = (box["val"], root, tab, mode)
            elif t == "run":
                if validate and a["v"] in vals:
                    val, root, tab, mode = vals[a["v"]]
                    if mode != "reset":
                        tab = default_table()
                    obs = observe(val.report if a.get("report") else val.run_validation, lambda val=val: val,
                                  root, tab, a.get("report"))
            elif t == "global":
                f = handler_func(a["h"])
                Validation.register_handler(a["k"], f)
                extra_global[a["k"]].append(f)
            elif t == "valterm":
                # (round 5) a terminology the library holds is a Document like any other: a default
                # validation of it must not change it either
                term = ot.terminologies.get(url(a["key"]))
                if validate and term is not None:
                    box = {}

                    def fn(term=term, box=box):
                        box["val"] = Validation(term)
                    obs = observe(fn, lambda box=box: box["val"], term, default_table(), False)
            else:
                # edits: a refusal is not this property's business, the state it leaves behind is
                try:
                    d = a["d"] % len(docs)
                    if t == "loadterm":
                        # (round 5) the other doors into the terminology loader, used between two
                        # validations: whatever they leave behind when the file cannot be loaded
                        ot.load(url(a["key"]))
                    elif t == "termeq":
                        obj = docs[d] if a["at"] is None else section(d, a["at"])
                        obj.get_terminology_equivalent()
                    elif t == "finalize":
                        docs[d].finalize()
                    elif t == "inclterm":
                        odml.Section(name=fresh(), type="t", parent=docs[d],
                                     include=url(a["key"]) + ("#" + a["path"] if a.get("path") else ""))
                    elif t == "setrepo":
                        obj = docs[d] if a["at"] is None else section(d, a["at"])
                        obj.repository = url(a["to"])
                    elif t == "settype":
                        section(d, a["at"]).type = a["to"]
                    elif t == "renameprop":
                        ps = props(d)
                        ps[a["at"] % len(ps)].name = a["to"]
                    elif t == "addprop":
                        odml.Property(name=a["to"], values=[1], parent=section(d, a["at"]))
                    elif t == "addsec":
                        parent = docs[d] if a["at"] is None else section(d, a["at"])
                        kw = {"repository": url(a["repo"])} if a.get("repo") is not None else {}
                        odml.Section(name=fresh(), type=a["type"], parent=parent, **kw)
                    elif t in ("move", "clone"):
                        src = section(d, a["at"])
                        to_d = a["to_d"] % len(docs)
                        dest = docs[to_d] if a["to_at"] is None else section(to_d, a["to_at"])
                        if t == "clone":
                            cp = src.clone(keep_id=a.get("keep_id", False))
                            cp.name = fresh()
                            dest.append(cp)
                        else:
                            node, inside = dest, False
                            while node is not None:
                                inside = inside or node is src
                                node = node.parent
                            if not inside:
                                src.parent.remove(src)
                                src.name = fresh()
                                dest.append(src)
                    elif t == "removesec":
                        src = section(d, a["at"])
                        if len(sections(d)) > 1:
                            src.parent.remove(src)
                    elif t == "roundtrip":
                        text = ODMLWriter(a["fmt"]).to_string(docs[d])
                        docs[d] = ODMLReader(a["fmt"], show_warnings=False).from_string(text)
                    elif t == "newdoc":
                        docs.append(build_user_doc(a["doc"], url, pause))
                except Exception as exc:
                    obs["refused"] = fw.exc_name(exc)
        except Exception as exc:
            obs["raised"] = fw.exc_name(exc)
        if nested:
            settle(base_threads)
        obs["global"] = registry_names()
        steps.append(obs)

    # the final look at every document: the two terminology rules and all default rules
    def final(d):
        refs = index_tree(d, "d", {})
        val = Validation(d, validate=False, reset=True)
        for k in KLASSES:
            for h in FINAL_RULES.get(k, []) + [{"r": n} for n in RULES_FOR[k]]:
                val.register_custom_handler(k, handler_func(h))
        try:
            val.run_validation()
            return c08.issue_list(val.errors, refs)
        except Exception as exc:
            # (round 5) a terminology that cannot be loaded makes the Property rule fail: what the
            # Section rule and the default rules report is still looked at
            val = Validation(d, validate=False, reset=True)
            for k in KLASSES:
                for h in [x for x in FINAL_RULES.get(k, []) if k != "property"] + [{"r": n} for n in RULES_FOR[k]]:
                    val.register_custom_handler(k, handler_func(h))
            try:
                val.run_validation()
                return ["raised " + fw.exc_name(exc)] + c08.issue_list(val.errors, refs)
            except Exception as exc2:
                return ["raised " + fw.exc_name(exc), "raised " + fw.exc_name(exc2)]

    def expected_final(d):
        refs = index_tree(d, "d", {})
        tab = dict((k, [handler_func(h) for h in FINAL_RULES.get(k, []) + [{"r": n} for n in RULES_FOR[k]]])
                   for k in KLASSES)
        try:
            return expected_issues(tab, d, refs)
        except Exception as exc:
            tab["property"] = [handler_func({"r": n}) for n in RULES_FOR["property"]]
            try:
                return ["raised " + fw.exc_name(exc)] + expected_issues(tab, d, refs)
            except Exception as exc2:
                return ["raised " + fw.exc_name(exc), "raised " + fw.exc_name(exc2)]
    order = list(range(len(docs)))
    if reverse:
        order.reverse()
    finals = dict((i, final(docs[i])) for i in order)
    out = {"pristine": pristine, "start": start, "steps": steps,
           "final": [finals[i] for i in range(len(docs))]}
    if validate:
        again = dict((i, final(docs[i])) for i in reversed(order))
        out["final_again"] = [again[i] for i in range(len(docs))]
        out["final_expected"] = [expected_final(d) for d in docs]
    return out


def child_terms(items, hashseed):
    """The histories of a termsx batch in another process: no validation before the final ones, the
    histories and the documents of each in the opposite order."""
    out = {}
    for idx in reversed(range(len(items))):
        import threading
        before = set(threading.enumerate())
        saved = registry_copy()
        tmp = Scratch()
        try:
            out[idx] = exec_terms(items[idx], tmp, saved, validate=False, reverse=True)["final"]
        finally:
            registry_restore(saved)
            unregister_terms(before)
            tmp.remove()
    return [out[i] for i in range(len(items))]


# ----------------------------------------------------------------------------- the check
class C19(fw.Check):
    prop = "C19"
    lean_targets = ["OdmlModel.Props.C19"]
    obligations = ["C19." + t for t in [
        "validate_order_independent", "crash_order_independent", "report_depends_on_sets",
        "run_changes_nothing", "validate_repeatable", "registry_isolated",
        "ctor_and_setter_validations_private", "reset_starts_empty", "default_uses_global",
        "default_report_stable", "custom_rule_private", "custom_rule_not_in_default",
        "fresh_custom_is_private", "custom_on_default_object_leaks", "register_global_changes",
        # round 5: the table of loaded terminologies the on-demand rules read (Model/TermLoad.lean)
        "failed_load_leaves_no_trace", "terminology_load_repeatable", "terminology_load_history_independent",
        "terminology_rules_repeatable", "inconsistent_table_changes_outcome"]]
    trusted_base = [
        "Lean 4.33.0 kernel; axioms propext, Classical.choice, Quot.sound only (audited per theorem)",
        "hand-written models lean/OdmlModel/Model/Registry.lean, Model/Valid.lean, Model/TermLoad.lean, tied to "
        "/repo by this run",
        "harness/extract_tables.py (Validation._handlers regenerated into Lean: the initial registry)",
        "Driver/*.lean JSON glue; harness/framework.py, harness/c19.py, harness/c08.py (builders)",
    ]
    assumptions = [
        "which private validations the constructors / setters / save / load create is modelled by the "
        "macro table of Model/Registry.lean; only their effect on the class-level registry and on the "
        "user's validation objects is observable and compared",
        "'changes nothing in the validated objects' and 'same issues in another process' are checked on "
        "the implementation (snapshots, subprocess); in the model a validation is a pure function",
        "user rules are kind-correct (a rule written for Sections is not registered for 'odML')",
        "terminologies do not change while a history runs (the library keeps a loaded terminology for the "
        "whole session by design); 'the Section type is present in the terminology' is read as: a Section of "
        "the terminology, in document order, has that type up to letter case - only for types that are "
        "non-empty strings, otherwise the harness takes the rule's own answer",
    ]
    rule = ("random documents x random histories (4-16 steps) over: default validation, reset validation, "
            "register_custom_handler (user rules and default rule functions; mostly on reset objects), "
            "explicit register_handler, run / report, Section / Property construction, the three "
            "cardinality setters, value assignment, save (XML/JSON/YAML), load; plus handler-order "
            "permutations and cross-process (other PYTHONHASHSEED) validation of the same documents. "
            "Wide stream: documents with unresolved/resolved links and includes, deeper trees, non-ASCII "
            "values x histories that also validate a Section or a Property, start validations through "
            "Document.validate() / validate=False + run_validation() / Validation.validate(obj), load and "
            "save through every entry point (odml.load/save, fresh and re-used readers/writers, file and "
            "string, XMLReader/DictReader, quiet and loud, XML/JSON/YAML/RDF, good and refused files, "
            "unwritable targets), create objects in every spelling incl. refused ones, set every "
            "cardinality argument shape incl. refused ones, edit attributes and values between runs, "
            "resolve links, register raising user rules and the library's non-default rules. "
            "Round 3: histories over several documents that look into several terminologies (repository "
            "on the Document / a Section / inherited / none / unreachable / behind a file URL) validated one "
            "after the other with the on-demand terminology rules, repository / type / name edits, moves and "
            "clones between documents and round trips in between; the final issues also compared with a fresh "
            "process that has validated nothing before and takes the documents in the opposite order. "
            "Round 5: terminology files that end at every stage of loading (unreachable, undecodable, "
            "unparsable, dangling links, links and includes that resolve), repositories as constructor "
            "arguments, the loader entered through its other doors between validations; loader stream in "
            "correspondence with Model/TermLoad.lean. "
            "Non-trivial = a history with at least one registration on a reset validation or a library "
            "macro, or a permutation/xproc case with at least one issue.")

    def generate(self, tier, rng):
        quick = tier == "quick"
        cases = []
        for _ in range(900 if quick else 20000):
            cases.append({"stream": "history", "doc": gen_doc(rng, rng.choice([0.0, 0.05, 0.3])),
                          "acts": gen_history(rng, tier)})
        for _ in range(250 if quick else 6000):
            cases.append({"stream": "perm", "doc": gen_doc(rng, rng.choice([0.05, 0.3, 0.6])),
                          "seed": rng.randrange(10 ** 6)})
        for b in range(4 if quick else 16):
            cases.append({"stream": "xproc", "hashseed": rng.randrange(1, 4000),
                          "docs": [gen_doc(rng, rng.choice([0.05, 0.3, 0.6])) for _ in range(30 if quick else 200)]
                                  + [multi_doc(rng) for _ in range(3)]})
        # ---- added after seeded round 2 (drawn after the streams above, which keep their cases)
        for _ in range(600 if quick else 20000):
            cases.append({"stream": "wide", "doc": gen_wide_doc(rng), "acts": gen_wide_history(rng)})
        for _ in range(120 if quick else 3000):
            cases.append({"stream": "perm", "doc": gen_wide_doc(rng, zz=rng.random() < 0.7),
                          "seed": rng.randrange(10 ** 6), "resolve": rng.random() < 0.4})
        for b in range(2 if quick else 8):
            cases.append({"stream": "xproc", "hashseed": rng.randrange(1, 4000), "locale": bool(b % 2),
                          "roundtrip": True,
                          "docs": [gen_wide_doc(rng, zz=rng.random() < 0.8) for _ in range(25 if quick else 150)]})
        # ---- added after seeded round 3 (again drawn after everything above)
        for _ in range(350 if quick else 8000):
            cases.append(dict(gen_terms_case(rng), stream="terms"))
        for _ in range(200 if quick else 5000):
            cases.append({"stream": "wide", "doc": add_terms(rng, gen_wide_doc(rng)),
                          "acts": gen_wide_history(rng, LIB_WIDE3, 0.55)})
        for b in range(3 if quick else 12):
            cases.append({"stream": "termsx", "hashseed": rng.randrange(1, 4000), "locale": b % 3 == 2,
                          "items": [gen_terms_case(rng) for _ in range(40 if quick else 150)]})
        for b in range(1 if quick else 4):
            # the documents of a batch in the opposite order over there: what has been validated before
            # a document must not matter for the default rules either
            cases.append({"stream": "xproc", "hashseed": rng.randrange(1, 4000), "roundtrip": True,
                          "order": "reversed",
                          "docs": [gen_wide_doc(rng, zz=rng.random() < 0.8) for _ in range(25 if quick else 150)]})
        # ---- added after seeded round 5 (again drawn after everything above): terminology FILES that
        # fail at every stage of loading or hold links / includes the loader has to resolve, repositories
        # handed over as constructor arguments, the loader entered through its other doors in between
        for _ in range(150 if quick else 7000):
            cases.append(dict(gen_terms_case(rng, load=True), stream="terms"))
        for _ in range(60 if quick else 2500):
            cases.append({"stream": "wide", "doc": add_terms(rng, gen_wide_doc(rng), load=True),
                          "acts": gen_wide_history(rng, LIB_WIDE5, 0.55)})
        for b in range(1 if quick else 6):
            cases.append({"stream": "termsx", "hashseed": rng.randrange(1, 4000), "locale": b % 2 == 1,
                          "items": [gen_terms_case(rng, load=True) for _ in range(30 if quick else 150)]})
        for _ in range(100 if quick else 4000):
            cases.append(gen_loader_case(rng))
        # ---- round 5 follow-up: two loads of one url on a forced schedule (16 deterministic cases)
        cases.extend(gen_race_cases(rng))
        return cases

    # -- implementation ------------------------------------------------------
    def impl(self, case):
        import threading
        saved = registry_copy()
        tmp = Scratch()
        threads = set(threading.enumerate())
        try:
            st = case["stream"]
            if st in ("history", "wide"):
                return self.run_history(case, tmp, saved)
            if st == "perm":
                return self.run_perm(case)
            if st == "terms":
                return exec_terms(case, tmp, saved)
            if st == "loader":
                return self.run_loader(case, tmp)
            if st == "race":
                return run_race(case, tmp)
            if st == "termsx":
                return self.run_termsx(case)
            return self.run_xproc(case)
        finally:
            registry_restore(saved)
            unregister_terms(threads)
            tmp.remove()
            if tmp.path is not None:
                self.drop_include_cache()

    @staticmethod
    def drop_include_cache():
        """Only a resolved include (RDF export, a changed library) leaves a copy in the loader's cache."""
        import glob
        for path in glob.glob(os.path.join(tempfile.gettempdir(), "odml.cache", "*.c19inc_%d.xml" % os.getpid())):
            try:
                os.remove(path)
            except OSError:
                pass

    @staticmethod
    def include_file(tmp):
        """A small odML file the include attributes of a case point to -> its URL."""
        import odml
        from odml.tools.odmlparser import ODMLWriter
        inc = odml.Document()
        s = odml.Section(name="s", type="t", parent=inc)
        odml.Property(name="incp", values=[1], parent=s)
        path = os.path.join(tmp(), "c19inc_%d.xml" % os.getpid())
        with io.open(path, "w", encoding="utf-8") as fh:
            fh.write(ODMLWriter("XML").to_string(inc))
        return "file://" + path

    @staticmethod
    def node_of(doc):
        kind, snap, refs = c08.snapshot(doc)
        try:
            return kind, c08.model_node(kind, snap), refs
        except c08.Unsupported:
            return kind, None, refs

    def run_history(self, case, tmp, saved):
        import odml
        from odml.validation import Validation
        pristine = registry_names()
        inc_url = self.include_file(tmp) if any(ln.get("include") for ln in case["doc"].get("links", [])) \
            else "file:///nonexistent/c19inc.xml"
        import threading
        base_threads = set(threading.enumerate())
        nested = nested_terms(case["doc"].get("terms"))
        doc, _bt = build_doc(case["doc"], inc_url, tmp)
        if nested:
            settle(base_threads)
        start = registry_names()
        lib = Lib(doc, tmp, inc_url, strict=case["stream"] == "history")
        lib.settle = (lambda: settle(base_threads)) if nested else None
        insts = {}
        targets = {}           # user handle -> the object its Validation is bound to
        handlers_of = {}       # user handle -> {klass: [functions]} registered through the API
        is_reset = {}
        extra_global = dict((k, []) for k in KLASSES)
        steps = []

        def resolve(on):
            if not on:
                return doc
            obj = lib.section(on[1]) if on[0] == "sec" else lib.prop(on[1])
            return doc if obj is None else obj

        def bind(u, on):
            targets[u] = resolve(on)
            lib.protected.add(id(targets[u]))
            return targets[u]

        def snap(root):
            return full_snapshot(doc, () if root is doc else (root,))

        def table_of(u):
            if is_reset[u]:
                return handlers_of[u]
            return dict((k, list(set(saved.get(k, ())) | set(extra_global[k]))) for k in KLASSES)

        def validation_step(fn, u, texts=None):
            root = targets[u]
            before = snap(root)
            kind, node, refs = self.node_of(root)
            if kind not in ("doc", "sec", "prop") or (kind == "prop" and root.parent is not None):
                node = None      # the model's stand-alone Property has no siblings: oracle only
            obs = {"kind": kind, "node": node, "u": u}
            try:
                r = fn()
                if texts is not None:
                    texts.append(r)
                obs["issues"] = c08.issue_list(insts[u].errors, refs)
            except Exception as exc:
                obs["run_raised"] = fw.exc_name(exc)
            after = snap(root)
            if u in insts:
                try:
                    if texts is not None:
                        texts.append(insts[u].report())
                    else:
                        insts[u].run_validation()
                    obs["again"] = c08.issue_list(insts[u].errors, refs)
                except Exception as exc:
                    obs["again_raised"] = fw.exc_name(exc)
            after2 = snap(root)
            obs["unchanged"] = before == after and after == after2
            if texts is not None and len(texts) == 2:
                obs["report_same"] = texts[0] == texts[1]
            # what this object has to report, computed by applying handlers directly
            try:
                obs["expected"] = expected_issues(table_of(u), root, refs)
            except Exception as exc:
                obs["expected_failed"] = fw.exc_name(exc)
            return obs

        def direct_step(u, obj):
            """Validation.validate(obj): the rules of this Validation applied to one object."""
            root = targets[u]
            before = snap(root)
            _kind, _snap, refs = c08.snapshot(doc)
            if id(obj) not in refs:
                _k2, _s2, more = c08.snapshot(obj)
                refs = dict(more, **refs)
            klass = obj.format().name
            obs = {"kind": "direct", "node": None, "u": u}
            val = insts[u]
            try:
                n0 = len(val.errors)
                val.validate(obj)
                obs["issues"] = c08.issue_list(val.errors[n0:], refs)
            except Exception as exc:
                obs["run_raised"] = fw.exc_name(exc)
            after = full_snapshot(doc, (obj, root))
            try:
                n1 = len(val.errors)
                val.validate(obj)
                obs["again"] = c08.issue_list(val.errors[n1:], refs)
            except Exception as exc:
                obs["again_raised"] = fw.exc_name(exc)
            obs["unchanged"] = before == snap(root) and after == full_snapshot(doc, (obj, root))
            try:
                obs["expected"] = c08.issue_list(expected_of(table_of(u).get(klass, ()), klass, obj), refs)
            except Exception as exc:
                obs["expected_failed"] = fw.exc_name(exc)
            return obs

        def loaded_step(loaded):
            """A default validation of the document a load step has just returned."""
            try:
                before = full_snapshot(loaded)
                _kind, _snap, refs = c08.snapshot(loaded)
            except Exception:
                return None      # a document read with ignore_errors the harness cannot read back
            obs = {}
            try:
                val = Validation(loaded)
                obs["issues"] = c08.issue_list(val.errors, refs)
                obs["again"] = c08.issue_list(loaded.validate().errors, refs)
            except Exception as exc:
                obs["run_raised"] = fw.exc_name(exc)
            obs["unchanged"] = before == full_snapshot(loaded)
            try:
                table = dict((k, list(set(saved.get(k, ())) | set(extra_global[k]))) for k in KLASSES)
                obs["expected"] = apply_directly(table, loaded, refs)
            except Exception as exc:
                obs["expected_failed"] = fw.exc_name(exc)
            return obs

        for a in case["acts"]:
            t = a["t"]
            obs = {}
            try:
                if t == "new":
                    # both spellings of "created with reset=True" (validate defaults to True)
                    root = bind(a["u"], a.get("on"))
                    if a.get("quiet", True) == "pos":
                        insts[a["u"]] = Validation(root, False, True)
                    else:
                        insts[a["u"]] = Validation(root, validate=False, reset=True) if a.get("quiet", True) \
                            else Validation(root, reset=True)
                    is_reset[a["u"]] = True
                    handlers_of[a["u"]] = {}
                elif t == "default":
                    u = a["u"]
                    is_reset[u] = False
                    handlers_of[u] = {}
                    root = bind(u, a.get("on"))
                    via = a.get("via", "Validation")

                    def create(u=u, root=root, via=via):
                        if via == "validate" and root is doc:
                            insts[u] = doc.validate()
                        elif via == "deferred":
                            insts[u] = Validation(root, validate=False)
                            insts[u].run_validation()
                        else:
                            insts[u] = Validation(root)
                    obs = validation_step(create, u)
                elif t == "custom":
                    f = handler_func(a["h"])
                    insts[a["u"]].register_custom_handler(a["k"], f)
                    if is_reset[a["u"]]:
                        lst = handlers_of[a["u"]].setdefault(a["k"], [])
                        if f not in lst:
                            lst.append(f)
                    else:
                        obs["on_default_object"] = True
                        extra_global[a["k"]].append(f)
                elif t == "global":
                    f = handler_func(a["h"])
                    Validation.register_handler(a["k"], f)
                    extra_global[a["k"]].append(f)
                elif t == "run":
                    obs = validation_step(insts[a["u"]].run_validation, a["u"])
                elif t == "report":
                    obs = validation_step(insts[a["u"]].report, a["u"], [])
                elif t == "direct":
                    obs = direct_step(a["u"], resolve(a.get("obj")))
                elif t == "lib":
                    lib.loaded = None
                    lib.run(a)
                    if lib.loaded is not None:
                        got = loaded_step(lib.loaded)
                        if got is not None:
                            obs["loaded"] = got
            except Exception as exc:
                obs["raised"] = fw.exc_name(exc)
            if nested:
                settle(base_threads)
            obs["global"] = registry_names()
            steps.append(obs)
        return {"pristine": pristine, "start": start, "steps": steps}

    def run_loader(self, case, tmp):
        import threading
        import odml
        import odml.terminology as ot
        from odml import validation
        pristine = registry_names()
        urls = register_terms(case["files"], case["token"], tmp)
        order = [urls[t["key"]] for t in case["files"]]
        states = []
        for t, url in zip(case["files"], order):
            copy = _TERMS.get(url)
            if t["kind"] == "missing" or t.get("broken") in ("binary", "latin1"):
                states.append("unreachable")        # nothing can be fetched / decoded
            elif t.get("broken"):
                states.append("unparsable")
            elif copy is UNLOADABLE:
                states.append("unfinalizable")
            elif copy is None or copy is UNKNOWN:
                states.append(None)
            else:
                states.append("good")

        def table():
            out = []
            for i, u in enumerate(order):
                try:
                    out.append([i, ot.terminologies[u] is not None])
                except KeyError:
                    pass
            return out

        def count(root, klass, rule):
            val = validation.Validation(root, validate=False, reset=True)
            val.register_custom_handler(klass, rule)
            try:
                val.run_validation()
            except Exception:
                return "raised"
            return len(val.errors)
        steps = []
        for op in case["ops"]:
            url = order[op["u"] % len(order)]
            obs = {}
            try:
                if op["t"] == "load":
                    try:
                        obs["outcome"] = "none" if ot.load(url) is None else "doc"
                    except Exception:
                        obs["outcome"] = "raised"
                elif op["t"] == "deferred":
                    before = set(threading.enumerate())
                    ot.deferred_load(url)
                    for thread in threading.enumerate():
                        if thread not in before and thread is not threading.current_thread():
                            thread.join(120)
                else:
                    sec = odml.Section(name="s", type=op["type"], repository=url)
                    state, tsec = term_lookup(sec)
                    obs["hasType"] = state == "found"
                    obs["hasName"] = state == "found" and any(p.name == op["pname"] for p in tsec.properties)
                    if op["t"] == "rule":
                        obs["warnings"] = count(sec, "section", validation.section_repository_present)
                    else:
                        prop = odml.Property(name=op["pname"], parent=sec)
                        obs["warnings"] = count(prop, "property", validation.property_terminology_check)
            except Exception as exc:
                obs["raised"] = fw.exc_name(exc)
            obs["table"] = table()
            steps.append(obs)
        return {"pristine": pristine, "end": registry_names(), "states": states, "steps": steps}

    @staticmethod
    def lib(a, doc, tmp, fresh, target_section, target_property):
        """The macros of the first round (kept for callers of the old signature)."""
        Lib(doc, (lambda: tmp), "file:///nonexistent/c19inc.xml").run(a)

    def run_perm(self, case):
        import random
        from odml.validation import Validation
        doc, _bt = build_doc(case["doc"])
        if case.get("resolve"):
            for sec in list(doc.itersections(recursive=True)):
                if sec.link is not None:
                    try:
                        sec.merge()
                    except Exception:
                        pass
        kind, node, refs = self.node_of(doc)
        rng = random.Random(case["seed"])
        base = dict((k, sorted(Validation._handlers.get(k, ()), key=lambda f: f.__name__)) for k in KLASSES)
        orders = []
        results = []
        snaps = [full_snapshot(doc)]
        for _ in range(2):
            table = dict((k, rng.sample(v, len(v))) for k, v in base.items())
            val = Validation(doc, validate=False, reset=True)
            try:
                val._handlers = table
            except AttributeError:
                return {"skipped": "no _handlers attribute"}
            val.run_validation()
            results.append(c08.issue_list(val.errors, refs))
            snaps.append(full_snapshot(doc))
            orders.append(dict((k, [f.__name__ for f in v]) for k, v in table.items()))
        default = c08.issue_list(Validation(doc).errors, refs)
        snaps.append(full_snapshot(doc))
        method = c08.issue_list(doc.validate().errors, refs)
        snaps.append(full_snapshot(doc))
        return {"kind": kind, "node": node, "orders": orders, "results": results, "default": default,
                "method": method, "unchanged": all(s == snaps[0] for s in snaps)}

    @staticmethod
    def child_env(case):
        env = dict(os.environ)
        env["PYTHONHASHSEED"] = str(case["hashseed"])
        env["ODML_REPO"] = fw.REPO
        env["PYTHONPATH"] = os.path.join(fw.VERIF, "harness")
        if case.get("locale"):
            # process-level defaults the issues must not depend on
            env["LC_ALL"] = "C"
            env["LANG"] = "C"
            env["PYTHONUTF8"] = "0"
            env["PYTHONCOERCECLOCALE"] = "0"
        return env

    def run_termsx(self, case):
        import threading
        here = []
        for item in case["items"]:
            saved = registry_copy()
            tmp = Scratch()
            threads = set(threading.enumerate())
            try:
                here.append(exec_terms(item, tmp, saved))
            finally:
                registry_restore(saved)
                unregister_terms(threads)
                tmp.remove()
        cmd = [sys.executable, os.path.abspath(__file__), "--child-terms"]
        proc = subprocess.run(cmd, input=json.dumps(case["items"]).encode("utf-8"), env=self.child_env(case),
                              stdout=subprocess.PIPE, stderr=subprocess.PIPE, timeout=900)
        if proc.returncode != 0:
            return {"child_failed": proc.stderr.decode("utf-8", "replace")[-600:], "here": here}
        there = json.loads(proc.stdout.decode("utf-8").strip().splitlines()[-1])
        return {"here": here, "there": there}

    def run_xproc(self, case):
        here = child_validate(case["docs"], case.get("roundtrip", False))
        env = self.child_env(case)
        cmd = [sys.executable, os.path.abspath(__file__), "--child"] + (["--roundtrip"] if case.get("roundtrip") else []) \
            + (["--reversed"] if case.get("order") == "reversed" else [])
        proc = subprocess.run(cmd, input=json.dumps(case["docs"]).encode("utf-8"), env=env,
                              stdout=subprocess.PIPE, stderr=subprocess.PIPE, timeout=600)
        if proc.returncode != 0:
            return {"child_failed": proc.stderr.decode("utf-8", "replace")[-600:], "here": here}
        there = json.loads(proc.stdout.decode("utf-8").strip().splitlines()[-1])
        return {"here": here, "there": there}

    # -- model ---------------------------------------------------------------
    @staticmethod
    def modelled(case):
        """Does the Lean model know every handler this history registers?"""
        return all(handler_modelled(a["h"]) for a in case["acts"] if a["t"] in ("custom", "global"))

    @staticmethod
    def model_acts(case, obs):
        """-> (driver acts, index of the driver output that belongs to each impl step)"""
        out = []
        last = []
        for a, step in zip(case["acts"], obs["steps"]):
            t = a["t"]
            if t == "new":
                out.append({"t": "new", "u": a["u"], "reset": True})
            elif t == "default":
                out.append({"t": "new", "u": a["u"], "reset": False})
                if step.get("node") is not None:
                    out.append({"t": "run", "u": a["u"], "kind": step["kind"], "node": step["node"]})
            elif t in ("run", "report"):
                if step.get("node") is not None:
                    out.append({"t": "run", "u": a["u"], "kind": step["kind"], "node": step["node"]})
            elif t == "custom":
                out.append({"t": "custom", "u": a["u"], "k": a["k"], "h": a["h"]})
            elif t == "global":
                out.append({"t": "global", "k": a["k"], "h": a["h"]})
            elif t == "lib" and a["m"] in MODEL_MACROS:
                out.append({"t": "lib", "m": a["m"]})
            # every other step (the wide stream's macros, Validation.validate(obj)) has no macro in
            # the model: the model's registry stays what it is and is compared again after the step
            last.append(len(out) - 1)
        return out, last

    def model_requests(self, case, obs):
        st = case["stream"]
        if st in ("history", "wide"):
            if any("raised" in s or "run_raised" in s or "again_raised" in s for s in obs["steps"]):
                return []
            if not self.modelled(case):
                return []
            acts, _last = self.model_acts(case, obs)
            return [{"p": "C19", "op": "history", "acts": acts}]
        if st == "loader":
            if any(x is None for x in obs["states"]) or any("raised" in x for x in obs["steps"]):
                return []       # a file the harness cannot classify: left to the oracle
            n = len(obs["states"])
            return [{"p": "C19", "op": "loader", "files": obs["states"],
                     "ops": [{"t": op["t"], "u": op["u"] % n, "hasType": bool(step.get("hasType")),
                              "hasName": bool(step.get("hasName"))}
                             for op, step in zip(case["ops"], obs["steps"])]}]
        if st == "perm":
            if obs.get("node") is None or "skipped" in obs:
                return []
            known = set(n for names in RULES_FOR.values() for n in names)
            if any(n not in known for order in obs["orders"] for k in KLASSES for n in order[k]):
                return []       # a handler the model does not know: left to the oracle
            return [{"p": "C19", "op": "validate_with", "kind": obs["kind"], "node": obs["node"],
                     "table": dict((k, [{"r": n} for n in order[k]]) for k in KLASSES)}
                    for order in obs["orders"]]
        return []

    def compare(self, case, obs, answers):
        out = []
        st = case["stream"]
        if st in ("history", "wide") and answers:
            _acts, last = self.model_acts(case, obs)
            outs = answers[0]
            for i, (a, step) in enumerate(zip(case["acts"], obs["steps"])):
                if last[i] < 0 or last[i] >= len(outs):
                    continue
                m = outs[last[i]]
                if m["global"] != step["global"]:
                    out.append("step %d (%s): model registry %s, implementation %s"
                               % (i, a["t"], m["global"], step["global"]))
                    break
                if a["t"] in ("default", "run", "report") and "issues" in step \
                        and step.get("node") is not None and "issues" in m:
                    mine = sorted(m["issues"], key=lambda x: (x[0], x[1], x[2]))
                    if mine != [list(x) for x in step["issues"]]:
                        out.append("step %d (%s of object %s): model issues %s..., implementation %s..."
                                   % (i, a["t"], a.get("u"), mine[:5], step["issues"][:5]))
                        break
        if st == "loader" and answers:
            for i, (op, step, m) in enumerate(zip(case["ops"], obs["steps"], answers[0])):
                for key in ("outcome", "warnings", "table"):
                    mine, theirs = m.get(key), step.get(key)
                    if key == "table":
                        # only the Documents the table holds are compared: whether a failure is remembered
                        # as None or found again by the next load makes no difference to any validation
                        mine = [e for e in mine or [] if e[1]]
                        theirs = [e for e in theirs or [] if e[1]]
                    if key in m and mine != theirs:
                        out.append("step %d (%s of file %d, %s): %s is %s in the model, %s in the implementation"
                                   % (i, op["t"], op["u"], obs["states"][op["u"] % len(obs["states"])], key,
                                      m[key], step.get(key)))
                if out:
                    break
        if st == "perm" and answers:
            for k, ans in enumerate(answers):
                mine = sorted(ans, key=lambda x: (x[0], x[1], x[2]))
                if mine != [list(x) for x in obs["results"][k]]:
                    out.append("handler order %d: model issues differ from the implementation" % k)
        return out

    # -- oracle --------------------------------------------------------------
    @staticmethod
    def judge_validation(out, i, what, u, step):
        """The clauses about one validation (a step of the user, or of a freshly loaded document)."""
        if "run_raised" in step:
            # only a user rule that itself raises on this document explains a raising validation
            if "expected_failed" not in step:
                out.append("step %d (%s) raised %s" % (i, what, step["run_raised"]))
                return False
            if "again" in step:
                out.append("step %d (%s): the validation raised %s, validating the unchanged objects "
                           "again did not" % (i, what, step["run_raised"]))
        elif "again_raised" in step:
            out.append("step %d (%s): validating the unchanged objects again raised %s"
                       % (i, what, step["again_raised"]))
        if not step["unchanged"]:
            out.append("step %d (%s): the validated objects were changed by the validation" % (i, what))
        if "issues" in step:
            if "again" in step and step["again"] != step["issues"]:
                out.append("step %d (%s): validating the unchanged objects again reports %d issues "
                           "instead of %d" % (i, what, len(step["again"]), len(step["issues"])))
            if step.get("report_same") is False:
                out.append("step %d (%s): two reports on the unchanged objects differ" % (i, what))
            if "expected" in step and step["expected"] != step["issues"]:
                extra = [x for x in step["issues"] if x not in step["expected"]]
                missing = [x for x in step["expected"] if x not in step["issues"]]
                out.append("step %d (%s of object %s): reported issues are not those of the rules "
                           "registered for it: unexpected %s, missing %s"
                           % (i, what, u, extra[:4], missing[:4]))
        return True

    def judge_terms(self, out, case, obs, label):
        """The clauses of one history of the terms stream."""
        if obs["start"] != obs["pristine"]:
            out.append("%sbuilding the documents changed the default registry: %s -> %s"
                       % (label, obs["pristine"], obs["start"]))
        prev = obs["start"]
        for i, (a, step) in enumerate(zip(case["acts"], obs["steps"])):
            t = a["t"]
            if "raised" in step:
                out.append("%sstep %d (%s) raised %s" % (label, i, t, step["raised"]))
                break
            want = prev
            if t == "global":
                want = dict(prev)
                want[a["k"]] = sorted(set(prev[a["k"]]) | {handler_func(a["h"]).__name__})
            if step["global"] != want:
                out.append("%sstep %d (%s) changed the default registry: %s -> %s"
                           % (label, i, t, prev, step["global"]))
            prev = step["global"]
            if "unchanged" in step:
                what = "%s%s of document %s" % (label, t, a.get("d", "?"))
                if not self.judge_validation(out, i, what, a.get("v"), step):
                    break
        for d, (one, two) in enumerate(zip(obs["final"], obs.get("final_again", obs["final"]))):
            if one != two:
                out.append("%sdocument %d: validating the unchanged document again (after the other documents "
                           "have been validated) reports %s, before %s" % (label, d, two[:6], one[:6]))
        for d, (one, exp) in enumerate(zip(obs["final"], obs.get("final_expected", obs["final"]))):
            if one != exp:
                extra = [x for x in one if x not in exp]
                missing = [x for x in exp if x not in one]
                out.append("%sdocument %d: the final validation does not report what its rules yield on this "
                           "document: unexpected %s, missing %s" % (label, d, extra[:4], missing[:4]))

    def oracle(self, case, obs):
        if "harness_exception" in obs:
            return []
        st = case["stream"]
        out = []
        if st in ("history", "wide"):
            if obs["start"] != obs["pristine"]:
                out.append("building the document (constructors, value and cardinality setters) changed "
                           "the default registry: %s -> %s" % (obs["pristine"], obs["start"]))
            prev = obs["start"]
            for i, (a, step) in enumerate(zip(case["acts"], obs["steps"])):
                t = a["t"]
                if "raised" in step:
                    out.append("step %d (%s) raised %s" % (i, t, step["raised"]))
                    break
                want = prev
                if t == "global" or (t == "custom" and step.get("on_default_object")):
                    name = handler_func(a["h"]).__name__
                    want = dict(prev)
                    want[a["k"]] = sorted(set(prev[a["k"]]) | {name})
                    if t == "custom" and step["global"] == prev:
                        want = prev          # the property is silent on non-reset objects
                if step["global"] != want:
                    what = "lib:" + a["m"] if t == "lib" else t
                    out.append("step %d (%s) changed the default registry: %s -> %s"
                               % (i, what, prev, step["global"]))
                prev = step["global"]
                if "unchanged" in step:
                    if not self.judge_validation(out, i, t, a.get("u"), step):
                        break
                if "loaded" in step:
                    self.judge_validation(out, i, "default validation of the document loaded by lib:" + a["m"],
                                          "loaded", step["loaded"])
        elif st == "terms":
            self.judge_terms(out, case, obs, "")
        elif st == "race":
            if "skipped" in obs:
                return []
            what = "%s, first %s stopped at '%s', second %s" % (case["handler"], case["first"], case["stop"],
                                                                 case["second"])
            if "first_raised" in obs or "second_error" in obs or "issues_raised" in obs:
                out.append("%s: raised %s" % (what, obs.get("first_raised") or obs.get("second_error")
                                              or obs.get("issues_raised")))
            if obs.get("first") is False:
                out.append("%s: the first load fetched and parsed the file but returned no Document" % what)
            if obs.get("second") is False:
                out.append("%s: the second load of the same url returned no Document" % what)
            if obs.get("table") is False:
                out.append("%s: the table of loaded files does not hold the Document" % what)
            for key in ("first_issues", "issues", "again"):
                if key in obs and obs[key] != obs.get("expected"):
                    out.append("%s: the validation (%s) reports %s, a process in which the loads do not "
                               "overlap reports %s" % (what, key, obs[key][:4], obs.get("expected", [])[:4]))
                    break
        elif st == "loader":
            # the property restated without the model: whatever entered the loader in between, the same
            # file loads the same way and the same rule reports the same number of issues on an equal
            # object; nothing of it touches the rule registry
            if obs["end"] != obs["pristine"]:
                out.append("the default registry was changed: %s -> %s" % (obs["pristine"], obs["end"]))
            seen = {}
            for i, (op, step) in enumerate(zip(case["ops"], obs["steps"])):
                if "raised" in step:
                    out.append("step %d (%s) raised %s" % (i, op["t"], step["raised"]))
                    break
                if op["t"] == "deferred":
                    continue
                key = (op["t"], op["u"]) if op["t"] == "load" else (op["t"], op["u"], op["type"], op["pname"])
                got = step.get("outcome", step.get("warnings"))
                if key in seen and seen[key][1] != got:
                    out.append("step %d: %s on file %d yields %s, the same at step %d yielded %s"
                               % (i, op["t"], op["u"], got, seen[key][0], seen[key][1]))
                    break
                seen.setdefault(key, (i, got))
        elif st == "termsx":
            for n, (item, got) in enumerate(zip(case["items"], obs["here"])):
                self.judge_terms(out, item, got, "history %d, " % n)
            if "child_failed" in obs:
                out.append("validation in a fresh process failed: %s" % obs["child_failed"][-200:])
            else:
                for n, (got, there) in enumerate(zip(obs["here"], obs["there"])):
                    if [list(map(list, x)) for x in got["final"]] != [list(map(list, x)) for x in there]:
                        bad = [i for i, (x, y) in enumerate(zip(got["final"], there)) if list(map(list, x)) != list(map(list, y))]
                        out.append("history %d, documents %s: a process that has validated nothing else before "
                                   "reports other issues on the same documents (here %s, there %s)"
                                   % (n, bad[:4], [got["final"][i] for i in bad[:1]], [there[i] for i in bad[:1]]))
        elif st == "perm":
            if "skipped" in obs:
                return []
            if obs["results"][0] != obs["results"][1]:
                out.append("two orders of the same handlers report different issue multisets")
            if obs["results"][0] != obs["default"]:
                out.append("the default validation differs from the default rules applied in a fixed order")
            if "method" in obs and obs["method"] != obs["default"]:
                out.append("Document.validate() and Validation(doc) report different issues on the same "
                           "unchanged document")
            if not obs["unchanged"]:
                out.append("the validated objects were changed by a validation")
        else:
            if "child_failed" in obs:
                out.append("validation in a fresh process failed: %s" % obs["child_failed"][-200:])
            elif obs["here"] != obs["there"]:
                bad = [i for i, (a, b) in enumerate(zip(obs["here"], obs["there"])) if a != b]
                out.append("documents %s: another process reports different issues" % bad[:5])
        return out

    def finding_key(self, case, obs, failure):
        # no open finding: terminology-cache-copy-in-locale-encoding was repaired by 0da7400, so a
        # cross-process difference under the C locale is a violation again;
        # terminology-cache-copy-read-while-written was repaired by 7dfcfe5 (race stream)
        return None

    def tag(self, case, obs):
        st = case["stream"]
        if st in ("history", "wide"):
            kinds = set(a["t"] if a["t"] != "lib" else "lib" for a in case["acts"])
            priv = any(a["t"] == "custom" for a in case["acts"]) or "lib" in kinds
            glob = "global" in kinds
            extra = ""
            if st == "wide":
                extra = "" if self.modelled(case) and not any(
                    "run_raised" in s for s in obs.get("steps", [])) else "+oracle-only"
            return ("%s:%s%s%s" % (st, "global" if glob else "clean", "+custom" if priv else "", extra), priv)
        if st == "perm":
            return ("perm", bool(obs.get("default")))
        if st == "terms":
            return ("terms", any(s.get("issues") for s in obs.get("steps", [])))
        if st == "race":
            return ("race+skipped" if "skipped" in obs else "race", "skipped" not in obs)
        if st == "loader":
            return ("loader" if None not in obs.get("states", [None]) else "loader+oracle-only",
                    any(x != "good" for x in obs.get("states", [])))
        if st == "termsx":
            return ("termsx", any(any(h.get("final", [])) for h in obs.get("here", [])))
        return ("xproc", any(obs.get("here", [])))


def issues_with_text(errors, refs):
    """(object, IssueID, rank, message) - the same code produces both sides of a cross-process
    comparison, so the message text belongs to "the same collection of issues" here."""
    import re
    out = []
    for e in errors:
        vid = getattr(e.validation_id, "value", None)
        msg = re.sub(r"0x[0-9a-fA-F]+", "0x", str(getattr(e, "msg", "")))
        out.append([refs.get(id(e.obj), "?"), vid, e.rank, msg])
    return sorted(out, key=lambda x: (x[0], x[1] if x[1] is not None else -1, str(x[2]), x[3]))


def child_validate(docs, roundtrip=False):
    """Default validation and a reset validation with user rules, per document -> issue lists.
    roundtrip: also the default validation of the document read back from its own JSON text, and of
    the document after its links have been resolved (ids of merged copies are random: not compared)."""
    from odml.validation import Validation
    out = []
    for spec in docs:
        doc, _bt = build_doc(spec)
        _kind, _snap, refs = c08.snapshot(doc)
        try:
            a = issues_with_text(Validation(doc).errors, refs)
        except Exception as exc:
            a = ["raised " + fw.exc_name(exc)]
        val = Validation(doc, validate=False, reset=True)
        for k in KLASSES:
            val.register_custom_handler(k, custom_1)
            val.register_custom_handler(k, custom_2)
            for name in RULES_FOR[k]:
                val.register_custom_handler(k, handler_func({"r": name}))
        try:
            val.run_validation()
            b = issues_with_text(val.errors, refs)
        except Exception as exc:
            b = ["raised " + fw.exc_name(exc)]
        row = [a, b]
        if roundtrip:
            from odml.tools.odmlparser import ODMLWriter, ODMLReader
            try:
                c = issues_with_text(doc.validate().errors, refs)
            except Exception as exc:
                c = ["raised " + fw.exc_name(exc)]
            try:
                text = ODMLWriter("JSON").to_string(doc)
                back = ODMLReader("JSON", show_warnings=False).from_string(text)
                _k, _s, brefs = c08.snapshot(back)
                d = issues_with_text(Validation(back).errors, brefs)
            except Exception as exc:
                d = ["raised " + fw.exc_name(exc)]
            try:
                for sec in list(doc.itersections(recursive=True)):
                    if sec.link is not None:
                        try:
                            sec.merge()
                        except Exception:
                            pass
                _k, _s, mrefs = c08.snapshot(doc)
                e = issues_with_text(Validation(doc).errors, mrefs)
            except Exception as exc:
                e = ["raised " + fw.exc_name(exc)]
            row += [c, d, e]
        out.append(row)
    return out


if __name__ == "__main__":
    if len(sys.argv) > 1 and sys.argv[1] == "--child":
        specs = json.loads(sys.stdin.read())
        with fw.quiet():
            if "--reversed" in sys.argv[2:]:
                res = child_validate(specs[::-1], "--roundtrip" in sys.argv[2:])[::-1]
            else:
                res = child_validate(specs, "--roundtrip" in sys.argv[2:])
        sys.stdout.write(json.dumps(res) + "\n")
        sys.exit(0)
    if len(sys.argv) > 1 and sys.argv[1] == "--child-terms":
        specs = json.loads(sys.stdin.read())
        with fw.quiet():
            res = child_terms(specs, None)
        sys.stdout.write(json.dumps(res) + "\n")
        sys.exit(0)
    sys.exit(fw.main(C19(), sys.argv[1:]))
