# -*- coding: utf-8 -*-
"""
C19 - Validation observes only: no side effects, repeatable, custom rules stay private.

Tie between lean/OdmlModel/Model/Registry.lean (+ Model/Valid.lean) and /repo/odml/validation.py,
property.py, section.py, tools/odmlparser.py.

Streams
  history : a document x a random history of default validations, reset validations with added
            rules, explicit global registrations, object creation, cardinality changes, value
            assignment, saves and loads.  After every step: the class-level registry
            (klass -> sorted handler names); at every validation step: the issue multiset, the
            multiset of an immediate re-run, and a deep snapshot of all objects before/after.
  perm    : the default rules applied in two different orders (handler sets replaced by lists).
  xproc   : the same documents validated here and in a fresh interpreter with another
            PYTHONHASHSEED.
"""
import io
import json
import os
import shutil
import subprocess
import sys
import tempfile

import framework as fw
import c08

KLASSES = ["odML", "section", "property"]


# ----------------------------------------------------------------------------- user rules
def custom_1(obj):
    from odml.validation import ValidationError, IssueID, LABEL_WARNING
    yield ValidationError(obj, "c1", LABEL_WARNING, IssueID.custom_validation)


def custom_2(obj):
    from odml.validation import ValidationError, IssueID, LABEL_ERROR
    name = getattr(obj, "name", None)
    if isinstance(name, str) and name.startswith("a"):
        yield ValidationError(obj, "c2", LABEL_ERROR, IssueID.custom_validation)


def custom_3(obj):
    return
    yield  # pragma: no cover


CUSTOM = {1: custom_1, 2: custom_2, 3: custom_3}
# default rule functions a user may add to a reset validation, per class (kind-correct)
RULES_FOR = {"odML": ["object_required_attributes", "section_unique_name_type", "document_unique_ids"],
             "section": ["object_name_readable", "section_type_must_be_defined", "property_unique_names",
                         "section_sections_cardinality", "section_properties_cardinality",
                         "object_required_attributes", "section_unique_name_type"],
             "property": ["object_name_readable", "property_values_cardinality", "property_values_check",
                          "property_dependency_check", "object_required_attributes",
                          "property_values_string_check"]}


def handler_func(h):
    from odml import validation
    if "c" in h:
        return CUSTOM[h["c"]]
    return getattr(validation, h["r"])


def registry_names():
    from odml.validation import Validation
    return dict((k, sorted(getattr(f, "__name__", repr(f)) for f in Validation._handlers.get(k, ())))
                for k in KLASSES)


def registry_copy():
    from odml.validation import Validation
    return dict((k, set(v)) for k, v in Validation._handlers.items())


def registry_restore(saved):
    from odml.validation import Validation
    Validation._handlers.clear()
    for k, v in saved.items():
        Validation._handlers[k] = set(v)


# ----------------------------------------------------------------------------- snapshots
def deep_snapshot(root):
    """Everything the format of each object names, read through the public attributes."""
    def attrs(obj):
        out = {}
        fmt = obj.format()
        for key in fmt.arguments_keys:
            name = fmt.map(key)
            if name in ("sections", "properties"):
                continue
            try:
                val = getattr(obj, name)
            except Exception as exc:
                val = "raises " + fw.exc_name(exc)
            out[name] = repr(val)
        return out

    def prop(p):
        d = attrs(p)
        d["#values"] = [repr(v) for v in p.values]
        d["#parent"] = None if p.parent is None else p.parent.id
        return d

    def sec(s):
        d = attrs(s)
        d["#parent"] = None if s.parent is None else s.parent.id
        d["#props"] = [prop(p) for p in s.properties]
        d["#secs"] = [sec(c) for c in s.sections]
        return d
    name = root.format().name
    if name == "property":
        return prop(root)
    if name == "section":
        return sec(root)
    d = attrs(root)
    d["#secs"] = [sec(c) for c in root.sections]
    return d


def walk(root):
    """The objects a validation of a Document visits (own traversal): (klass, object)."""
    out = [("odML", root)]
    stack = list(root.sections)
    while stack:
        s = stack.pop(0)
        out.append(("section", s))
        for p in s.properties:
            out.append(("property", p))
        stack.extend(s.sections)
    return out


def apply_directly(table, root, refs):
    """Issues the handlers of `table` (klass -> iterable of functions) yield over the walk."""
    out = []
    for klass, obj in walk(root):
        for h in table.get(klass, ()):
            for e in h(obj):
                out.append(e)
    return c08.issue_list(out, refs)


# ----------------------------------------------------------------------------- generation
ZZ = {"id": "zz", "name": "zz", "type": "t", "sc": None, "pc": None, "subs": [],
      "props": [{"id": "zp", "name": "zp", "dtype": "int", "values": [{"i": 1}], "raw": False, "card": None}]}


# strings on which several of the string-dtype hints of property_values_string_check apply at once
# (the report must not depend on the order in which a process happens to try them)
MULTI = ["True\nand more", "t\nx", "FALSE\n1", "(0.5; 1.5)\nsecond line", "f\n(1;2)", "True (1;2)",
         "(a)\n12", "t 12:30", "False\r\n2020-01-02"]


def multi_doc(rng):
    """A document whose string Properties hold values several string-dtype hints apply to."""
    ids = c08.id_source(rng, 0.0)
    props = []
    for i, text in enumerate(rng.sample(MULTI, 5)):
        vals = [{"s": text}] + ([{"s": rng.choice(MULTI)}] if rng.random() < 0.4 else [])
        props.append({"id": ids(), "name": "m%d" % i, "dtype": "string", "values": vals, "raw": False,
                      "card": None})
    sec = {"id": ids(), "name": "multi", "type": "t", "sc": None, "pc": None, "subs": [], "props": props}
    return {"id": ids(), "secs": [sec, json.loads(json.dumps(ZZ))]}


def gen_doc(rng, dirt):
    ids = c08.id_source(rng, 0.1 if dirt else 0.0)
    secs = []
    for _ in range(rng.choice([0, 1, 2])):
        secs.append(c08.gen_sec(rng, ids, rng.choice([0, 1]), c08.STRS[:30] + MULTI, dirt, [x["name"] for x in secs]))
    doc = {"id": ids(), "secs": secs + [json.loads(json.dumps(ZZ))]}
    # the one documented way to make a rule raise (C08: unreadable tuple length) is kept out
    def clean(sec):
        for p in sec["props"]:
            d = p.get("dtype")
            if isinstance(d, str) and d.endswith("-tuple") and not d[:-6].isdigit():
                p["dtype"] = "2-tuple"
        for c in sec["subs"]:
            clean(c)
    for sec in doc["secs"]:
        clean(sec)
    return doc


def gen_handler(rng, klass):
    if rng.random() < 0.55:
        return {"c": rng.choice([1, 1, 2, 3])}
    return {"r": rng.choice(RULES_FOR[klass])}


def gen_history(rng, tier):
    acts = []
    users = []          # (handle, reset)
    n = rng.randrange(4, 14)
    for _ in range(n):
        r = rng.random()
        if r < 0.18 or not users:
            u = len(users)
            if rng.random() < 0.5:
                users.append((u, True))
                acts.append({"t": "new", "u": u, "reset": True, "quiet": rng.random() < 0.5})
            else:
                users.append((u, False))
                acts.append({"t": "default", "u": u})
        elif r < 0.40:
            resets = [u for u, rs in users if rs]
            if resets and rng.random() < 0.92:
                u = rng.choice(resets)
            else:
                u = rng.choice(users)[0]
            k = rng.choice(KLASSES)
            acts.append({"t": "custom", "u": u, "k": k, "h": gen_handler(rng, k)})
        elif r < 0.58:
            acts.append({"t": rng.choice(["run", "run", "report"]), "u": rng.choice(users)[0]})
        elif r < 0.62:
            k = rng.choice(KLASSES)
            acts.append({"t": "global", "k": k, "h": gen_handler(rng, k)})
        else:
            m = rng.choice(["constructSection", "constructProperty", "constructPropertyValues",
                            "setSecCardinality", "setPropCardinality", "setValCardinality",
                            "assignValues", "save", "load", "defaultValidation", "customValidation"])
            acts.append({"t": "lib", "m": m, "arg": rng.randrange(0, 6),
                         "fmt": rng.choice(["XML", "JSON", "YAML"])})
    # make sure validations are looked at in the end
    for u, _rs in users[:3]:
        acts.append({"t": "run", "u": u})
    u = len(users)
    acts.append({"t": "default", "u": u})
    return acts


# ----------------------------------------------------------------------------- the check
class C19(fw.Check):
    prop = "C19"
    lean_targets = ["OdmlModel.Props.C19"]
    obligations = ["C19." + t for t in [
        "validate_order_independent", "crash_order_independent", "report_depends_on_sets",
        "run_changes_nothing", "validate_repeatable", "registry_isolated",
        "ctor_and_setter_validations_private", "reset_starts_empty", "default_uses_global",
        "default_report_stable", "custom_rule_private", "custom_rule_not_in_default",
        "fresh_custom_is_private", "custom_on_default_object_leaks", "register_global_changes"]]
    trusted_base = [
        "Lean 4.33.0 kernel; axioms propext, Classical.choice, Quot.sound only (audited per theorem)",
        "hand-written models lean/OdmlModel/Model/Registry.lean, Model/Valid.lean, tied to /repo by this run",
        "harness/extract_tables.py (Validation._handlers regenerated into Lean: the initial registry)",
        "Driver/*.lean JSON glue; harness/framework.py, harness/c19.py, harness/c08.py (builders)",
    ]
    assumptions = [
        "which private validations the constructors / setters / save / load create is modelled by the "
        "macro table of Model/Registry.lean; only their effect on the class-level registry and on the "
        "user's validation objects is observable and compared",
        "'changes nothing in the validated objects' and 'same issues in another process' are checked on "
        "the implementation (snapshots, subprocess); in the model a validation is a pure function",
        "user rules are kind-correct (a rule written for Sections is not registered for 'odML')",
    ]
    rule = ("random documents x random histories (4-16 steps) over: default validation, reset validation, "
            "register_custom_handler (user rules and default rule functions; mostly on reset objects), "
            "explicit register_handler, run / report, Section / Property construction, the three "
            "cardinality setters, value assignment, save (XML/JSON/YAML), load; plus handler-order "
            "permutations and cross-process (other PYTHONHASHSEED) validation of the same documents. "
            "Non-trivial = a history with at least one registration on a reset validation or a library "
            "macro, or a permutation/xproc case with at least one issue.")

    def generate(self, tier, rng):
        quick = tier == "quick"
        cases = []
        for _ in range(900 if quick else 20000):
            cases.append({"stream": "history", "doc": gen_doc(rng, rng.choice([0.0, 0.05, 0.3])),
                          "acts": gen_history(rng, tier)})
        for _ in range(250 if quick else 6000):
            cases.append({"stream": "perm", "doc": gen_doc(rng, rng.choice([0.05, 0.3, 0.6])),
                          "seed": rng.randrange(10 ** 6)})
        for b in range(4 if quick else 16):
            cases.append({"stream": "xproc", "hashseed": rng.randrange(1, 4000),
                          "docs": [gen_doc(rng, rng.choice([0.05, 0.3, 0.6])) for _ in range(30 if quick else 200)]
                                  + [multi_doc(rng) for _ in range(3)]})
        return cases

    # -- implementation ------------------------------------------------------
    def impl(self, case):
        saved = registry_copy()
        tmp = tempfile.mkdtemp(prefix="c19_")
        try:
            st = case["stream"]
            if st == "history":
                return self.run_history(case, tmp, saved)
            if st == "perm":
                return self.run_perm(case)
            return self.run_xproc(case)
        finally:
            registry_restore(saved)
            shutil.rmtree(tmp, ignore_errors=True)

    @staticmethod
    def node_of(doc):
        kind, snap, refs = c08.snapshot(doc)
        try:
            return kind, c08.model_node(kind, snap), refs
        except c08.Unsupported:
            return kind, None, refs

    def run_history(self, case, tmp, saved):
        import odml
        from odml.validation import Validation
        pristine = registry_names()
        doc, _bt = c08.build({"kind": "doc", "node": case["doc"]})
        start = registry_names()
        insts = {}
        handlers_of = {}       # user handle -> {klass: [functions]} registered through the API
        is_reset = {}
        extra_global = dict((k, []) for k in KLASSES)
        counter = [0]
        steps = []

        def fresh():
            counter[0] += 1
            return "new%d" % counter[0]

        def target_section(arg):
            secs = list(doc.itersections(recursive=True))
            return secs[arg % len(secs)]

        def target_property(arg):
            props = list(doc.iterproperties())
            return props[arg % len(props)]

        def validation_step(fn, u):
            before = deep_snapshot(doc)
            kind, node, refs = self.node_of(doc)
            fn()
            issues = c08.issue_list(insts[u].errors, refs)
            after = deep_snapshot(doc)
            insts[u].run_validation()
            again = c08.issue_list(insts[u].errors, refs)
            after2 = deep_snapshot(doc)
            obs = {"issues": issues, "again": again, "unchanged": before == after and after == after2,
                   "kind": kind, "node": node, "u": u}
            # what this object has to report, computed by applying handlers directly
            if is_reset[u]:
                table = handlers_of[u]
            else:
                table = dict((k, list(set(saved.get(k, ())) | set(extra_global[k]))) for k in KLASSES)
            try:
                obs["expected"] = apply_directly(table, doc, refs)
            except Exception as exc:
                obs["expected_failed"] = fw.exc_name(exc)
            return obs

        for a in case["acts"]:
            t = a["t"]
            obs = {}
            try:
                if t == "new":
                    # both spellings of "created with reset=True" (validate defaults to True)
                    insts[a["u"]] = Validation(doc, validate=False, reset=True) if a.get("quiet", True) \
                        else Validation(doc, reset=True)
                    is_reset[a["u"]] = True
                    handlers_of[a["u"]] = {}
                elif t == "default":
                    u = a["u"]
                    is_reset[u] = False
                    handlers_of[u] = {}

                    def create(u=u):
                        insts[u] = Validation(doc)
                    obs = validation_step(create, u)
                elif t == "custom":
                    f = handler_func(a["h"])
                    insts[a["u"]].register_custom_handler(a["k"], f)
                    if is_reset[a["u"]]:
                        lst = handlers_of[a["u"]].setdefault(a["k"], [])
                        if f not in lst:
                            lst.append(f)
                    else:
                        obs["on_default_object"] = True
                        extra_global[a["k"]].append(f)
                elif t == "global":
                    f = handler_func(a["h"])
                    Validation.register_handler(a["k"], f)
                    extra_global[a["k"]].append(f)
                elif t == "run":
                    obs = validation_step(insts[a["u"]].run_validation, a["u"])
                elif t == "report":
                    obs = validation_step(insts[a["u"]].report, a["u"])
                elif t == "lib":
                    self.lib(a, doc, tmp, fresh, target_section, target_property)
            except Exception as exc:
                obs["raised"] = fw.exc_name(exc)
            obs["global"] = registry_names()
            steps.append(obs)
        return {"pristine": pristine, "start": start, "steps": steps}

    @staticmethod
    def lib(a, doc, tmp, fresh, target_section, target_property):
        import odml
        from odml.validation import Validation
        from odml.tools.odmlparser import ODMLWriter, ODMLReader
        m = a["m"]
        if m == "constructSection":
            odml.Section(name=fresh(), type="t", parent=target_section(a["arg"]) if a["arg"] % 2 else doc)
        elif m == "constructProperty":
            odml.Property(name=fresh(), parent=target_section(a["arg"]))
        elif m == "constructPropertyValues":
            odml.Property(name=fresh(), values=[1, 2], parent=target_section(a["arg"]))
        elif m == "setSecCardinality":
            target_section(a["arg"]).sec_cardinality = (a["arg"] % 3, None) if a["arg"] % 3 else None
        elif m == "setPropCardinality":
            target_section(a["arg"]).prop_cardinality = (None, 1 + a["arg"] % 3)
        elif m == "setValCardinality":
            target_property(a["arg"]).val_cardinality = (a["arg"] % 3, 3)
        elif m == "assignValues":
            doc.sections["zz"].properties["zp"].values = [1, 2, 3][:1 + a["arg"] % 3]
        elif m == "save":
            try:
                ODMLWriter(a["fmt"]).write_file(doc, os.path.join(tmp, "out." + a["fmt"].lower()))
            except Exception:
                pass        # refusing an invalid document is C07/C08's business
        elif m == "load":
            small = odml.Document()
            odml.Section(name="s", type="t", parent=small)
            text = ODMLWriter(a["fmt"]).to_string(small)
            ODMLReader(a["fmt"], show_warnings=False).from_string(text)
        elif m == "defaultValidation":
            Validation(doc)
        elif m == "customValidation":
            Validation(doc, validate=False, reset=True)

    def run_perm(self, case):
        import random
        from odml.validation import Validation
        doc, _bt = c08.build({"kind": "doc", "node": case["doc"]})
        kind, node, refs = self.node_of(doc)
        rng = random.Random(case["seed"])
        base = dict((k, sorted(Validation._handlers.get(k, ()), key=lambda f: f.__name__)) for k in KLASSES)
        orders = []
        results = []
        snaps = [deep_snapshot(doc)]
        for _ in range(2):
            table = dict((k, rng.sample(v, len(v))) for k, v in base.items())
            val = Validation(doc, validate=False, reset=True)
            try:
                val._handlers = table
            except AttributeError:
                return {"skipped": "no _handlers attribute"}
            val.run_validation()
            results.append(c08.issue_list(val.errors, refs))
            snaps.append(deep_snapshot(doc))
            orders.append(dict((k, [f.__name__ for f in v]) for k, v in table.items()))
        default = c08.issue_list(Validation(doc).errors, refs)
        return {"kind": kind, "node": node, "orders": orders, "results": results, "default": default,
                "unchanged": all(s == snaps[0] for s in snaps)}

    def run_xproc(self, case):
        here = child_validate(case["docs"])
        env = dict(os.environ)
        env["PYTHONHASHSEED"] = str(case["hashseed"])
        env["ODML_REPO"] = fw.REPO
        env["PYTHONPATH"] = os.path.join(fw.VERIF, "harness")
        proc = subprocess.run([sys.executable, os.path.abspath(__file__), "--child"],
                              input=json.dumps(case["docs"]).encode("utf-8"), env=env,
                              stdout=subprocess.PIPE, stderr=subprocess.PIPE, timeout=600)
        if proc.returncode != 0:
            return {"child_failed": proc.stderr.decode("utf-8", "replace")[-600:], "here": here}
        there = json.loads(proc.stdout.decode("utf-8").strip().splitlines()[-1])
        return {"here": here, "there": there}

    # -- model ---------------------------------------------------------------
    @staticmethod
    def model_acts(case, obs):
        """-> (driver acts, index of the driver output that belongs to each impl step)"""
        out = []
        last = []
        for a, step in zip(case["acts"], obs["steps"]):
            t = a["t"]
            if t == "new":
                out.append({"t": "new", "u": a["u"], "reset": True})
            elif t == "default":
                out.append({"t": "new", "u": a["u"], "reset": False})
                if step.get("node") is not None:
                    out.append({"t": "run", "u": a["u"], "kind": step["kind"], "node": step["node"]})
            elif t in ("run", "report"):
                if step.get("node") is not None:
                    out.append({"t": "run", "u": a["u"], "kind": step["kind"], "node": step["node"]})
            elif t == "custom":
                out.append({"t": "custom", "u": a["u"], "k": a["k"], "h": a["h"]})
            elif t == "global":
                out.append({"t": "global", "k": a["k"], "h": a["h"]})
            elif t == "lib":
                out.append({"t": "lib", "m": a["m"]})
            last.append(len(out) - 1)
        return out, last

    def model_requests(self, case, obs):
        st = case["stream"]
        if st == "history":
            if any("raised" in s for s in obs["steps"]):
                return []
            acts, _last = self.model_acts(case, obs)
            return [{"p": "C19", "op": "history", "acts": acts}]
        if st == "perm":
            if obs.get("node") is None or "skipped" in obs:
                return []
            known = set(n for names in RULES_FOR.values() for n in names)
            if any(n not in known for order in obs["orders"] for k in KLASSES for n in order[k]):
                return []       # a handler the model does not know: left to the oracle
            return [{"p": "C19", "op": "validate_with", "kind": obs["kind"], "node": obs["node"],
                     "table": dict((k, [{"r": n} for n in order[k]]) for k in KLASSES)}
                    for order in obs["orders"]]
        return []

    def compare(self, case, obs, answers):
        out = []
        st = case["stream"]
        if st == "history" and answers:
            _acts, last = self.model_acts(case, obs)
            outs = answers[0]
            for i, (a, step) in enumerate(zip(case["acts"], obs["steps"])):
                if last[i] < 0 or last[i] >= len(outs):
                    continue
                m = outs[last[i]]
                if m["global"] != step["global"]:
                    out.append("step %d (%s): model registry %s, implementation %s"
                               % (i, a["t"], m["global"], step["global"]))
                    break
                if "issues" in step and step.get("node") is not None and "issues" in m:
                    mine = sorted(m["issues"], key=lambda x: (x[0], x[1], x[2]))
                    if mine != [list(x) for x in step["issues"]]:
                        out.append("step %d (%s of object %s): model issues %s..., implementation %s..."
                                   % (i, a["t"], a.get("u"), mine[:5], step["issues"][:5]))
                        break
        if st == "perm" and answers:
            for k, ans in enumerate(answers):
                mine = sorted(ans, key=lambda x: (x[0], x[1], x[2]))
                if mine != [list(x) for x in obs["results"][k]]:
                    out.append("handler order %d: model issues differ from the implementation" % k)
        return out

    # -- oracle --------------------------------------------------------------
    def oracle(self, case, obs):
        if "harness_exception" in obs:
            return []
        st = case["stream"]
        out = []
        if st == "history":
            if obs["start"] != obs["pristine"]:
                out.append("building the document (constructors, value and cardinality setters) changed "
                           "the default registry: %s -> %s" % (obs["pristine"], obs["start"]))
            prev = obs["start"]
            for i, (a, step) in enumerate(zip(case["acts"], obs["steps"])):
                t = a["t"]
                if "raised" in step:
                    out.append("step %d (%s) raised %s" % (i, t, step["raised"]))
                    break
                want = prev
                if t == "global" or (t == "custom" and step.get("on_default_object")):
                    name = handler_func(a["h"]).__name__
                    want = dict(prev)
                    want[a["k"]] = sorted(set(prev[a["k"]]) | {name})
                    if t == "custom" and step["global"] == prev:
                        want = prev          # the property is silent on non-reset objects
                if step["global"] != want:
                    what = "lib:" + a["m"] if t == "lib" else t
                    out.append("step %d (%s) changed the default registry: %s -> %s"
                               % (i, what, prev, step["global"]))
                prev = step["global"]
                if "issues" in step:
                    if not step["unchanged"]:
                        out.append("step %d (%s): the validated objects were changed by the validation" % (i, t))
                    if step["again"] != step["issues"]:
                        out.append("step %d (%s): validating the unchanged objects again reports %d issues "
                                   "instead of %d" % (i, t, len(step["again"]), len(step["issues"])))
                    if "expected" in step and step["expected"] != step["issues"]:
                        extra = [x for x in step["issues"] if x not in step["expected"]]
                        missing = [x for x in step["expected"] if x not in step["issues"]]
                        out.append("step %d (%s of object %s): reported issues are not those of the rules "
                                   "registered for it: unexpected %s, missing %s"
                                   % (i, t, a.get("u"), extra[:4], missing[:4]))
        elif st == "perm":
            if "skipped" in obs:
                return []
            if obs["results"][0] != obs["results"][1]:
                out.append("two orders of the same handlers report different issue multisets")
            if obs["results"][0] != obs["default"]:
                out.append("the default validation differs from the default rules applied in a fixed order")
            if not obs["unchanged"]:
                out.append("the validated objects were changed by a validation")
        else:
            if "child_failed" in obs:
                out.append("validation in a fresh process failed: %s" % obs["child_failed"][-200:])
            elif obs["here"] != obs["there"]:
                bad = [i for i, (a, b) in enumerate(zip(obs["here"], obs["there"])) if a != b]
                out.append("documents %s: another process reports different issues" % bad[:5])
        return out

    def tag(self, case, obs):
        st = case["stream"]
        if st == "history":
            kinds = set(a["t"] if a["t"] != "lib" else "lib" for a in case["acts"])
            priv = any(a["t"] == "custom" for a in case["acts"]) or "lib" in kinds
            glob = "global" in kinds
            return ("history:%s%s" % ("global" if glob else "clean", "+custom" if priv else ""), priv)
        if st == "perm":
            return ("perm", bool(obs.get("default")))
        return ("xproc", any(obs.get("here", [])))


def issues_with_text(errors, refs):
    """(object, IssueID, rank, message) - the same code produces both sides of a cross-process
    comparison, so the message text belongs to "the same collection of issues" here."""
    import re
    out = []
    for e in errors:
        vid = getattr(e.validation_id, "value", None)
        msg = re.sub(r"0x[0-9a-fA-F]+", "0x", str(getattr(e, "msg", "")))
        out.append([refs.get(id(e.obj), "?"), vid, e.rank, msg])
    return sorted(out, key=lambda x: (x[0], x[1] if x[1] is not None else -1, str(x[2]), x[3]))


def child_validate(docs):
    """Default validation and a reset validation with user rules, per document -> issue lists."""
    from odml.validation import Validation
    out = []
    for spec in docs:
        doc, _bt = c08.build({"kind": "doc", "node": spec})
        _kind, _snap, refs = c08.snapshot(doc)
        try:
            a = issues_with_text(Validation(doc).errors, refs)
        except Exception as exc:
            a = ["raised " + fw.exc_name(exc)]
        val = Validation(doc, validate=False, reset=True)
        for k in KLASSES:
            val.register_custom_handler(k, custom_1)
            val.register_custom_handler(k, custom_2)
            for name in RULES_FOR[k]:
                val.register_custom_handler(k, handler_func({"r": name}))
        try:
            val.run_validation()
            b = issues_with_text(val.errors, refs)
        except Exception as exc:
            b = ["raised " + fw.exc_name(exc)]
        out.append([a, b])
    return out


if __name__ == "__main__":
    if len(sys.argv) > 1 and sys.argv[1] == "--child":
        specs = json.loads(sys.stdin.read())
        with fw.quiet():
            res = child_validate(specs)
        sys.stdout.write(json.dumps(res) + "\n")
        sys.exit(0)
    sys.exit(fw.main(C19(), sys.argv[1:]))
