# -*- coding: utf-8 -*-
"""
C19 - Validation observes only: no side effects, repeatable, custom rules stay private.

Tie between lean/OdmlModel/Model/Registry.lean (+ Model/Valid.lean) and /repo/odml/validation.py,
property.py, section.py, tools/odmlparser.py.

Streams
  history : a document x a random history of default validations, reset validations with added
            rules, explicit global registrations, object creation, cardinality changes, value
            assignment, saves and loads.  After every step: the class-level registry
            (klass -> sorted handler names); at every validation step: the issue multiset, the
            multiset of an immediate re-run, and a deep snapshot of all objects before/after.
  perm    : the default rules applied in two different orders (handler sets replaced by lists).
  xproc   : the same documents validated here and in a fresh interpreter with another
            PYTHONHASHSEED (and, every other batch, another locale / text encoding default).
  wide    : the history executor over the wider quantifier (added after seeded round 2):
            documents with unresolved / resolved links and includes, deeper trees, non-ASCII values;
            validations of the Document, of a Section and of a Property, started as Validation(obj),
            Document.validate(), Validation(obj, validate=False) + run_validation(), or handler by
            handler through Validation.validate(obj); loads and saves through every entry point
            (odml.load / odml.save, fresh and re-used ODMLReader / ODMLWriter objects, from_file vs
            from_string, XMLReader / DictReader directly, quiet and loud, all four formats, good files
            and every kind of refused file, unwritable targets); constructor / helper / clone spellings
            of object creation incl. refused ones; every cardinality argument shape incl. refused
            ones; attribute and value edits between two runs of the same Validation object; link
            resolution; user rules that raise; the library's non-default rules.  Steps the Lean model
            has no macro for are checked by the oracle only (the model keeps its registry over them).
"""
import io
import json
import os
import shutil
import subprocess
import sys
import tempfile

import framework as fw
import c08

KLASSES = ["odML", "section", "property"]


# ----------------------------------------------------------------------------- user rules
def custom_1(obj):
    from odml.validation import ValidationError, IssueID, LABEL_WARNING
    yield ValidationError(obj, "c1", LABEL_WARNING, IssueID.custom_validation)


def custom_2(obj):
    from odml.validation import ValidationError, IssueID, LABEL_ERROR
    name = getattr(obj, "name", None)
    if isinstance(name, str) and name.startswith("a"):
        yield ValidationError(obj, "c2", LABEL_ERROR, IssueID.custom_validation)


def custom_3(obj):
    return
    yield  # pragma: no cover


def custom_4(obj):
    """A user rule that fails on some objects (names starting with 'b'); oracle-only."""
    from odml.validation import ValidationError, IssueID, LABEL_WARNING
    name = getattr(obj, "name", None)
    if isinstance(name, str) and name.startswith("b"):
        raise ValueError("user rule failed")
    yield ValidationError(obj, "c4", LABEL_WARNING, IssueID.custom_validation)


CUSTOM = {1: custom_1, 2: custom_2, 3: custom_3, 4: custom_4}
# rules the library ships but does not register by default ("should be added on demand");
# the Lean model does not know them: histories using them are decided by the oracle alone
EXTRA_RULES = {"section": ["section_repository_present"], "property": ["property_terminology_check"]}
# default rule functions a user may add to a reset validation, per class (kind-correct)
RULES_FOR = {"odML": ["object_required_attributes", "section_unique_name_type", "document_unique_ids"],
             "section": ["object_name_readable", "section_type_must_be_defined", "property_unique_names",
                         "section_sections_cardinality", "section_properties_cardinality",
                         "object_required_attributes", "section_unique_name_type"],
             "property": ["object_name_readable", "property_values_cardinality", "property_values_check",
                          "property_dependency_check", "object_required_attributes",
                          "property_values_string_check"]}


def handler_func(h):
    from odml import validation
    if "c" in h:
        return CUSTOM[h["c"]]
    if "x" in h:
        return getattr(validation, h["x"])
    return getattr(validation, h["r"])


def handler_modelled(h):
    return ("c" in h and h["c"] <= 3) or "r" in h


def registry_names():
    from odml.validation import Validation
    out = dict((k, sorted(getattr(f, "__name__", repr(f)) for f in Validation._handlers.get(k, ())))
               for k in KLASSES)
    for k in sorted(Validation._handlers, key=repr):
        # rules filed under any other key (never the case on the unchanged tree) are a change too
        if k not in out and Validation._handlers[k]:
            out[str(k)] = sorted(getattr(f, "__name__", repr(f)) for f in Validation._handlers[k])
    return out


def registry_copy():
    from odml.validation import Validation
    return dict((k, set(v)) for k, v in Validation._handlers.items())


def registry_restore(saved):
    from odml.validation import Validation
    Validation._handlers.clear()
    for k, v in saved.items():
        Validation._handlers[k] = set(v)


# ----------------------------------------------------------------------------- snapshots
def deep_snapshot(root):
    """Everything the format of each object names, read through the public attributes."""
    def attrs(obj):
        out = {}
        fmt = obj.format()
        for key in fmt.arguments_keys:
            name = fmt.map(key)
            if name in ("sections", "properties"):
                continue
            try:
                val = getattr(obj, name)
            except Exception as exc:
                val = "raises " + fw.exc_name(exc)
            out[name] = repr(val)
        return out

    def prop(p):
        d = attrs(p)
        d["#values"] = [repr(v) for v in p.values]
        d["#parent"] = None if p.parent is None else p.parent.id
        return d

    def sec(s):
        d = attrs(s)
        d["#parent"] = None if s.parent is None else s.parent.id
        d["#props"] = [prop(p) for p in s.properties]
        d["#secs"] = [sec(c) for c in s.sections]
        return d
    name = root.format().name
    if name == "property":
        return prop(root)
    if name == "section":
        return sec(root)
    d = attrs(root)
    d["#secs"] = [sec(c) for c in root.sections]
    return d


def full_snapshot(doc, extra=()):
    """deep_snapshot plus, independently of it, what a writer would put into a file now (the writers'
    to_string does not validate).  `extra`: validated objects that are not (or no longer) in doc."""
    out = {"deep": deep_snapshot(doc), "extra": [deep_snapshot(o) for o in extra]}
    try:
        try:
            from odml.tools.dict_parser import DictWriter
            out["file"] = repr(DictWriter().to_dict(doc))       # what the JSON / YAML writers dump
        except ImportError:
            from odml.tools.odmlparser import ODMLWriter
            out["file"] = ODMLWriter("JSON").to_string(doc)
    except Exception as exc:
        out["file"] = "raises " + fw.exc_name(exc)
    return out


class Scratch(object):
    """A scratch directory that is only created when a case writes a file."""

    def __init__(self):
        self.path = None

    def __call__(self):
        if self.path is None:
            self.path = tempfile.mkdtemp(prefix="c19_")
        return self.path

    def remove(self):
        if self.path is not None:
            shutil.rmtree(self.path, ignore_errors=True)


def walk(root):
    """The objects a validation of root visits (own traversal): (klass, object).  A Property is
    visited alone; of a Section that is the root its own Properties are not visited (C08)."""
    name = root.format().name
    if name == "property":
        return [("property", root)]
    out = [("odML" if name == "odML" else "section", root)]
    stack = list(root.sections)
    while stack:
        s = stack.pop(0)
        out.append(("section", s))
        for p in s.properties:
            out.append(("property", p))
        stack.extend(s.sections)
    return out


def apply_directly(table, root, refs):
    """Issues the handlers of `table` (klass -> iterable of functions) yield over the walk."""
    out = []
    for klass, obj in walk(root):
        for h in table.get(klass, ()):
            for e in h(obj):
                out.append(e)
    return c08.issue_list(out, refs)


# ----------------------------------------------------------------------------- generation
ZZ = {"id": "zz", "name": "zz", "type": "t", "sc": None, "pc": None, "subs": [],
      "props": [{"id": "zp", "name": "zp", "dtype": "int", "values": [{"i": 1}], "raw": False, "card": None}]}


# strings on which several of the string-dtype hints of property_values_string_check apply at once
# (the report must not depend on the order in which a process happens to try them)
MULTI = ["True\nand more", "t\nx", "FALSE\n1", "(0.5; 1.5)\nsecond line", "f\n(1;2)", "True (1;2)",
         "(a)\n12", "t 12:30", "False\r\n2020-01-02"]


def multi_doc(rng):
    """A document whose string Properties hold values several string-dtype hints apply to."""
    ids = c08.id_source(rng, 0.0)
    props = []
    for i, text in enumerate(rng.sample(MULTI, 5)):
        vals = [{"s": text}] + ([{"s": rng.choice(MULTI)}] if rng.random() < 0.4 else [])
        props.append({"id": ids(), "name": "m%d" % i, "dtype": "string", "values": vals, "raw": False,
                      "card": None})
    sec = {"id": ids(), "name": "multi", "type": "t", "sc": None, "pc": None, "subs": [], "props": props}
    return {"id": ids(), "secs": [sec, json.loads(json.dumps(ZZ))]}


def gen_doc(rng, dirt):
    ids = c08.id_source(rng, 0.1 if dirt else 0.0)
    secs = []
    for _ in range(rng.choice([0, 1, 2])):
        secs.append(c08.gen_sec(rng, ids, rng.choice([0, 1]), c08.STRS[:30] + MULTI, dirt, [x["name"] for x in secs]))
    doc = {"id": ids(), "secs": secs + [json.loads(json.dumps(ZZ))]}
    # the one documented way to make a rule raise (C08: unreadable tuple length) is kept out
    def clean(sec):
        for p in sec["props"]:
            d = p.get("dtype")
            if isinstance(d, str) and d.endswith("-tuple") and not d[:-6].isdigit():
                p["dtype"] = "2-tuple"
        for c in sec["subs"]:
            clean(c)
    for sec in doc["secs"]:
        clean(sec)
    return doc


def gen_handler(rng, klass):
    if rng.random() < 0.55:
        return {"c": rng.choice([1, 1, 2, 3])}
    return {"r": rng.choice(RULES_FOR[klass])}


def gen_history(rng, tier):
    acts = []
    users = []          # (handle, reset)
    n = rng.randrange(4, 14)
    for _ in range(n):
        r = rng.random()
        if r < 0.18 or not users:
            u = len(users)
            if rng.random() < 0.5:
                users.append((u, True))
                acts.append({"t": "new", "u": u, "reset": True, "quiet": rng.random() < 0.5})
            else:
                users.append((u, False))
                acts.append({"t": "default", "u": u})
        elif r < 0.40:
            resets = [u for u, rs in users if rs]
            if resets and rng.random() < 0.92:
                u = rng.choice(resets)
            else:
                u = rng.choice(users)[0]
            k = rng.choice(KLASSES)
            acts.append({"t": "custom", "u": u, "k": k, "h": gen_handler(rng, k)})
        elif r < 0.58:
            acts.append({"t": rng.choice(["run", "run", "report"]), "u": rng.choice(users)[0]})
        elif r < 0.62:
            k = rng.choice(KLASSES)
            acts.append({"t": "global", "k": k, "h": gen_handler(rng, k)})
        else:
            m = rng.choice(["constructSection", "constructProperty", "constructPropertyValues",
                            "setSecCardinality", "setPropCardinality", "setValCardinality",
                            "assignValues", "save", "load", "defaultValidation", "customValidation"])
            acts.append({"t": "lib", "m": m, "arg": rng.randrange(0, 6),
                         "fmt": rng.choice(["XML", "JSON", "YAML"])})
    # make sure validations are looked at in the end
    for u, _rs in users[:3]:
        acts.append({"t": "run", "u": u})
    u = len(users)
    acts.append({"t": "default", "u": u})
    return acts


# ----------------------------------------------------------------------------- wide stream
INC_MARK = "@INC"          # placeholder of the include URL (a file of the case's scratch directory)
NONASCII = ["\u0661\u0662", "na\u00efve", "a\u2028b", "\u540d\u524d", "x\x85y", "\ud800x"]


def build_doc(spec, inc_url="file:///nonexistent/c19inc.xml"):
    """c08.build plus the linking / including Sections of spec["links"], created through the
    public constructor arguments (the state of a freshly built or loaded document: not resolved)."""
    import odml
    doc, bt = c08.build({"kind": "doc", "node": spec})
    for ln in spec.get("links", []):
        parent = doc
        for i in ln.get("at", []):
            if len(parent.sections):
                parent = parent.sections[i % len(parent.sections)]
        kw = {}
        if ln.get("include"):
            kw["include"] = ln["include"].replace(INC_MARK, inc_url)
        else:
            kw["link"] = ln["link"]
        if ln.get("pc") is not None:
            kw["prop_cardinality"] = tuple(ln["pc"])
        odml.Section(name=ln["name"], type=ln.get("type", "t"), oid=c08.tok_id(ln["id"]), parent=parent, **kw)
    return doc, bt


def has_include(doc):
    return any(s.include is not None for s in doc.itersections(recursive=True))


def gen_links(rng, doc, ids, n):
    tops = [s["name"] for s in doc["secs"] if s["name"] not in ("", "=id", None)]
    out = []
    for k in range(n):
        at = [] if rng.random() < 0.6 or len(doc["secs"]) < 2 else [rng.randrange(len(doc["secs"]) - 1)]
        ln = {"id": ids(), "name": "ln%d" % k, "type": rng.choice(["t", "t", "u", "n.s."]), "at": at,
              "pc": rng.choice([None, None, [1, None], [2, None], [None, 1], [1, 1]])}
        r = rng.random()
        if r < 0.12:
            ln["include"] = INC_MARK + rng.choice(["", "#/s", "#/nope"])
        else:
            # never the own ancestor: a nested linking Section sits below one of secs[:-1], "zz" is last
            others = [t for i, t in enumerate(tops) if not at or i != at[0] % len(doc["secs"])]
            target = rng.choice(others + ["zz", "zz"]) if others else "zz"
            if r < 0.2:
                target = "nope"
            ln["link"] = ("/" if not at or rng.random() < 0.6 else "../../") + target
        out.append(ln)
    return out


def gen_wide_doc(rng, zz=True):
    dirt = rng.choice([0.0, 0.05, 0.3])
    ids = c08.id_source(rng, 0.1 if dirt else 0.0)
    strs = c08.STRS[:30] + MULTI + (NONASCII if rng.random() < 0.3 else [])
    secs = []
    for _ in range(rng.choice([0, 1, 1, 2, 3])):
        secs.append(c08.gen_sec(rng, ids, rng.choice([0, 1, 1, 2, 3]), strs, dirt, [x["name"] for x in secs]))
    doc = {"id": ids(), "secs": secs + ([json.loads(json.dumps(ZZ))] if zz else [])}

    def clean(sec):
        for p in sec["props"]:
            d = p.get("dtype")
            if isinstance(d, str) and d.endswith("-tuple") and not d[:-6].isdigit():
                p["dtype"] = "2-tuple"
        for c in sec["subs"]:
            clean(c)
    for sec in doc["secs"]:
        clean(sec)
    if doc["secs"] and rng.random() < 0.65:
        doc["links"] = gen_links(rng, doc, ids, rng.choice([1, 1, 2, 3]))
    return doc


def gen_target(rng):
    r = rng.random()
    if r < 0.6:
        return None
    return ["sec" if r < 0.85 else "prop", rng.randrange(0, 12)]


CARD_SHAPES = [None, 2, [1, None], [None, 1], [1, 2], [2, 2], [0, 0], [None, None], [0, 3], [10, 12], [9, 10],
               [3, 1], [-1, 2], ["1", "2"], [1.5, 2], [True, 2], [1], [1, 2, 3], "2", 0, -3, [None, -1]]
LOAD_KINDS = ["small", "issues", "doc", "doc", "unknown_attr", "old_version", "no_version", "non_dict_root",
              "wrong_shape", "refused_object", "no_name", "dup_names", "bad_card", "syntax", "empty",
              "binary", "missing_file"]
LIB_WIDE = [("loadFile", 16), ("loadString", 6), ("parserDirect", 5), ("saveVia", 9), ("toString", 2),
            ("create", 9), ("clone", 3), ("setCard", 8), ("editAttr", 5), ("editValues", 4),
            ("resolveLinks", 3), ("setLink", 2), ("unlink", 1), ("removeProperty", 1), ("validateMethod", 4),
            ("constructSection", 2), ("constructProperty", 2), ("constructPropertyValues", 2),
            ("setSecCardinality", 1), ("setPropCardinality", 1), ("setValCardinality", 1), ("assignValues", 2),
            ("save", 2), ("load", 2), ("defaultValidation", 2), ("customValidation", 2)]
# what the Lean model's macro table knows; every other macro is a no-op on the class-level table there
MODEL_MACROS = {"constructSection", "constructProperty", "constructPropertyValues", "setSecCardinality",
                "setPropCardinality", "setValCardinality", "assignValues", "save", "load",
                "defaultValidation", "customValidation"}


def gen_lib_wide(rng):
    names = [n for n, _w in LIB_WIDE]
    m = rng.choices(names, weights=[w for _n, w in LIB_WIDE])[0]
    a = {"t": "lib", "m": m, "arg": rng.randrange(0, 48), "fmt": rng.choice(["XML", "JSON", "YAML"])}
    if m in ("loadFile", "loadString", "parserDirect", "saveVia", "toString"):
        a["fmt"] = rng.choice(["XML", "JSON", "YAML", "XML", "JSON", "YAML", "RDF"])
        a["quiet"] = rng.random() < 0.5
        a["via"] = rng.choice(["odml", "fresh", "reused", "reused"])
    if m in ("loadFile", "loadString", "parserDirect"):
        a["kind"] = rng.choice(LOAD_KINDS)
    if m == "saveVia":
        a["what"] = rng.choice(["doc", "doc", "small", "invalid"])
        a["where"] = rng.choice(["ok", "ok", "ok", "missing_dir", "is_dir"])
    if m == "setCard":
        a["which"] = rng.choice(["sec", "prop", "val"])
        a["shape"] = rng.choice(CARD_SHAPES)
        a["method"] = rng.random() < 0.3
    return a


def gen_handler_wide(rng, klass):
    r = rng.random()
    if r < 0.07:
        return {"c": 4}
    if r < 0.14 and klass in EXTRA_RULES:
        return {"x": rng.choice(EXTRA_RULES[klass])}
    return gen_handler(rng, klass)


def gen_wide_history(rng):
    acts = []
    users = []          # (handle, reset)
    n = rng.randrange(4, 15)
    for _ in range(n):
        r = rng.random()
        if r < 0.2 or not users:
            u = len(users)
            if rng.random() < 0.4:
                users.append((u, True))
                acts.append({"t": "new", "u": u, "reset": True, "quiet": rng.choice([True, True, False, False, "pos"]),
                             "on": gen_target(rng)})
            else:
                users.append((u, False))
                on = gen_target(rng)
                via = rng.choice(["Validation", "validate", "deferred"])
                if via == "validate":
                    on = None        # Document.validate()
                acts.append({"t": "default", "u": u, "on": on, "via": via})
        elif r < 0.36:
            resets = [u for u, rs in users if rs]
            if resets and rng.random() < 0.94:
                u = rng.choice(resets)
            else:
                u = rng.choice(users)[0]
            k = rng.choice(KLASSES)
            # a raising rule on a non-reset object would sit in the class-level table: every later
            # constructor of the history would fail, nothing more would be seen
            h = gen_handler_wide(rng, k) if dict(users)[u] else gen_handler(rng, k)
            acts.append({"t": "custom", "u": u, "k": k, "h": h})
        elif r < 0.52:
            acts.append({"t": rng.choice(["run", "run", "report"]), "u": rng.choice(users)[0]})
        elif r < 0.56:
            acts.append({"t": "direct", "u": rng.choice(users)[0],
                         "obj": rng.choice([None, ["sec", rng.randrange(12)], ["prop", rng.randrange(12)]])})
        elif r < 0.58:
            k = rng.choice(KLASSES)
            acts.append({"t": "global", "k": k, "h": gen_handler(rng, k)})
        else:
            acts.append(gen_lib_wide(rng))
    for u, _rs in users[:3]:
        acts.append({"t": "run", "u": u})
    acts.append({"t": "default", "u": len(users), "on": None,
                 "via": rng.choice(["Validation", "validate"])})
    return acts


class Lib(object):
    """The library operations of a history that are not validations of the user (edits, object
    creation, loads, saves).  Refusals of the new macros are the business of other properties:
    they are swallowed here, what counts is the state a refused call leaves behind."""

    def __init__(self, doc, tmp, inc_url, strict=True):
        self.strict = strict     # first-round histories: an exception of a first-round macro is a failure
        self.doc = doc
        self.tmp = tmp
        self.inc_url = inc_url
        self.counter = 0
        self.readers = {}
        self.writers = {}
        self.loaded = None       # the document of the last successful load step
        self.protected = set()   # id() of objects a Validation of the user is bound to

    # -- helpers
    def fresh(self):
        self.counter += 1
        return "new%d" % self.counter

    def section(self, arg):
        secs = list(self.doc.itersections(recursive=True))
        return secs[arg % len(secs)] if secs else None

    def prop(self, arg):
        props = list(self.doc.iterproperties())
        return props[arg % len(props)] if props else None

    def zp(self):
        try:
            return self.doc.sections["zz"].properties["zp"]
        except Exception:
            return self.prop(0)

    def small(self, kind):
        import odml
        d = odml.Document(author="a")
        if kind == "small":
            odml.Section(name="s", type="t", parent=d)
            return d
        s = odml.Section(name="s", parent=d, sec_cardinality=(1, None))          # 'n.s.', 501
        odml.Property(name="count", values=["12"], dtype="string", parent=s)    # 403
        odml.Property(name="few", values=[1], val_cardinality=(2, None), parent=s)  # 502
        if kind == "invalid":
            t = odml.Section(name="t", type="t", parent=d)
            t.type = None                                                        # 101: save refuses
        return d

    def reader(self, a):
        from odml.tools.odmlparser import ODMLReader
        key = (a["fmt"], a.get("quiet", False))
        if a.get("via") == "reused":
            if key not in self.readers:
                self.readers[key] = ODMLReader(a["fmt"], show_warnings=not a.get("quiet", False))
            return self.readers[key]
        return ODMLReader(a["fmt"], show_warnings=not a.get("quiet", False))

    def writer(self, a):
        from odml.tools.odmlparser import ODMLWriter
        if a.get("via") == "reused":
            if a["fmt"] not in self.writers:
                self.writers[a["fmt"]] = ODMLWriter(a["fmt"])
            return self.writers[a["fmt"]]
        return ODMLWriter(a["fmt"])

    def content(self, fmt, kind):
        """Text (or bytes) of a file of the given format: good, or refused in the given way."""
        import re
        import yaml
        from odml.info import FORMAT_VERSION
        from odml.tools.dict_parser import DictWriter
        from odml.tools.odmlparser import ODMLWriter, JSONDateTimeSerializer
        if kind == "empty":
            return ""
        if kind == "binary":
            return b"\xff\xfe\x00\x01 not a text \x80\x81"
        base = None
        if kind == "doc" and not (fmt == "RDF" and has_include(self.doc)):
            base = self.doc
        if base is None:
            base = self.small("small" if kind == "small" else "issues")
        if fmt == "RDF":
            try:
                text = ODMLWriter("RDF").to_string(base, rdf_format="xml")
            except Exception:
                text = ODMLWriter("RDF").to_string(self.small("small"), rdf_format="xml")
            if kind in ("small", "issues", "doc"):
                return text
            if kind in ("non_dict_root", "no_name"):
                # well-formed RDF that holds no odML document
                return ('<?xml version="1.0" encoding="utf-8"?>\n<rdf:RDF xmlns:rdf="http://www.w3.org/1999/02/'
                        '22-rdf-syntax-ns#"><rdf:Description rdf:about="http://x/y"><rdf:value>1</rdf:value>'
                        '</rdf:Description></rdf:RDF>\n')
            return text[:len(text) // 2]
        if fmt == "XML":
            try:
                text = ODMLWriter("XML").to_string(base)
            except Exception:
                text = ODMLWriter("XML").to_string(self.small("issues"))
            if kind == "unknown_attr":
                text = text.replace("<property>", "<property><colour>red</colour>", 1)
            elif kind == "old_version":
                text = text.replace('version="%s"' % FORMAT_VERSION, 'version="1"', 1)
            elif kind == "no_version":
                text = text.replace(' version="%s"' % FORMAT_VERSION, "", 1)
            elif kind == "non_dict_root":
                text = text.replace("<odML", "<odMX", 1).replace("</odML>", "</odMX>")
            elif kind == "wrong_shape":
                text = text.replace("<name>", "<name><b>x</b>", 1)
            elif kind == "refused_object":
                text = text.replace("<section>", "<section><property><name>bad</name><value>[abc]</value>"
                                    "<type>int</type></property>", 1)
            elif kind == "no_name":
                text = re.sub(r"<name>[^<]*</name>", "", text, count=1)
            elif kind == "dup_names":
                m = re.search(r"<property>.*?</property>", text, re.S)
                if m:
                    text = text.replace(m.group(0), m.group(0) + m.group(0), 1)
            elif kind == "bad_card":
                text = text.replace("<section>", "<section><prop_cardinality>(3, 1)</prop_cardinality>", 1)
            elif kind == "syntax":
                text = text[:len(text) // 2]
            return text
        try:
            d = DictWriter().to_dict(base)
            json.dumps(d, cls=JSONDateTimeSerializer)
        except Exception:
            d = DictWriter().to_dict(self.small("issues"))
        whole = {"Document": d, "odml-version": FORMAT_VERSION}
        sec0 = (d.get("sections") or [{}])[0]
        prop0 = (sec0.get("properties") or [{}])[0]
        if kind == "unknown_attr":
            prop0["colour"] = "red"
        elif kind == "old_version":
            whole["odml-version"] = "1"
        elif kind == "no_version":
            del whole["odml-version"]
        elif kind == "non_dict_root":
            whole = [whole]
        elif kind == "wrong_shape":
            d["sections"] = {"a": 1}
        elif kind == "refused_object":
            sec0.setdefault("properties", []).append({"name": "bad", "type": "int", "value": ["abc"]})
        elif kind == "no_name":
            sec0.pop("name", None)
            sec0.pop("type", None)
        elif kind == "dup_names":
            sec0.setdefault("properties", []).append(dict(prop0))
        elif kind == "bad_card":
            sec0["prop_cardinality"] = [3, 1]
        if fmt == "JSON":
            text = json.dumps(whole, indent=1, cls=JSONDateTimeSerializer)
        else:
            ODMLWriter("YAML").to_string(self.small("small"))     # registers the writer's yaml representers
            text = yaml.dump(whole, default_flow_style=False)
        if kind == "syntax":
            text = text[:len(text) // 2] + ("\n]: {" if fmt == "YAML" else "")
        return text

    def write_content(self, a):
        path = os.path.join(self.tmp(), "in%d.%s" % (self.counter, a["fmt"].lower()))
        self.counter += 1
        if a["kind"] == "missing_file":
            return os.path.join(self.tmp(), "nowhere", "missing." + a["fmt"].lower())
        data = self.content(a["fmt"], a["kind"])
        if isinstance(data, bytes):
            with open(path, "wb") as fh:
                fh.write(data)
        else:
            with io.open(path, "w", encoding="utf-8", errors="surrogatepass") as fh:
                fh.write(data)
        return path

    def keep(self, res):
        if isinstance(res, list):
            res = res[0] if res else None
        if res is not None and hasattr(res, "itersections"):
            self.loaded = res

    # -- the macros
    def run(self, a):
        import odml
        from odml.validation import Validation
        from odml.tools.odmlparser import ODMLWriter, ODMLReader
        m = a["m"]
        doc = self.doc
        arg = a.get("arg", 0)
        if not self.strict and m in MODEL_MACROS:
            # wide histories edit the document freely (renamed / removed objects, refused values):
            # there a first-round macro may be refused like any other edit
            try:
                Lib(self.doc, self.tmp, self.inc_url).run(a)
            except Exception:
                pass
            return
        # ---- the macros of the first round (exceptions are failures of the step)
        if m == "constructSection":
            odml.Section(name=self.fresh(), type="t", parent=self.section(arg) if arg % 2 else doc)
        elif m == "constructProperty":
            odml.Property(name=self.fresh(), parent=self.section(arg))
        elif m == "constructPropertyValues":
            odml.Property(name=self.fresh(), values=[1, 2], parent=self.section(arg))
        elif m == "setSecCardinality":
            self.section(arg).sec_cardinality = (arg % 3, None) if arg % 3 else None
        elif m == "setPropCardinality":
            self.section(arg).prop_cardinality = (None, 1 + arg % 3)
        elif m == "setValCardinality":
            self.prop(arg).val_cardinality = (arg % 3, 3)
        elif m == "assignValues":
            doc.sections["zz"].properties["zp"].values = [1, 2, 3][:1 + arg % 3]
        elif m == "save":
            try:
                ODMLWriter(a["fmt"]).write_file(doc, os.path.join(self.tmp(), "out." + a["fmt"].lower()))
            except Exception:
                pass        # refusing an invalid document is C07/C08's business
        elif m == "load":
            small = odml.Document()
            odml.Section(name="s", type="t", parent=small)
            text = ODMLWriter(a["fmt"]).to_string(small)
            ODMLReader(a["fmt"], show_warnings=False).from_string(text)
        elif m == "defaultValidation":
            Validation(doc)
        elif m == "customValidation":
            Validation(doc, validate=False, reset=True)
        else:
            # ---- the macros of the wide stream: a refusal is not this property's business
            try:
                getattr(self, "m_" + m)(a, arg)
            except Exception:
                pass

    def m_loadFile(self, a, arg):
        import odml
        path = self.write_content(a)
        rdf = ("xml",) if a["fmt"] == "RDF" else ()
        if a["via"] == "odml" and not rdf:
            self.keep(odml.load(path, a["fmt"], show_warnings=not a["quiet"]))
        else:
            self.keep(self.reader(a).from_file(path, *rdf))

    def m_loadString(self, a, arg):
        kind = "small" if a["kind"] == "missing_file" else a["kind"]
        data = self.content(a["fmt"], kind)
        rdf = ("xml",) if a["fmt"] == "RDF" else ()
        self.keep(self.reader(a).from_string(data, *rdf))

    def m_parserDirect(self, a, arg):
        import yaml
        from odml.tools.xmlparser import XMLReader
        from odml.tools.dict_parser import DictReader
        kw = {"show_warnings": not a["quiet"], "ignore_errors": bool(arg % 2)}
        if a["fmt"] in ("XML", "RDF"):
            b = dict(a, fmt="XML")
            if arg % 4 < 2:
                self.keep(XMLReader(**kw).from_file(self.write_content(b)))
            else:
                kind = "small" if a["kind"] == "missing_file" else a["kind"]
                self.keep(XMLReader(**kw).from_string(self.content("XML", kind)))
        else:
            kind = "small" if a["kind"] == "missing_file" else a["kind"]
            text = self.content(a["fmt"], kind)
            parsed = json.loads(text) if a["fmt"] == "JSON" else yaml.safe_load(text)
            self.keep(DictReader(**kw).to_odml(parsed))

    def m_saveVia(self, a, arg):
        import odml
        what = self.doc if a["what"] == "doc" else self.small(a["what"])
        fmt = a["fmt"]
        if fmt == "RDF" and has_include(what):
            fmt = "JSON"
        name = "save%d.%s" % (self.counter, fmt.lower())
        self.counter += 1
        path = os.path.join(self.tmp(), name)
        if a["where"] == "missing_dir":
            path = os.path.join(self.tmp(), "nowhere", name)
        elif a["where"] == "is_dir":
            path = os.path.join(self.tmp(), "dir.%s" % fmt.lower())
            if not os.path.isdir(path):
                os.makedirs(path)
        if a["via"] == "odml":
            odml.save(what, path, fmt)
        else:
            self.writer(dict(a, fmt=fmt)).write_file(what, path)

    def m_toString(self, a, arg):
        fmt = "JSON" if a["fmt"] == "RDF" and has_include(self.doc) else a["fmt"]
        self.writer(dict(a, fmt=fmt)).to_string(self.doc)

    def m_create(self, a, arg):
        import odml
        sec = self.section(arg)
        k = arg % 16
        if k == 0:
            sec.create_section(self.fresh(), "t")
        elif k == 1:
            sec.create_property(self.fresh(), values=[1])
        elif k == 2:
            self.doc.create_section(self.fresh(), "t")
        elif k == 3:
            odml.Section(name=None, type="t", parent=self.doc)
        elif k == 4:
            odml.Property(name=None, parent=sec)
        elif k == 5:
            odml.Section(self.fresh(), "t", parent=sec, sec_cardinality=(1, None), prop_cardinality=(None, 2))
        elif k == 6:
            odml.Property(self.fresh(), values=[1, 2, 3], val_cardinality=(None, 2), parent=sec)
        elif k == 7:
            odml.Property(self.fresh(), values=["abc"], dtype="int", parent=sec)            # refused
        elif k == 8:
            odml.Property(self.fresh(), parent=self.doc)                                    # refused
        elif k == 9:
            odml.Section(self.fresh(), "t", parent=self.doc, prop_cardinality=(3, 1))       # refused
        elif k == 10:
            odml.Property(self.fresh(), values=[1], val_cardinality=(-1, 2), parent=sec)    # refused
        elif k == 11:
            other = odml.Document(author="x")
            odml.Property(self.fresh(), values=["1"], dtype="string",
                          parent=odml.Section(self.fresh(), parent=other))
        elif k == 12:
            odml.Section(self.fresh(), "t", parent=self.doc, link="/zz", prop_cardinality=(2, None))
        elif k == 13:
            odml.Section(self.fresh(), type="", parent=self.doc)
        elif k == 14:
            odml.Property(self.fresh(), values=["12", "13"], dtype="string", parent=sec)
        else:
            sec.append(odml.Property(self.fresh()))
            sec.insert(0, odml.Section(self.fresh(), "t"))
            sec.extend([odml.Property(self.fresh(), values=[True]), odml.Section(self.fresh(), "t")])

    def m_clone(self, a, arg):
        src = self.section(arg)
        if arg % 8 == 7:
            self.doc.clone(keep_id=bool(arg % 16 == 7))      # a second Document: nothing else changes
            return
        cp = src.clone(children=bool(arg % 4 != 3), keep_id=bool(arg % 2))
        if arg % 4 < 2:
            cp.name = self.fresh()
        (self.doc if arg % 3 else self.section(arg + 1)).append(cp)

    def m_setCard(self, a, arg):
        shape = a["shape"]
        if isinstance(shape, list):
            shape = tuple(shape) if arg % 3 else list(shape)
        if a["which"] == "val":
            obj, attr, meth = self.prop(arg), "val_cardinality", "set_values_cardinality"
        elif a["which"] == "sec":
            obj, attr, meth = self.section(arg), "sec_cardinality", "set_sections_cardinality"
        else:
            obj, attr, meth = self.section(arg), "prop_cardinality", "set_properties_cardinality"
        if a.get("method") and isinstance(shape, (tuple, list)) and len(shape) == 2:
            getattr(obj, meth)(shape[0], shape[1])
        else:
            setattr(obj, attr, shape)

    def m_editAttr(self, a, arg):
        k = arg % 10
        sec, prop = self.section(arg), self.prop(arg)
        if k == 0:
            sec.type = [None, "", "n.s.", "t2"][(arg // 10) % 4]
        elif k == 1:
            sec.name = self.fresh() if arg % 20 < 10 else sec.id
        elif k == 2:
            if prop.name != "zp":
                prop.name = self.fresh() if arg % 20 < 10 else prop.id
        elif k == 3:
            prop.dtype = ["string", "int", "text", None][(arg // 10) % 4]
        elif k == 4:
            prop.dependency = ["zp", "nope", None, ""][(arg // 10) % 4]
        elif k == 5:
            prop.dependency_value = ["1", "abc", None][(arg // 10) % 3]
        elif k == 6:
            sec.definition = "d"
            prop.unit = "mV"
        elif k == 7:
            self.doc.author = "someone"
            self.doc.version = "2"
        elif k == 8:
            sec.repository = None
            self.doc.repository = None
        else:
            sec.reorder(0)

    def m_editValues(self, a, arg):
        p = self.zp() if arg % 2 else self.prop(arg)
        k = (arg // 2) % 8
        if k == 0:
            p.values = []
        elif k == 1:
            p.values = None
        elif k == 2:
            p.append(7)
        elif k == 3:
            p.extend([8, 9])
        elif k == 4:
            p.remove(p.values[0])
        elif k == 5:
            p.values = ["abc"]                     # refused for an int Property
        elif k == 6:
            p.values = list(range(12))             # a two-digit count against single-digit bounds
        else:
            p.values = p.values + p.values

    def m_resolveLinks(self, a, arg):
        for sec in list(self.doc.itersections(recursive=True)):
            if sec.link is not None and not sec.is_merged:
                try:
                    sec.merge()
                except Exception:
                    pass

    def m_setLink(self, a, arg):
        import odml
        sec = odml.Section(self.fresh(), "t", parent=self.doc, prop_cardinality=(2 if arg % 2 else None, 3))
        sec.link = "/zz" if arg % 4 < 3 else "/nope"

    def m_unlink(self, a, arg):
        for sec in list(self.doc.itersections(recursive=True)):
            if sec.link is not None and sec.is_merged:
                sec.link = None
                return

    def m_removeProperty(self, a, arg):
        p = self.prop(arg)
        if p is not None and p.name != "zp" and id(p) not in self.protected:
            p.parent.remove(p)

    def m_validateMethod(self, a, arg):
        # the library-side spellings of "validate this": neither may touch the registry
        if arg % 2:
            self.doc.validate()
        else:
            self.doc.validate().report()


# ----------------------------------------------------------------------------- the check
class C19(fw.Check):
    prop = "C19"
    lean_targets = ["OdmlModel.Props.C19"]
    obligations = ["C19." + t for t in [
        "validate_order_independent", "crash_order_independent", "report_depends_on_sets",
        "run_changes_nothing", "validate_repeatable", "registry_isolated",
        "ctor_and_setter_validations_private", "reset_starts_empty", "default_uses_global",
        "default_report_stable", "custom_rule_private", "custom_rule_not_in_default",
        "fresh_custom_is_private", "custom_on_default_object_leaks", "register_global_changes"]]
    trusted_base = [
        "Lean 4.33.0 kernel; axioms propext, Classical.choice, Quot.sound only (audited per theorem)",
        "hand-written models lean/OdmlModel/Model/Registry.lean, Model/Valid.lean, tied to /repo by this run",
        "harness/extract_tables.py (Validation._handlers regenerated into Lean: the initial registry)",
        "Driver/*.lean JSON glue; harness/framework.py, harness/c19.py, harness/c08.py (builders)",
    ]
    assumptions = [
        "which private validations the constructors / setters / save / load create is modelled by the "
        "macro table of Model/Registry.lean; only their effect on the class-level registry and on the "
        "user's validation objects is observable and compared",
        "'changes nothing in the validated objects' and 'same issues in another process' are checked on "
        "the implementation (snapshots, subprocess); in the model a validation is a pure function",
        "user rules are kind-correct (a rule written for Sections is not registered for 'odML')",
    ]
    rule = ("random documents x random histories (4-16 steps) over: default validation, reset validation, "
            "register_custom_handler (user rules and default rule functions; mostly on reset objects), "
            "explicit register_handler, run / report, Section / Property construction, the three "
            "cardinality setters, value assignment, save (XML/JSON/YAML), load; plus handler-order "
            "permutations and cross-process (other PYTHONHASHSEED) validation of the same documents. "
            "Wide stream: documents with unresolved/resolved links and includes, deeper trees, non-ASCII "
            "values x histories that also validate a Section or a Property, start validations through "
            "Document.validate() / validate=False + run_validation() / Validation.validate(obj), load and "
            "save through every entry point (odml.load/save, fresh and re-used readers/writers, file and "
            "string, XMLReader/DictReader, quiet and loud, XML/JSON/YAML/RDF, good and refused files, "
            "unwritable targets), create objects in every spelling incl. refused ones, set every "
            "cardinality argument shape incl. refused ones, edit attributes and values between runs, "
            "resolve links, register raising user rules and the library's non-default rules. "
            "Non-trivial = a history with at least one registration on a reset validation or a library "
            "macro, or a permutation/xproc case with at least one issue.")

    def generate(self, tier, rng):
        quick = tier == "quick"
        cases = []
        for _ in range(900 if quick else 20000):
            cases.append({"stream": "history", "doc": gen_doc(rng, rng.choice([0.0, 0.05, 0.3])),
                          "acts": gen_history(rng, tier)})
        for _ in range(250 if quick else 6000):
            cases.append({"stream": "perm", "doc": gen_doc(rng, rng.choice([0.05, 0.3, 0.6])),
                          "seed": rng.randrange(10 ** 6)})
        for b in range(4 if quick else 16):
            cases.append({"stream": "xproc", "hashseed": rng.randrange(1, 4000),
                          "docs": [gen_doc(rng, rng.choice([0.05, 0.3, 0.6])) for _ in range(30 if quick else 200)]
                                  + [multi_doc(rng) for _ in range(3)]})
        # ---- added after seeded round 2 (drawn after the streams above, which keep their cases)
        for _ in range(600 if quick else 20000):
            cases.append({"stream": "wide", "doc": gen_wide_doc(rng), "acts": gen_wide_history(rng)})
        for _ in range(120 if quick else 3000):
            cases.append({"stream": "perm", "doc": gen_wide_doc(rng, zz=rng.random() < 0.7),
                          "seed": rng.randrange(10 ** 6), "resolve": rng.random() < 0.4})
        for b in range(2 if quick else 8):
            cases.append({"stream": "xproc", "hashseed": rng.randrange(1, 4000), "locale": bool(b % 2),
                          "roundtrip": True,
                          "docs": [gen_wide_doc(rng, zz=rng.random() < 0.8) for _ in range(25 if quick else 150)]})
        return cases

    # -- implementation ------------------------------------------------------
    def impl(self, case):
        saved = registry_copy()
        tmp = Scratch()
        try:
            st = case["stream"]
            if st in ("history", "wide"):
                return self.run_history(case, tmp, saved)
            if st == "perm":
                return self.run_perm(case)
            return self.run_xproc(case)
        finally:
            registry_restore(saved)
            tmp.remove()
            if tmp.path is not None:
                self.drop_include_cache()

    @staticmethod
    def drop_include_cache():
        """Only a resolved include (RDF export, a changed library) leaves a copy in the loader's cache."""
        import glob
        for path in glob.glob(os.path.join(tempfile.gettempdir(), "odml.cache", "*.c19inc_%d.xml" % os.getpid())):
            try:
                os.remove(path)
            except OSError:
                pass

    @staticmethod
    def include_file(tmp):
        """A small odML file the include attributes of a case point to -> its URL."""
        import odml
        from odml.tools.odmlparser import ODMLWriter
        inc = odml.Document()
        s = odml.Section(name="s", type="t", parent=inc)
        odml.Property(name="incp", values=[1], parent=s)
        path = os.path.join(tmp(), "c19inc_%d.xml" % os.getpid())
        with io.open(path, "w", encoding="utf-8") as fh:
            fh.write(ODMLWriter("XML").to_string(inc))
        return "file://" + path

    @staticmethod
    def node_of(doc):
        kind, snap, refs = c08.snapshot(doc)
        try:
            return kind, c08.model_node(kind, snap), refs
        except c08.Unsupported:
            return kind, None, refs

    def run_history(self, case, tmp, saved):
        import odml
        from odml.validation import Validation
        pristine = registry_names()
        inc_url = self.include_file(tmp) if any(ln.get("include") for ln in case["doc"].get("links", [])) \
            else "file:///nonexistent/c19inc.xml"
        doc, _bt = build_doc(case["doc"], inc_url)
        start = registry_names()
        lib = Lib(doc, tmp, inc_url, strict=case["stream"] == "history")
        insts = {}
        targets = {}           # user handle -> the object its Validation is bound to
        handlers_of = {}       # user handle -> {klass: [functions]} registered through the API
        is_reset = {}
        extra_global = dict((k, []) for k in KLASSES)
        steps = []

        def resolve(on):
            if not on:
                return doc
            obj = lib.section(on[1]) if on[0] == "sec" else lib.prop(on[1])
            return doc if obj is None else obj

        def bind(u, on):
            targets[u] = resolve(on)
            lib.protected.add(id(targets[u]))
            return targets[u]

        def snap(root):
            return full_snapshot(doc, () if root is doc else (root,))

        def table_of(u):
            if is_reset[u]:
                return handlers_of[u]
            return dict((k, list(set(saved.get(k, ())) | set(extra_global[k]))) for k in KLASSES)

        def validation_step(fn, u, texts=None):
            root = targets[u]
            before = snap(root)
            kind, node, refs = self.node_of(root)
            if kind not in ("doc", "sec", "prop") or (kind == "prop" and root.parent is not None):
                node = None      # the model's stand-alone Property has no siblings: oracle only
            obs = {"kind": kind, "node": node, "u": u}
            try:
                r = fn()
                if texts is not None:
                    texts.append(r)
                obs["issues"] = c08.issue_list(insts[u].errors, refs)
            except Exception as exc:
                obs["run_raised"] = fw.exc_name(exc)
            after = snap(root)
            if u in insts:
                try:
                    if texts is not None:
                        texts.append(insts[u].report())
                    else:
                        insts[u].run_validation()
                    obs["again"] = c08.issue_list(insts[u].errors, refs)
                except Exception as exc:
                    obs["again_raised"] = fw.exc_name(exc)
            after2 = snap(root)
            obs["unchanged"] = before == after and after == after2
            if texts is not None and len(texts) == 2:
                obs["report_same"] = texts[0] == texts[1]
            # what this object has to report, computed by applying handlers directly
            try:
                obs["expected"] = apply_directly(table_of(u), root, refs)
            except Exception as exc:
                obs["expected_failed"] = fw.exc_name(exc)
            return obs

        def direct_step(u, obj):
            """Validation.validate(obj): the rules of this Validation applied to one object."""
            root = targets[u]
            before = snap(root)
            _kind, _snap, refs = c08.snapshot(doc)
            if id(obj) not in refs:
                _k2, _s2, more = c08.snapshot(obj)
                refs = dict(more, **refs)
            klass = obj.format().name
            obs = {"kind": "direct", "node": None, "u": u}
            val = insts[u]
            try:
                n0 = len(val.errors)
                val.validate(obj)
                obs["issues"] = c08.issue_list(val.errors[n0:], refs)
            except Exception as exc:
                obs["run_raised"] = fw.exc_name(exc)
            after = full_snapshot(doc, (obj, root))
            try:
                n1 = len(val.errors)
                val.validate(obj)
                obs["again"] = c08.issue_list(val.errors[n1:], refs)
            except Exception as exc:
                obs["again_raised"] = fw.exc_name(exc)
            obs["unchanged"] = before == snap(root) and after == full_snapshot(doc, (obj, root))
            try:
                out = []
                for h in table_of(u).get(klass, ()):
                    out.extend(h(obj))
                obs["expected"] = c08.issue_list(out, refs)
            except Exception as exc:
                obs["expected_failed"] = fw.exc_name(exc)
            return obs

        def loaded_step(loaded):
            """A default validation of the document a load step has just returned."""
            try:
                before = full_snapshot(loaded)
                _kind, _snap, refs = c08.snapshot(loaded)
            except Exception:
                return None      # a document read with ignore_errors the harness cannot read back
            obs = {}
            try:
                val = Validation(loaded)
                obs["issues"] = c08.issue_list(val.errors, refs)
                obs["again"] = c08.issue_list(loaded.validate().errors, refs)
            except Exception as exc:
                obs["run_raised"] = fw.exc_name(exc)
            obs["unchanged"] = before == full_snapshot(loaded)
            try:
                table = dict((k, list(set(saved.get(k, ())) | set(extra_global[k]))) for k in KLASSES)
                obs["expected"] = apply_directly(table, loaded, refs)
            except Exception as exc:
                obs["expected_failed"] = fw.exc_name(exc)
            return obs

        for a in case["acts"]:
            t = a["t"]
            obs = {}
            try:
                if t == "new":
                    # both spellings of "created with reset=True" (validate defaults to True)
                    root = bind(a["u"], a.get("on"))
                    if a.get("quiet", True) == "pos":
                        insts[a["u"]] = Validation(root, False, True)
                    else:
                        insts[a["u"]] = Validation(root, validate=False, reset=True) if a.get("quiet", True) \
                            else Validation(root, reset=True)
                    is_reset[a["u"]] = True
                    handlers_of[a["u"]] = {}
                elif t == "default":
                    u = a["u"]
                    is_reset[u] = False
                    handlers_of[u] = {}
                    root = bind(u, a.get("on"))
                    via = a.get("via", "Validation")

                    def create(u=u, root=root, via=via):
                        if via == "validate" and root is doc:
                            insts[u] = doc.validate()
                        elif via == "deferred":
                            insts[u] = Validation(root, validate=False)
                            insts[u].run_validation()
                        else:
                            insts[u] = Validation(root)
                    obs = validation_step(create, u)
                elif t == "custom":
                    f = handler_func(a["h"])
                    insts[a["u"]].register_custom_handler(a["k"], f)
                    if is_reset[a["u"]]:
                        lst = handlers_of[a["u"]].setdefault(a["k"], [])
                        if f not in lst:
                            lst.append(f)
                    else:
                        obs["on_default_object"] = True
                        extra_global[a["k"]].append(f)
                elif t == "global":
                    f = handler_func(a["h"])
                    Validation.register_handler(a["k"], f)
                    extra_global[a["k"]].append(f)
                elif t == "run":
                    obs = validation_step(insts[a["u"]].run_validation, a["u"])
                elif t == "report":
                    obs = validation_step(insts[a["u"]].report, a["u"], [])
                elif t == "direct":
                    obs = direct_step(a["u"], resolve(a.get("obj")))
                elif t == "lib":
                    lib.loaded = None
                    lib.run(a)
                    if lib.loaded is not None:
                        got = loaded_step(lib.loaded)
                        if got is not None:
                            obs["loaded"] = got
            except Exception as exc:
                obs["raised"] = fw.exc_name(exc)
            obs["global"] = registry_names()
            steps.append(obs)
        return {"pristine": pristine, "start": start, "steps": steps}

    @staticmethod
    def lib(a, doc, tmp, fresh, target_section, target_property):
        """The macros of the first round (kept for callers of the old signature)."""
        Lib(doc, (lambda: tmp), "file:///nonexistent/c19inc.xml").run(a)

    def run_perm(self, case):
        import random
        from odml.validation import Validation
        doc, _bt = build_doc(case["doc"])
        if case.get("resolve"):
            for sec in list(doc.itersections(recursive=True)):
                if sec.link is not None:
                    try:
                        sec.merge()
                    except Exception:
                        pass
        kind, node, refs = self.node_of(doc)
        rng = random.Random(case["seed"])
        base = dict((k, sorted(Validation._handlers.get(k, ()), key=lambda f: f.__name__)) for k in KLASSES)
        orders = []
        results = []
        snaps = [full_snapshot(doc)]
        for _ in range(2):
            table = dict((k, rng.sample(v, len(v))) for k, v in base.items())
            val = Validation(doc, validate=False, reset=True)
            try:
                val._handlers = table
            except AttributeError:
                return {"skipped": "no _handlers attribute"}
            val.run_validation()
            results.append(c08.issue_list(val.errors, refs))
            snaps.append(full_snapshot(doc))
            orders.append(dict((k, [f.__name__ for f in v]) for k, v in table.items()))
        default = c08.issue_list(Validation(doc).errors, refs)
        snaps.append(full_snapshot(doc))
        method = c08.issue_list(doc.validate().errors, refs)
        snaps.append(full_snapshot(doc))
        return {"kind": kind, "node": node, "orders": orders, "results": results, "default": default,
                "method": method, "unchanged": all(s == snaps[0] for s in snaps)}

    def run_xproc(self, case):
        here = child_validate(case["docs"], case.get("roundtrip", False))
        env = dict(os.environ)
        env["PYTHONHASHSEED"] = str(case["hashseed"])
        env["ODML_REPO"] = fw.REPO
        env["PYTHONPATH"] = os.path.join(fw.VERIF, "harness")
        if case.get("locale"):
            # process-level defaults the issues must not depend on
            env["LC_ALL"] = "C"
            env["LANG"] = "C"
            env["PYTHONUTF8"] = "0"
            env["PYTHONCOERCECLOCALE"] = "0"
        cmd = [sys.executable, os.path.abspath(__file__), "--child"] + (["--roundtrip"] if case.get("roundtrip") else [])
        proc = subprocess.run(cmd, input=json.dumps(case["docs"]).encode("utf-8"), env=env,
                              stdout=subprocess.PIPE, stderr=subprocess.PIPE, timeout=600)
        if proc.returncode != 0:
            return {"child_failed": proc.stderr.decode("utf-8", "replace")[-600:], "here": here}
        there = json.loads(proc.stdout.decode("utf-8").strip().splitlines()[-1])
        return {"here": here, "there": there}

    # -- model ---------------------------------------------------------------
    @staticmethod
    def modelled(case):
        """Does the Lean model know every handler this history registers?"""
        return all(handler_modelled(a["h"]) for a in case["acts"] if a["t"] in ("custom", "global"))

    @staticmethod
    def model_acts(case, obs):
        """-> (driver acts, index of the driver output that belongs to each impl step)"""
        out = []
        last = []
        for a, step in zip(case["acts"], obs["steps"]):
            t = a["t"]
            if t == "new":
                out.append({"t": "new", "u": a["u"], "reset": True})
            elif t == "default":
                out.append({"t": "new", "u": a["u"], "reset": False})
                if step.get("node") is not None:
                    out.append({"t": "run", "u": a["u"], "kind": step["kind"], "node": step["node"]})
            elif t in ("run", "report"):
                if step.get("node") is not None:
                    out.append({"t": "run", "u": a["u"], "kind": step["kind"], "node": step["node"]})
            elif t == "custom":
                out.append({"t": "custom", "u": a["u"], "k": a["k"], "h": a["h"]})
            elif t == "global":
                out.append({"t": "global", "k": a["k"], "h": a["h"]})
            elif t == "lib" and a["m"] in MODEL_MACROS:
                out.append({"t": "lib", "m": a["m"]})
            # every other step (the wide stream's macros, Validation.validate(obj)) has no macro in
            # the model: the model's registry stays what it is and is compared again after the step
            last.append(len(out) - 1)
        return out, last

    def model_requests(self, case, obs):
        st = case["stream"]
        if st in ("history", "wide"):
            if any("raised" in s or "run_raised" in s or "again_raised" in s for s in obs["steps"]):
                return []
            if not self.modelled(case):
                return []
            acts, _last = self.model_acts(case, obs)
            return [{"p": "C19", "op": "history", "acts": acts}]
        if st == "perm":
            if obs.get("node") is None or "skipped" in obs:
                return []
            known = set(n for names in RULES_FOR.values() for n in names)
            if any(n not in known for order in obs["orders"] for k in KLASSES for n in order[k]):
                return []       # a handler the model does not know: left to the oracle
            return [{"p": "C19", "op": "validate_with", "kind": obs["kind"], "node": obs["node"],
                     "table": dict((k, [{"r": n} for n in order[k]]) for k in KLASSES)}
                    for order in obs["orders"]]
        return []

    def compare(self, case, obs, answers):
        out = []
        st = case["stream"]
        if st in ("history", "wide") and answers:
            _acts, last = self.model_acts(case, obs)
            outs = answers[0]
            for i, (a, step) in enumerate(zip(case["acts"], obs["steps"])):
                if last[i] < 0 or last[i] >= len(outs):
                    continue
                m = outs[last[i]]
                if m["global"] != step["global"]:
                    out.append("step %d (%s): model registry %s, implementation %s"
                               % (i, a["t"], m["global"], step["global"]))
                    break
                if a["t"] in ("default", "run", "report") and "issues" in step \
                        and step.get("node") is not None and "issues" in m:
                    mine = sorted(m["issues"], key=lambda x: (x[0], x[1], x[2]))
                    if mine != [list(x) for x in step["issues"]]:
                        out.append("step %d (%s of object %s): model issues %s..., implementation %s..."
                                   % (i, a["t"], a.get("u"), mine[:5], step["issues"][:5]))
                        break
        if st == "perm" and answers:
            for k, ans in enumerate(answers):
                mine = sorted(ans, key=lambda x: (x[0], x[1], x[2]))
                if mine != [list(x) for x in obs["results"][k]]:
                    out.append("handler order %d: model issues differ from the implementation" % k)
        return out

    # -- oracle --------------------------------------------------------------
    @staticmethod
    def judge_validation(out, i, what, u, step):
        """The clauses about one validation (a step of the user, or of a freshly loaded document)."""
        if "run_raised" in step:
            # only a user rule that itself raises on this document explains a raising validation
            if "expected_failed" not in step:
                out.append("step %d (%s) raised %s" % (i, what, step["run_raised"]))
                return False
            if "again" in step:
                out.append("step %d (%s): the validation raised %s, validating the unchanged objects "
                           "again did not" % (i, what, step["run_raised"]))
        elif "again_raised" in step:
            out.append("step %d (%s): validating the unchanged objects again raised %s"
                       % (i, what, step["again_raised"]))
        if not step["unchanged"]:
            out.append("step %d (%s): the validated objects were changed by the validation" % (i, what))
        if "issues" in step:
            if "again" in step and step["again"] != step["issues"]:
                out.append("step %d (%s): validating the unchanged objects again reports %d issues "
                           "instead of %d" % (i, what, len(step["again"]), len(step["issues"])))
            if step.get("report_same") is False:
                out.append("step %d (%s): two reports on the unchanged objects differ" % (i, what))
            if "expected" in step and step["expected"] != step["issues"]:
                extra = [x for x in step["issues"] if x not in step["expected"]]
                missing = [x for x in step["expected"] if x not in step["issues"]]
                out.append("step %d (%s of object %s): reported issues are not those of the rules "
                           "registered for it: unexpected %s, missing %s"
                           % (i, what, u, extra[:4], missing[:4]))
        return True

    def oracle(self, case, obs):
        if "harness_exception" in obs:
            return []
        st = case["stream"]
        out = []
        if st in ("history", "wide"):
            if obs["start"] != obs["pristine"]:
                out.append("building the document (constructors, value and cardinality setters) changed "
                           "the default registry: %s -> %s" % (obs["pristine"], obs["start"]))
            prev = obs["start"]
            for i, (a, step) in enumerate(zip(case["acts"], obs["steps"])):
                t = a["t"]
                if "raised" in step:
                    out.append("step %d (%s) raised %s" % (i, t, step["raised"]))
                    break
                want = prev
                if t == "global" or (t == "custom" and step.get("on_default_object")):
                    name = handler_func(a["h"]).__name__
                    want = dict(prev)
                    want[a["k"]] = sorted(set(prev[a["k"]]) | {name})
                    if t == "custom" and step["global"] == prev:
                        want = prev          # the property is silent on non-reset objects
                if step["global"] != want:
                    what = "lib:" + a["m"] if t == "lib" else t
                    out.append("step %d (%s) changed the default registry: %s -> %s"
                               % (i, what, prev, step["global"]))
                prev = step["global"]
                if "unchanged" in step:
                    if not self.judge_validation(out, i, t, a.get("u"), step):
                        break
                if "loaded" in step:
                    self.judge_validation(out, i, "default validation of the document loaded by lib:" + a["m"],
                                          "loaded", step["loaded"])
        elif st == "perm":
            if "skipped" in obs:
                return []
            if obs["results"][0] != obs["results"][1]:
                out.append("two orders of the same handlers report different issue multisets")
            if obs["results"][0] != obs["default"]:
                out.append("the default validation differs from the default rules applied in a fixed order")
            if "method" in obs and obs["method"] != obs["default"]:
                out.append("Document.validate() and Validation(doc) report different issues on the same "
                           "unchanged document")
            if not obs["unchanged"]:
                out.append("the validated objects were changed by a validation")
        else:
            if "child_failed" in obs:
                out.append("validation in a fresh process failed: %s" % obs["child_failed"][-200:])
            elif obs["here"] != obs["there"]:
                bad = [i for i, (a, b) in enumerate(zip(obs["here"], obs["there"])) if a != b]
                out.append("documents %s: another process reports different issues" % bad[:5])
        return out

    def tag(self, case, obs):
        st = case["stream"]
        if st in ("history", "wide"):
            kinds = set(a["t"] if a["t"] != "lib" else "lib" for a in case["acts"])
            priv = any(a["t"] == "custom" for a in case["acts"]) or "lib" in kinds
            glob = "global" in kinds
            extra = ""
            if st == "wide":
                extra = "" if self.modelled(case) and not any(
                    "run_raised" in s for s in obs.get("steps", [])) else "+oracle-only"
            return ("%s:%s%s%s" % (st, "global" if glob else "clean", "+custom" if priv else "", extra), priv)
        if st == "perm":
            return ("perm", bool(obs.get("default")))
        return ("xproc", any(obs.get("here", [])))


def issues_with_text(errors, refs):
    """(object, IssueID, rank, message) - the same code produces both sides of a cross-process
    comparison, so the message text belongs to "the same collection of issues" here."""
    import re
    out = []
    for e in errors:
        vid = getattr(e.validation_id, "value", None)
        msg = re.sub(r"0x[0-9a-fA-F]+", "0x", str(getattr(e, "msg", "")))
        out.append([refs.get(id(e.obj), "?"), vid, e.rank, msg])
    return sorted(out, key=lambda x: (x[0], x[1] if x[1] is not None else -1, str(x[2]), x[3]))


def child_validate(docs, roundtrip=False):
    """Default validation and a reset validation with user rules, per document -> issue lists.
    roundtrip: also the default validation of the document read back from its own JSON text, and of
    the document after its links have been resolved (ids of merged copies are random: not compared)."""
    from odml.validation import Validation
    out = []
    for spec in docs:
        doc, _bt = build_doc(spec)
        _kind, _snap, refs = c08.snapshot(doc)
        try:
            a = issues_with_text(Validation(doc).errors, refs)
        except Exception as exc:
            a = ["raised " + fw.exc_name(exc)]
        val = Validation(doc, validate=False, reset=True)
        for k in KLASSES:
            val.register_custom_handler(k, custom_1)
            val.register_custom_handler(k, custom_2)
            for name in RULES_FOR[k]:
                val.register_custom_handler(k, handler_func({"r": name}))
        try:
            val.run_validation()
            b = issues_with_text(val.errors, refs)
        except Exception as exc:
            b = ["raised " + fw.exc_name(exc)]
        row = [a, b]
        if roundtrip:
            from odml.tools.odmlparser import ODMLWriter, ODMLReader
            try:
                c = issues_with_text(doc.validate().errors, refs)
            except Exception as exc:
                c = ["raised " + fw.exc_name(exc)]
            try:
                text = ODMLWriter("JSON").to_string(doc)
                back = ODMLReader("JSON", show_warnings=False).from_string(text)
                _k, _s, brefs = c08.snapshot(back)
                d = issues_with_text(Validation(back).errors, brefs)
            except Exception as exc:
                d = ["raised " + fw.exc_name(exc)]
            try:
                for sec in list(doc.itersections(recursive=True)):
                    if sec.link is not None:
                        try:
                            sec.merge()
                        except Exception:
                            pass
                _k, _s, mrefs = c08.snapshot(doc)
                e = issues_with_text(Validation(doc).errors, mrefs)
            except Exception as exc:
                e = ["raised " + fw.exc_name(exc)]
            row += [c, d, e]
        out.append(row)
    return out


if __name__ == "__main__":
    if len(sys.argv) > 1 and sys.argv[1] == "--child":
        specs = json.loads(sys.stdin.read())
        with fw.quiet():
            res = child_validate(specs, "--roundtrip" in sys.argv[2:])
        sys.stdout.write(json.dumps(res) + "\n")
        sys.exit(0)
    sys.exit(fw.main(C19(), sys.argv[1:]))
